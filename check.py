#!/venv/bin/python
"""Entry point: decide one property by static analysis of /repo's working tree.

usage: check.py <PROPERTY-ID> [--tier quick|thorough] [--replay FILE]

exit 0  every rule instance discharged (or listed as known finding)
exit 1  VIOLATION lines printed
exit 2  ANALYSIS-ERROR (anchor vanished, unknown idiom, checker crashed)
"""

from __future__ import annotations

import argparse
import json
import os
import sys
import time
import traceback
from pathlib import Path

HERE = Path(__file__).resolve().parent
sys.path.insert(0, str(HERE))

from sa.loader import AnalysisError  # noqa: E402
from sa.report import KnownFindings  # noqa: E402
from sa.report import clean_replays  # noqa: E402
from sa.report import write_evidence  # noqa: E402
from sa.report import write_replay  # noqa: E402


def main() -> int:
    ap = argparse.ArgumentParser()
    ap.add_argument("prop")
    ap.add_argument("--tier", default=os.environ.get("VERIF_TIER", "quick"),
                    choices=["quick", "thorough"])
    ap.add_argument("--replay", default=None)
    ap.add_argument("--no-selftest", action="store_true")
    args = ap.parse_args()
    prop = args.prop.upper()
    seed = int(os.environ.get("VERIF_SEED", "0") or 0)
    t0 = time.time()

    results = []
    rule_errors = []
    digest = ""
    extra = {}
    try:
        from rules import Ctx
        from rules import rules_for

        ctx = Ctx()
        digest = ctx.repo.digest()
        extra["source_view"] = {
            "canonical_form": not os.environ.get("VERIF_NO_CANON"),
            "helpers_inlined": ctx.repo.inlined,
            "helper_log": ctx.repo.inline_log[:20],
            "note": "rules read the canonical syntax tree (sa/canon.py); functions absent from "
                    "sa/known_functions.txt are inlined into their callers first (sa/inline.py)",
        }
        rule_fns = rules_for(prop)
        if not rule_fns:
            raise AnalysisError(f"no rules registered for {prop}")
        # every rule runs; a rule that cannot proceed (vanished anchor, unknown idiom, instance count below
        # its floor) is remembered and makes the run an ANALYSIS-ERROR - unless another rule reports a
        # violation, which stands on its own
        for fn in rule_fns:
            try:
                rr = fn(ctx)
            except AnalysisError as err:
                rule_errors.append(str(err))
                continue
            rr.prop = prop
            for f in rr.findings:
                f.prop = prop
            try:
                rr.check_floor()
            except AnalysisError as err:
                rule_errors.append(str(err))
            results.append(rr)
        if args.tier == "thorough":
            from rules import thorough_rules_for

            if rule_errors and not any(rr.findings for rr in results):
                raise AnalysisError("; ".join(rule_errors))
            for fn in thorough_rules_for(prop):
                rr = fn(ctx)
                rr.prop = prop
                for f in rr.findings:
                    f.prop = prop
                rr.check_floor()
                results.append(rr)
            # the checker self-test judges the *rules*; it only makes sense on a tree on
            # which they currently pass (a violation found above is reported as such)
            if (
                not args.no_selftest
                and not os.environ.get("VERIF_NO_SELFTEST")
                and not any(rr.findings for rr in results)
            ):
                from selftest import run_selftest

                st = run_selftest(prop, seed)
                extra["selftest"] = {k: v for k, v in st.items() if k != "results"}
                extra["selftest"]["sample_results"] = st["results"][:6]
                if st.get("failures"):
                    raise AnalysisError(
                        "checker self-test failed: " + "; ".join(st["failures"][:5])
                    )
        if rule_errors and not any(rr.findings for rr in results):
            raise AnalysisError("; ".join(rule_errors))
    except AnalysisError as err:
        print(f"ANALYSIS-ERROR property={prop} {err}")
        write_evidence(prop, args.tier, seed, results, [], [], time.time() - t0,
                       digest, extra, error=str(err))
        return 2
    except Exception as err:  # noqa: BLE001
        traceback.print_exc()
        print(f"ANALYSIS-ERROR property={prop} checker crashed: {err!r}")
        write_evidence(prop, args.tier, seed, results, [], [], time.time() - t0,
                       digest, extra, error=repr(err))
        return 2

    kf = KnownFindings()
    known, violations = [], []
    seen = set()
    for rr in results:
        for f in rr.findings:
            if f.key in seen:
                continue
            seen.add(f.key)
            e = kf.match(f)
            if e is not None:
                known.append(f)
                print(f"KNOWN-FINDING: property={prop} {e.get('what', f.message)} "
                      f"[{f.rule} {f.qualname}]")
            else:
                violations.append(f)

    if args.replay:
        want = json.loads(Path(args.replay).read_text())
        hit = [f for f in violations + known if f.key == want.get("key")]
        if hit:
            print("REPLAY: finding still present:")
            print("  " + hit[0].text())
            print(f"VIOLATION property={prop} replay={args.replay}")
            return 1
        print("REPLAY: finding no longer present on the current tree")
        return 0

    if rule_errors and not violations:
        # a rule that could not be decided fails the run unless an unlisted violation stands on its own
        # (a known finding is not a violation: it must not turn an undecided rule into a pass)
        msg = "; ".join(rule_errors)
        print(f"ANALYSIS-ERROR property={prop} {msg}")
        write_evidence(prop, args.tier, seed, results, known, [], time.time() - t0, digest, extra, error=msg)
        return 2
    clean_replays(prop)
    for e in rule_errors:
        print(f"NOTE: a rule could not be decided on this tree (it would be an ANALYSIS-ERROR on its own): {e}")
    if rule_errors:
        extra["undecided_rules"] = rule_errors
    for i, f in enumerate(violations):
        path = write_replay(prop, i, f)
        print(f.text())
        print(f"VIOLATION property={prop} replay={path}")

    wall = time.time() - t0
    write_evidence(prop, args.tier, seed, results, known, violations, wall, digest, extra)
    n_inst = sum(len(r.instances) for r in results)
    print(
        f"{prop}: {len(results)} rules, {n_inst} instances, "
        f"{len(violations)} violations, {len(known)} known findings, {wall:.2f}s"
    )
    return 1 if violations else 0


if __name__ == "__main__":
    sys.exit(main())
