"""Must-analysis domain: the state is the set of events that happened on *every*
path to the point (dominance facts)."""

from __future__ import annotations

import ast
from typing import Iterable
from typing import List

from .flow import Domain
from .flow import Flow
from .kinds import path_of


class MustDomain(Domain):
    """Must-analysis: the state is the set of events that happened on *every*
    path to the point.  Events are strings `name@var`; assigning `var` kills
    every event about it."""

    def __init__(self, expr_events=None, refine_events=None, stmt_events=None):  # type: ignore[no-untyped-def]
        self.expr_events = expr_events or (lambda e: ())
        self.refine_events = refine_events or (lambda t, b: ())
        self.stmt_events = stmt_events or (lambda s: ())

    def initial(self, func: ast.AST) -> frozenset:
        return frozenset()

    def join(self, a: frozenset, b: frozenset) -> frozenset:
        return a & b

    def _kill(self, state: frozenset, names: Iterable[str]) -> frozenset:
        names = set(names)
        if not names:
            return state
        return frozenset(e for e in state if e.partition("@")[2] not in names)

    def transfer(self, stmt: ast.stmt, state: frozenset, flow: Flow) -> frozenset:
        killed: List[str] = []
        if isinstance(stmt, (ast.Assign, ast.AnnAssign, ast.AugAssign)):
            targets = stmt.targets if isinstance(stmt, ast.Assign) else [stmt.target]
            for t in targets:
                for n in ast.walk(t):
                    if isinstance(n, ast.Name) and isinstance(n.ctx, ast.Store):
                        killed.append(n.id)
                p = path_of(t)
                if p:
                    killed.append(p)
        state = self._kill(state, killed)
        return state | frozenset(self.stmt_events(stmt))

    def bind(self, target: ast.expr, iter_: ast.expr, state: frozenset, flow: Flow) -> frozenset:
        killed = [n.id for n in ast.walk(target) if isinstance(n, ast.Name)]
        return self._kill(state, killed)

    def refine(self, test: ast.expr, branch: bool, state: frozenset, flow: Flow) -> frozenset:
        return state | frozenset(self.refine_events(test, branch))

    def expr_effect(self, expr: ast.expr, state: frozenset, flow: Flow) -> frozenset:
        ev = self.expr_events(expr)
        return state | frozenset(ev) if ev else state


class MayDomain(MustDomain):
    """May-analysis: the state is the set of events that happened on *some*
    path to the point (join = union).  Used for ordering rules of the form "B
    never happens after A": A's event must not be in the may-state at B."""

    def join(self, a: frozenset, b: frozenset) -> frozenset:
        return a | b
