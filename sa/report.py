"""Findings, rule results, evidence and known-findings handling."""

from __future__ import annotations

import ast
import json
import os
import time
from dataclasses import dataclass
from dataclasses import field
from pathlib import Path
from typing import Any
from typing import Dict
from typing import List
from typing import Optional

from .loader import AnalysisError
from .loader import FuncInfo
from .loader import short

VERIF = Path(__file__).resolve().parent.parent
# scratch evaluations (seeded changes, refactorings) write their evidence elsewhere
EVIDENCE = Path(os.environ.get("VERIF_EVIDENCE_DIR") or (VERIF / "evidence"))


@dataclass
class Finding:
    prop: str
    rule: str
    file: str
    line: int
    qualname: str
    construct: str
    message: str
    witness: str = ""

    @property
    def key(self) -> str:
        # rule + function + normalised construct text: never a line number
        return f"{self.rule}|{self.qualname}|{self.construct}"

    def as_dict(self) -> Dict[str, Any]:
        return {
            "property": self.prop,
            "rule": self.rule,
            "file": self.file,
            "line": self.line,
            "function": self.qualname,
            "construct": self.construct,
            "message": self.message,
            "witness_path": self.witness,
            "key": self.key,
        }

    def text(self) -> str:
        w = f" [path: {self.witness}]" if self.witness else ""
        return (
            f"{self.file}:{self.line}: {self.rule} in {self.qualname}: "
            f"{self.message} -- construct `{self.construct}`{w}"
        )


@dataclass
class RuleResult:
    rule: str
    title: str
    prop: str = ""
    floor: int = 0
    instances: List[Dict[str, Any]] = field(default_factory=list)
    findings: List[Finding] = field(default_factory=list)
    notes: List[str] = field(default_factory=list)

    def ok(self, where: str, what: str, **extra: Any) -> None:
        self.instances.append({"where": where, "what": what, "verdict": "ok", **extra})

    def bad(
        self,
        fn: Optional[FuncInfo],
        node: Optional[ast.AST],
        message: str,
        construct: Optional[str] = None,
        witness: str = "",
        file: str = "",
        qualname: str = "",
    ) -> Finding:
        line = getattr(node, "lineno", 0) if node is not None else 0
        if fn is not None:
            file = fn.relpath
            qualname = getattr(fn, "role_qualname", None) or fn.qualname
            if not line:
                line = fn.lineno
        if construct is None:
            construct = short(node, 160) if node is not None else ""
        f = Finding(
            prop=self.prop,
            rule=self.rule,
            file=file,
            line=line,
            qualname=qualname,
            construct=construct,
            message=message,
            witness=witness,
        )
        self.findings.append(f)
        self.instances.append(
            {"where": f"{file}:{line}", "what": f"{qualname}: {construct}", "verdict": "VIOLATED",
             "message": message}
        )
        return f

    def note(self, text: str) -> None:
        self.notes.append(text)

    def check_floor(self) -> None:
        # the floor guards against a vacuous *pass*; a rule that already reports a
        # violation is not passing
        if self.findings:
            return
        if len(self.instances) < self.floor:
            raise AnalysisError(
                f"{self.rule}: only {len(self.instances)} instances found, "
                f"hand-confirmed minimum is {self.floor} - an anchor vanished or an "
                "idiom is no longer recognised"
            )


class KnownFindings:
    def __init__(self, path: Optional[Path] = None) -> None:
        self.path = path or (VERIF / "known_findings.json")
        self.entries: List[Dict[str, Any]] = []
        self.fixed: List[Any] = []
        if self.path.exists():
            data = json.loads(self.path.read_text())
            self.entries = data.get("findings", [])
            self.fixed = data.get("fixed", [])

    def match(self, f: Finding) -> Optional[Dict[str, Any]]:
        for e in self.entries:
            if e.get("property") == f.prop and e.get("key") == f.key:
                return e
        return None


def write_evidence(
    prop: str,
    tier: str,
    seed: int,
    results: List[RuleResult],
    known: List[Finding],
    violations: List[Finding],
    wall: float,
    repo_digest: str,
    extra: Optional[Dict[str, Any]] = None,
    error: Optional[str] = None,
) -> Path:
    obligations = sum(len(r.instances) for r in results)
    discharged = sum(
        1 for r in results for i in r.instances if i.get("verdict") == "ok"
    )
    samples: List[Any] = []
    for r in results:
        for i in r.instances[:4]:
            samples.append({"rule": r.rule, **i})
    rules_summary = [
        {
            "rule": r.rule,
            "title": r.title,
            "instances": len(r.instances),
            "floor": r.floor,
            "violated": len(r.findings),
            "notes": r.notes,
        }
        for r in results
    ]
    explanation = (
        "Static analysis of the current working tree (ast-based; no repository code "
        "is imported or executed). The rules read the canonical form of every function "
        "(sa/canon.py: one normal form among behaviour-preserving spellings; helpers that are "
        "not in the frozen function list are inlined first, sa/inline.py), so a "
        "behaviour-preserving refactoring does not change what they see. Each rule enumerates its instances from the "
        "source (classes by base class, call sites by callee, tables by constant "
        "folding), decides an exact structural necessary condition of the property "
        "for each instance, and fails closed (exit 2) when fewer instances than the "
        "hand-confirmed floor are found. obligations = rule instances examined, "
        "discharged = instances on which the rule holds. The behavioural statement "
        "as a whole is not proved; see DESIGN.md for the clauses decided."
    )
    if error:
        explanation = f"ANALYSIS-ERROR: {error}. " + explanation
    coverage: Dict[str, Any] = {
        "explanation": explanation,
        "obligations": obligations,
        "discharged": discharged,
        "evaluations": max(obligations, 1),
        "distinct_nontrivial": max(
            len({(s.get("rule"), s.get("where"), s.get("what")) for r in results for s in [dict(rule=r.rule, **i) for i in r.instances]}),
            0,
        ),
        "rule": "one case per rule instance (function / call site / table entry / "
        "twin pair) found in the source; distinct by (rule, location, construct); "
        "all are non-trivial in that each is a place where the property could be broken",
        "samples": samples or [{"note": "no instances"}],
        "rules": rules_summary,
        "known_findings": [f.as_dict() for f in known],
        "violations": [f.as_dict() for f in violations],
        "source_digest_sha256": repo_digest,
        "exhaustive": True,
    }
    if extra:
        coverage.update(extra)
    ev = {
        "property_id": prop,
        "tier": tier,
        "seed": seed,
        "level": "other",
        "coverage": coverage,
        "assumptions": [
            "values are JSON-like: dict/list/str/int/float/bool/None (plus the evaluator's own NodeList, Nothing and compiled patterns)",
            "callers do not subclass or monkey-patch the analysed classes",
            "standard-library behaviour (json, re, codecs, itertools, argparse) is as documented",
            "receiver types the engine cannot derive from annotations are resolved by method name over all repo classes (over-approximation)",
        ],
        "wall_s": round(wall, 3),
        "violations": len(violations),
    }
    out_dir = EVIDENCE
    out_dir.mkdir(exist_ok=True)
    path = out_dir / f"{prop}.json"
    path.write_text(json.dumps(ev, indent=1, sort_keys=False, default=str) + "\n")
    return path


def write_replay(prop: str, idx: int, f: Finding) -> Path:
    d = EVIDENCE / f"{prop}.findings"
    d.mkdir(parents=True, exist_ok=True)
    safe = f.rule.replace(".", "_")
    path = d / f"{safe}-{idx}.json"
    path.write_text(json.dumps(f.as_dict(), indent=1) + "\n")
    return path


def clean_replays(prop: str) -> None:
    d = EVIDENCE / f"{prop}.findings"
    if d.is_dir():
        for p in d.iterdir():
            p.unlink()
        d.rmdir()
