"""Structured (syntax-directed) forward dataflow engine.

Python has no goto, so the control-flow graph of a function is recoverable
compositionally from its statement tree.  This engine walks the tree and
propagates an abstract state along every control-flow edge: branches (with
condition refinement, including short-circuit `and`/`or`/`not`, conditional
expressions and comprehension filters), loops (fixpoint over the back edge,
`break`/`continue`/`else`), `try`/`except`/`else`/`finally` (an exception edge
from every point of the protected body to each handler), `with` (including
`contextlib.suppress`, whose body may be left at any point), `return`, `raise`
and `assert`.

A *domain* supplies the lattice (join), the transfer function of simple
statements and the refinement by conditions.  With join = union it is a *may*
analysis (kinds of values), with join = intersection a *must* analysis
(events that happened on every path - i.e. dominance facts).

Recorded for the rules:
  pre[id(stmt)]    state on entry to a statement (joined over all visits)
  at[id(expr)]     state in which a sub-expression is evaluated
  exits            list of (kind, node, state) with kind in
                   {"return", "raise", "fall"}
  back[id(loop)]   states flowing along the back edge of a loop
"""

from __future__ import annotations

import ast
from typing import Any
from typing import Dict
from typing import List
from typing import Optional
from typing import Tuple

from .loader import AnalysisError

State = Any  # None means unreachable (bottom)


class Domain:
    def initial(self, func: ast.AST) -> State:
        raise NotImplementedError

    def join(self, a: State, b: State) -> State:
        raise NotImplementedError

    def equal(self, a: State, b: State) -> bool:
        return a == b

    def transfer(self, stmt: ast.stmt, state: State, flow: "Flow") -> State:
        """Effect of a simple statement (no control flow)."""
        return state

    def refine(self, test: ast.expr, branch: bool, state: State, flow: "Flow") -> State:
        """State when `test` evaluated to `branch`; None if infeasible.

        Only called for atomic tests: BoolOp / not / constants are decomposed by
        the engine.
        """
        return state

    def bind(self, target: ast.expr, iter_: ast.expr, state: State, flow: "Flow") -> State:
        """Bind a loop / comprehension target to an element of `iter_`."""
        return state

    def enter_handler(self, handler: ast.ExceptHandler, state: State, flow: "Flow") -> State:
        return state

    def enter_with(self, item: ast.withitem, state: State, flow: "Flow") -> State:
        return state

    def expr_effect(self, expr: ast.expr, state: State, flow: "Flow") -> State:
        """Effect of having evaluated `expr` (e.g. events of calls inside it)."""
        return state


class Flow:
    def __init__(self, func: ast.AST, domain: Domain, init: Optional[State] = None):
        self.func = func
        self.domain = domain
        self.pre: Dict[int, State] = {}
        self.post: Dict[int, State] = {}
        self.at: Dict[int, State] = {}
        self.exits: List[Tuple[str, ast.AST, State]] = []
        self.back: Dict[int, List[State]] = {}
        self.nodes: Dict[int, ast.AST] = {}
        self._loop_stack: List[Dict[str, Any]] = []
        self._try_stack: List[Dict[str, Any]] = []
        self._record = True
        state = init if init is not None else domain.initial(func)
        body = getattr(func, "body")
        if isinstance(func, ast.Lambda):
            self.walk_expr(func.body, state)
            return
        out = self.block(body, state)
        if out is not None:
            self.exits.append(("fall", func, out))

    # ------------------------------------------------------------- helpers
    def join(self, a: State, b: State) -> State:
        if a is None:
            return b
        if b is None:
            return a
        return self.domain.join(a, b)

    def _rec(self, table: Dict[int, State], node: ast.AST, state: State) -> None:
        if not self._record or state is None:
            return
        self.nodes[id(node)] = node
        if id(node) in table:
            table[id(node)] = self.join(table[id(node)], state)
        else:
            table[id(node)] = state

    def _note_exc_point(self, state: State) -> None:
        """Every protected point may jump to the enclosing handlers."""
        for t in self._try_stack:
            t["exc"] = self.join(t["exc"], state)

    # -------------------------------------------------------- expressions
    def cond(self, test: ast.expr, state: State) -> Tuple[State, State]:
        """Evaluate `test` in `state`; return (state if true, state if false)."""
        if state is None:
            return None, None
        self._rec(self.at, test, state)
        if isinstance(test, ast.BoolOp):
            if isinstance(test.op, ast.And):
                cur = state
                false_acc: State = None
                for v in test.values:
                    t, f = self.cond(v, cur)
                    false_acc = self.join(false_acc, f)
                    cur = t
                return cur, false_acc
            cur = state
            true_acc: State = None
            for v in test.values:
                t, f = self.cond(v, cur)
                true_acc = self.join(true_acc, t)
                cur = f
            return true_acc, cur
        if isinstance(test, ast.UnaryOp) and isinstance(test.op, ast.Not):
            t, f = self.cond(test.operand, state)
            return f, t
        if isinstance(test, ast.Constant):
            after = state
            return (after, None) if test.value else (None, after)
        if isinstance(test, ast.NamedExpr):
            st = self.walk_expr(test.value, state)
            t = self.domain.refine(test, True, st, self)
            f = self.domain.refine(test, False, st, self)
            return t, f
        # atomic test: evaluate sub-expressions first
        st = self._walk_children(test, state)
        st = self.domain.expr_effect(test, st, self)
        t = self.domain.refine(test, True, st, self)
        f = self.domain.refine(test, False, st, self)
        return t, f

    def walk_expr(self, e: Optional[ast.expr], state: State) -> State:
        """Record the evaluation state of every sub-expression; return state after."""
        if e is None or state is None:
            return state
        self._rec(self.at, e, state)
        if isinstance(e, ast.BoolOp) or (
            isinstance(e, ast.UnaryOp) and isinstance(e.op, ast.Not)
        ):
            t, f = self.cond(e, state)
            return self.join(t, f)
        if isinstance(e, ast.IfExp):
            t, f = self.cond(e.test, state)
            a = self.walk_expr(e.body, t)
            b = self.walk_expr(e.orelse, f)
            return self.join(a, b)
        if isinstance(e, (ast.ListComp, ast.SetComp, ast.GeneratorExp, ast.DictComp)):
            cur = state
            first = True
            for g in e.generators:
                cur = self.walk_expr(g.iter, cur)
                if first:
                    # the outermost iterable is evaluated unconditionally
                    state = cur
                    first = False
                cur = self.domain.bind(g.target, g.iter, cur, self)
                for c in g.ifs:
                    cur, _ = self.cond(c, cur)
            if isinstance(e, ast.DictComp):
                cur = self.walk_expr(e.key, cur)
                cur = self.walk_expr(e.value, cur)
            else:
                cur = self.walk_expr(e.elt, cur)
            # effects inside a comprehension body are kept (must-events would be
            # unsound for zero iterations, so join with the entry state)
            return self.join(state, cur)
        if isinstance(e, ast.Lambda):
            return state
        st = self._walk_children(e, state)
        return self.domain.expr_effect(e, st, self)

    def _walk_children(self, e: ast.AST, state: State) -> State:
        cur = state
        for child in ast.iter_child_nodes(e):
            if isinstance(child, ast.expr):
                cur = self.walk_expr(child, cur)
            elif isinstance(child, ast.keyword):
                cur = self.walk_expr(child.value, cur)
            elif isinstance(child, ast.comprehension):  # pragma: no cover
                pass
        return cur

    # --------------------------------------------------------- statements
    def block(self, stmts: List[ast.stmt], state: State) -> State:
        cur = state
        for s in stmts:
            if cur is None:
                break
            cur = self.stmt(s, cur)
        return cur

    def stmt(self, s: ast.stmt, state: State) -> State:  # noqa: PLR0911, PLR0912
        self._rec(self.pre, s, state)
        self._note_exc_point(state)
        out = self._stmt(s, state)
        if out is not None:
            self._note_exc_point(out)
            self._rec(self.post, s, out)
        return out

    def _stmt(self, s: ast.stmt, state: State) -> State:  # noqa: PLR0911, PLR0912
        d = self.domain
        if isinstance(s, (ast.FunctionDef, ast.AsyncFunctionDef, ast.ClassDef)):
            return d.transfer(s, state, self)
        if isinstance(s, (ast.Import, ast.ImportFrom, ast.Pass, ast.Global, ast.Nonlocal)):
            return state
        if isinstance(s, ast.Expr):
            st = self.walk_expr(s.value, state)
            return d.transfer(s, st, self)
        if isinstance(s, (ast.Assign, ast.AnnAssign, ast.AugAssign)):
            st = self.walk_expr(s.value, state) if s.value is not None else state
            targets = s.targets if isinstance(s, ast.Assign) else [s.target]
            for t in targets:
                # subscripts/attributes in targets are evaluated too
                if isinstance(t, (ast.Subscript, ast.Attribute)):
                    st = self._walk_children(t, st)
                    self._rec(self.at, t, st)
            return d.transfer(s, st, self)
        if isinstance(s, ast.Delete):
            st = state
            for t in s.targets:
                if isinstance(t, (ast.Subscript, ast.Attribute)):
                    st = self._walk_children(t, st)
                    self._rec(self.at, t, st)
            return d.transfer(s, st, self)
        if isinstance(s, ast.Return):
            st = self.walk_expr(s.value, state)
            st = d.transfer(s, st, self)
            st = self._run_finallies(st)
            self.exits.append(("return", s, st))
            return None
        if isinstance(s, ast.Raise):
            st = self.walk_expr(s.exc, state)
            st = self.walk_expr(s.cause, st)
            st = d.transfer(s, st, self)
            self._note_exc_point(st)
            if not self._try_stack:
                self.exits.append(("raise", s, st))
            else:
                # may be caught; also record as potential exit
                self.exits.append(("raise", s, st))
            return None
        if isinstance(s, ast.Assert):
            t, f = self.cond(s.test, state)
            if f is not None:
                self._note_exc_point(f)
            return d.transfer(s, t, self) if t is not None else None
        if isinstance(s, ast.If):
            t, f = self.cond(s.test, state)
            a = self.block(s.body, t)
            b = self.block(s.orelse, f) if s.orelse else f
            return self.join(a, b)
        if isinstance(s, (ast.For, ast.AsyncFor)):
            return self._loop(s, state)
        if isinstance(s, ast.While):
            return self._loop(s, state)
        if isinstance(s, (ast.With, ast.AsyncWith)):
            return self._with(s, state)
        if isinstance(s, ast.Try):
            return self._try(s, state)
        if isinstance(s, ast.Break):
            if not self._loop_stack:
                if hasattr(self.domain, "outer_breaks"):  # analysing a loop body alone
                    self.domain.outer_breaks.append(state)
                    return None
                raise AnalysisError("break outside loop")
            top = self._loop_stack[-1]
            top["break"] = self.join(top["break"], state)
            return None
        if isinstance(s, ast.Continue):
            if not self._loop_stack:
                if hasattr(self.domain, "outer_continues"):  # analysing a loop body alone
                    self.domain.outer_continues.append(state)
                    return None
                raise AnalysisError("continue outside loop")
            top = self._loop_stack[-1]
            top["continue"] = self.join(top["continue"], state)
            top["back_states"].append(state)
            return None
        raise AnalysisError(
            f"unsupported statement kind {type(s).__name__} at line {s.lineno}"
        )

    def _run_finallies(self, state: State) -> State:
        # `finally` bodies between a return and the function exit are executed;
        # the package has no try/finally, so this only needs to be sound for it.
        for t in reversed(self._try_stack):
            if t.get("finalbody"):
                saved = self._try_stack
                self._try_stack = []
                state = self.block(t["finalbody"], state)
                self._try_stack = saved
        return state

    def _loop(self, s: ast.stmt, state: State) -> State:
        d = self.domain
        is_for = isinstance(s, (ast.For, ast.AsyncFor))
        if is_for:
            state = self.walk_expr(s.iter, state)  # type: ignore[attr-defined]
        head = state
        exit_false: State = None
        brk: State = None
        saved_record = self._record
        for _round in range(12):
            frame = {"break": None, "continue": None, "back_states": []}
            self._loop_stack.append(frame)
            if is_for:
                body_in = d.bind(s.target, s.iter, head, self)  # type: ignore[attr-defined]
                exit_false = head
            else:
                body_in, exit_false = self.cond(s.test, head)  # type: ignore[attr-defined]
            body_out = self.block(s.body, body_in)  # type: ignore[attr-defined]
            self._loop_stack.pop()
            back = self.join(body_out, frame["continue"])
            brk = frame["break"]
            backs = list(frame["back_states"])
            if body_out is not None:
                backs.append(body_out)
            new_head = self.join(state, back)
            if new_head is None or (head is not None and d.equal(new_head, head)):
                self.back[id(s)] = backs
                break
            head = new_head
        else:
            raise AnalysisError(f"loop at line {s.lineno} did not reach a fixpoint")
        self._record = saved_record
        out = exit_false
        if s.orelse:  # type: ignore[attr-defined]
            out = self.block(s.orelse, exit_false)  # type: ignore[attr-defined]
        return self.join(out, brk)

    def _is_suppress(self, item: ast.withitem) -> bool:
        c = item.context_expr
        if isinstance(c, ast.Call):
            f = c.func
            name = f.id if isinstance(f, ast.Name) else getattr(f, "attr", "")
            return name == "suppress"
        return False

    def _with(self, s: ast.stmt, state: State) -> State:
        st = state
        suppress = False
        for item in s.items:  # type: ignore[attr-defined]
            st = self.walk_expr(item.context_expr, st)
            st = self.domain.enter_with(item, st, self)
            if self._is_suppress(item):
                suppress = True
        if not suppress:
            return self.block(s.body, st)  # type: ignore[attr-defined]
        frame = {"exc": st, "finalbody": None}
        self._try_stack.append(frame)
        out = self.block(s.body, st)  # type: ignore[attr-defined]
        self._try_stack.pop()
        return self.join(out, frame["exc"])

    def _try(self, s: ast.Try, state: State) -> State:
        frame = {"exc": state, "finalbody": s.finalbody or None}
        self._try_stack.append(frame)
        body_out = self.block(s.body, state)
        self._try_stack.pop()
        exc_state = frame["exc"]
        out = body_out
        if s.orelse:
            out = self.block(s.orelse, body_out)
        for h in s.handlers:
            self._rec(self.pre, h, exc_state)
            hs = self.domain.enter_handler(h, exc_state, self)
            hout = self.block(h.body, hs)
            out = self.join(out, hout)
        if s.finalbody:
            # normal completion and exceptional completion both run it
            fin_in = self.join(out, exc_state)
            fout = self.block(s.finalbody, fin_in)
            return fout if out is not None else None
        return out


def parent_map(root: ast.AST) -> Dict[int, ast.AST]:
    out: Dict[int, ast.AST] = {}
    for node in ast.walk(root):
        for child in ast.iter_child_nodes(node):
            out[id(child)] = node
    return out


def enclosing_stmt(node: ast.AST, parents: Dict[int, ast.AST]) -> Optional[ast.stmt]:
    cur: Optional[ast.AST] = node
    while cur is not None and not isinstance(cur, ast.stmt):
        cur = parents.get(id(cur))
    return cur  # type: ignore[return-value]
