"""Path-exploring partial evaluation of one function body under assumptions.

`explore(folder, fn, env, oracle)` walks the (canonical) body of `fn` with some parameters bound
to known values and an `oracle` that decides tests the rule knows the answer to (an `isinstance`
of a parameter, a comparison of `expression.operator` ...).  Tests it cannot decide are explored
both ways.  The result is the list of outcomes - `("return", node, value)`, `("raise", node, None)`
or `("fall", None, None)` - with every value either a folded Python constant, a `Text` (a string
whose literal pieces are known and whose other pieces are not) or `UNKNOWN`.

This is not symbolic execution with a solver: nothing is run and no path condition is kept; it is the
constant folder of `consteval` extended from expressions to branching straight-line code, which is
what "which literal text does this printer put around its operand" needs.
"""

from __future__ import annotations

import ast
from dataclasses import dataclass
from typing import Any
from typing import Callable
from typing import Dict
from typing import List
from typing import Optional
from typing import Tuple

from .consteval import ExtRef
from .consteval import Folder
from .consteval import FuncRef
from .consteval import Instance
from .consteval import NotConst
from .consteval import RegexConst
from .consteval import Scope
from .loader import AnalysisError
from .loader import FuncInfo


_PURE_FUNCS: Dict[str, Callable[..., Any]] = {
    "int": int, "str": str, "len": len, "float": float, "bool": lambda x=False: bool(x), "abs": abs, "repr": repr, "hash": hash,
    # iteration helpers: their result is materialised (the explorer iterates over sequences it knows)
    "enumerate": lambda *a: list(enumerate(*a)), "zip": lambda *a: list(zip(*a)), "range": lambda *a: list(range(*a)),
    "list": list, "tuple": tuple, "reversed": lambda a: list(reversed(a)), "min": min, "max": max, "sum": sum, "slice": slice,
}
_PLAIN = (str, int, float, bool, type(None), tuple, list, dict, slice, bytes)
_PLAIN_CLASSES = {
    "str": (str,), "int": (int,), "float": (float,), "bool": (bool,), "list": (list,), "tuple": (tuple,), "dict": (dict,),
    "Sequence": (str, list, tuple), "MutableSequence": (list,), "Mapping": (dict,), "MutableMapping": (dict,),
    "Iterable": (str, list, tuple, dict), "Collection": (str, list, tuple, dict), "Sized": (str, list, tuple, dict),
    # classes no plain sample value is an instance of
    "Decimal": (), "NodeList": (), "Pattern": (), "IOBase": (), "bytes": (bytes,), "bytearray": (), "memoryview": (), "JSONPathMatch": (), "_Undefined": (),
    "TextIOBase": (), "BufferedIOBase": (), "RawIOBase": (), "set": (), "frozenset": (), "complex": (),
}


_BINOP_DUNDER = {ast.Div: "__truediv__", ast.Add: "__add__", ast.Sub: "__sub__", ast.Mult: "__mul__", ast.BitOr: "__or__", ast.BitAnd: "__and__",
                 ast.FloorDiv: "__floordiv__", ast.Mod: "__mod__"}


class _Unknown:
    def __repr__(self) -> str:
        return "UNKNOWN"


UNKNOWN = _Unknown()
RETURNS_NONE = object()  # what a call hook returns for "the call is known to return None" (None = no opinion)


@dataclass(frozen=True)
class Text:
    """A string built from known literal pieces (str) and unknown pieces (None)."""

    parts: Tuple[Optional[str], ...]

    def startswith(self, s: str) -> bool:
        return bool(self.parts) and isinstance(self.parts[0], str) and self.parts[0].startswith(s)

    def endswith(self, s: str) -> bool:
        return bool(self.parts) and isinstance(self.parts[-1], str) and self.parts[-1].endswith(s)

    def literal(self) -> str:
        return "".join(p if p is not None else "…" for p in self.parts)


def as_text(v: Any) -> Optional[Text]:
    if isinstance(v, str):
        return Text((v,))
    if isinstance(v, Text):
        return v
    return None


class _PathRaises(Exception):
    """The statement being evaluated certainly raises (a lookup of a key that a known dictionary lacks); the
    argument is the name of the exception class."""


@dataclass(frozen=True)
class Callable_:
    """A callable the path holds as a value (`decoders = [str, unquote, cls._unicode_escape]`, a lambda): `kind` is
    "builtin" (a pure builtin by name), "ext" (a pure function of the standard library by dotted name), "lambda"
    (node + the environment it closes over) or "bound" (a method of a model object)."""

    kind: str
    name: str = ""
    node: Any = None
    env: Any = None
    obj: Any = None


_PURE_EXT: Dict[str, Callable[..., Any]] = {}


def _pure_ext() -> Dict[str, Callable[..., Any]]:
    if not _PURE_EXT:
        import urllib.parse as _up

        _PURE_EXT.update({"urllib.parse.unquote": _up.unquote, "urllib.parse.quote": _up.quote})
    return _PURE_EXT


def _foldable(v: Any, depth: int = 0) -> bool:
    """May the constant folder see this value?  Not the unknown value, a partly known text, a model object or a
    callable - nor a container that holds one (the folder would take it for an ordinary Python object)."""
    if v is UNKNOWN or isinstance(v, (Text, AbstractObject, Callable_)):
        return False
    if depth > 6:  # noqa: PLR2004
        return False
    if isinstance(v, (tuple, list, set, frozenset)):
        return all(_foldable(x, depth + 1) for x in v)
    if isinstance(v, dict):
        return all(_foldable(k, depth + 1) and _foldable(x, depth + 1) for k, x in v.items())
    return True


class AbstractObject:
    """An object of the analysed program that a rule models: the explorer reads its attributes, stores into
    them, formats it and tests its class through these methods (each may return UNKNOWN)."""

    def peval_getattr(self, name: str) -> Any:  # pragma: no cover - interface
        return UNKNOWN

    def peval_setattr(self, name: str, value: Any) -> None:  # pragma: no cover - interface
        return None

    def peval_str(self) -> Any:  # pragma: no cover - interface
        return UNKNOWN

    def peval_isinstance(self, class_names: List[str]) -> Optional[bool]:  # pragma: no cover - interface
        return None


class ExcValue(AbstractObject):
    """The exception a handler caught (exact_exceptions): its class is known, its text is not."""

    def __init__(self, explorer: "Explorer", cls: str) -> None:
        self.explorer = explorer
        self.cls = cls

    def peval_isinstance(self, class_names: List[str]) -> Optional[bool]:
        return any(self.explorer._exc_subclass(self.cls, n) for n in class_names)


Oracle = Callable[[ast.expr, Dict[str, Any]], Optional[bool]]
_in_test: Dict[Tuple[int, int], bool] = {}  # guards the value() <-> test() mutual recursion (per explorer: a recursive function is run by nested explorers)
CallHook = Callable[[ast.Call, List[Any], Dict[str, Any]], Any]
Outcome = Tuple[str, Optional[ast.AST], Any]


class Explorer:
    def __init__(self, folder: Folder, fn: FuncInfo, oracle: Optional[Oracle] = None,
                 on_call: Optional[CallHook] = None, value_oracle: Optional[Callable[[ast.expr, Dict[str, Any]], Any]] = None,
                 max_paths: int = 256, enter_loops: bool = False, enter_with: bool = False) -> None:
        self.folder = folder
        self.fn = fn
        self.oracle = oracle or (lambda t, env: None)
        self.on_call = on_call
        self.value_oracle = value_oracle
        self.max_paths = max_paths
        self.enter_loops = enter_loops  # walk a `for` body once (targets unknown) instead of skipping it
        self._loop_exits: List[List[Dict[str, Any]]] = []
        self._try_depth = 0
        self._dropped = 0  # paths that ended in a certain exception
        self.raised: List[str] = []  # ... and the classes of those exceptions
        self.enter_with = enter_with
        self.split_conditionals = False  # fork a path at an undecided conditional expression inside a value
        self.call_function: Optional[Callable[[FuncInfo, List[Any]], Any]] = None  # runs a package function abstractly (rules/model.py)
        # exact exceptions (for runs on concrete samples): a statement that certainly raises class C leaves the `try`
        # body there, the first handler that catches C runs from the state at that point, an uncaught C goes on to the
        # enclosing `try` or out of the function; handlers of a body that completes are not explored
        self.instance_hook: Optional[Callable[[Any], Any]] = None  # turns a folded module-level object into a model object (rules/model.py)
        self.exact_exceptions = False
        self._frames: List[List[Tuple[str, Dict[str, Any]]]] = []
        # a heap (for single-path runs on concrete samples): plain lists and dicts are changed in place, so that a
        # change made through one reference (`parent.insert(...)`) is seen through every other (`data`)
        self.heap = False
        self.outcomes: List[Outcome] = []
        self.envs: List[Dict[str, Any]] = []  # environment of each outcome, same order

    # ------------------------------------------------------------ values
    def value(self, e: Optional[ast.expr], env: Dict[str, Any]) -> Any:
        if e is None:
            return None
        if self.value_oracle is not None:
            v = self.value_oracle(e, env)
            if v is not None:
                return v
        if isinstance(e, ast.Name) and e.id in env:
            return env[e.id]
        if isinstance(e, ast.Await):
            return self.value(e.value, env)
        if self.enter_with and isinstance(e, ast.Name) and isinstance(e.ctx, ast.Load) and e.id in _PURE_FUNCS:
            try:
                gb = self.folder.global_value(self.fn.module, e.id)
                shadowed = not (isinstance(gb, ExtRef) and str(gb.name) in (e.id, "builtins." + e.id))
            except Exception:  # noqa: BLE001
                shadowed = False
            if not shadowed:
                return Callable_("builtin", e.id)  # the builtin itself, held as a value
        if self.enter_with and isinstance(e, ast.Name) and isinstance(e.ctx, ast.Load):
            try:
                gx = self.folder.global_value(self.fn.module, e.id)
            except Exception:  # noqa: BLE001
                gx = None
            if isinstance(gx, ExtRef) and str(gx.name) in _pure_ext():
                return Callable_("ext", str(gx.name))
        if self.enter_with and isinstance(e, ast.Lambda):
            la_ = e.args
            if not (la_.vararg or la_.kwarg or la_.kwonlyargs or la_.defaults or la_.posonlyargs):
                return Callable_("lambda", node=e, env=dict(env))
        if isinstance(e, (ast.Tuple, ast.List)) and isinstance(e.ctx, ast.Load) and (
                self.enter_with or (not any(isinstance(x, ast.Starred) for x in e.elts) and any(isinstance(n, (ast.Attribute, ast.Call)) for n in ast.walk(e)))):
            # a display whose items involve objects: item by item (a starred item of known length is spliced in)
            items_: List[Any] = []
            for x in e.elts:
                if isinstance(x, ast.Starred):
                    sv_ = self.value(x.value, env)
                    if not isinstance(sv_, (list, tuple)):
                        return UNKNOWN
                    items_.extend(sv_)
                else:
                    items_.append(self.value(x, env))
            return tuple(items_) if isinstance(e, ast.Tuple) else items_
        if isinstance(e, ast.Dict) and self.enter_with:
            # a display: item by item, in order (`{**defaults, "op": self.name, "path": str(self.path)}`)
            out_d: Dict[Any, Any] = {}
            for k_d, v_d in zip(e.keys, e.values):
                if k_d is None:
                    spread = self.value(v_d, env)
                    if not isinstance(spread, dict) or isinstance(spread, AbstractObject):
                        return UNKNOWN
                    out_d.update(spread)
                    continue
                kv_d = self.value(k_d, env)
                if kv_d is UNKNOWN or isinstance(kv_d, (Text, AbstractObject, list, dict)):
                    return UNKNOWN
                out_d[kv_d] = self.value(v_d, env)
            return out_d
        if isinstance(e, ast.Attribute):
            base = self.value(e.value, env) if isinstance(e.value, (ast.Name, ast.Attribute)) or (
                self.enter_with and isinstance(e.value, (ast.Subscript, ast.Call))) else None
            if isinstance(base, AbstractObject):
                return base.peval_getattr(e.attr)
            if isinstance(base, slice) and e.attr in ("start", "stop", "step"):
                return getattr(base, e.attr)
        if isinstance(e, ast.Subscript) and isinstance(e.ctx, ast.Load) and self.enter_with and not (
                isinstance(e.value, ast.Name) and isinstance(env.get(e.value.id), dict)):
            # indexing / slicing a text or sequence the path knows
            base_ = self.value(e.value, env)
            if isinstance(base_, dict) and not isinstance(base_, AbstractObject) and not isinstance(e.slice, ast.Slice):
                k_b = self.value(e.slice, env)
                if k_b is not UNKNOWN and not isinstance(k_b, (Text, AbstractObject, list, dict)):
                    if k_b in base_:
                        return base_[k_b]
                    raise _PathRaises("KeyError")
            if isinstance(base_, (str, tuple, list)) and not isinstance(base_, Text):
                if isinstance(e.slice, ast.Slice):
                    b3 = [self.value(x, env) if x is not None else None for x in (e.slice.lower, e.slice.upper, e.slice.step)]
                    if all(x is None or (isinstance(x, int) and not isinstance(x, bool)) for x in b3):
                        try:
                            return base_[slice(*b3)]
                        except ValueError:
                            return UNKNOWN
                else:
                    k_ = self.value(e.slice, env)
                    if isinstance(k_, int) and not isinstance(k_, bool):
                        try:
                            return base_[k_]
                        except IndexError as err:
                            raise _PathRaises("IndexError") from err
        if isinstance(e, ast.Subscript) and isinstance(e.ctx, ast.Load) and isinstance(e.value, ast.Name) and isinstance(env.get(e.value.id), dict):
            k = self.value(e.slice, env)
            if isinstance(k, (str, int)) and not isinstance(k, (bool, Text)):
                d = env[e.value.id]
                if k in d:
                    return d[k]
                raise _PathRaises("KeyError")
        if (isinstance(e, ast.Call) and isinstance(e.func, ast.Name) and e.func.id == "str" and len(e.args) == 1 and not e.keywords
                and "str" not in env):
            a0 = self.value(e.args[0], env)
            if isinstance(a0, AbstractObject):
                return a0.peval_str()
        if isinstance(e, ast.BoolOp) and self.enter_with:
            # the value of `a or b` / `a and b` (not only its truth) when the operands' truth is known
            cur: Any = None
            for i_, operand in enumerate(e.values):
                cur = self.value(operand, env)
                last = i_ == len(e.values) - 1
                if last:
                    return cur
                if cur is UNKNOWN or isinstance(cur, (Text, AbstractObject)) or not isinstance(cur, _PLAIN):
                    break
                truth = bool(cur)
                if truth == isinstance(e.op, ast.Or):
                    return cur
        if isinstance(e, (ast.Compare, ast.BoolOp)) or (isinstance(e, ast.UnaryOp) and isinstance(e.op, ast.Not)) or (
            isinstance(e, ast.Call) and isinstance(e.func, ast.Name) and e.func.id == "isinstance"
        ):
            # a boolean the test oracle can decide is that boolean
            d = self.test(e, env) if not _in_test.get((id(self), id(e))) else None
            if d is not None:
                return d
        if isinstance(e, ast.JoinedStr):
            parts: List[Optional[str]] = []
            for p in e.values:
                if isinstance(p, ast.Constant):
                    parts.append(str(p.value))
                else:
                    assert isinstance(p, ast.FormattedValue)
                    v = self.value(p.value, env)
                    if isinstance(v, AbstractObject) and p.format_spec is None and p.conversion in (-1, 115):
                        v = v.peval_str()
                    if p.format_spec is None and p.conversion in (-1, 115) and isinstance(v, (str, int)) and not isinstance(v, bool):
                        parts.append(str(v))
                    elif isinstance(v, Text) and p.format_spec is None and p.conversion in (-1, 115):
                        parts.extend(v.parts)
                    else:
                        parts.append(None)
            return _text(parts)
        if isinstance(e, ast.BinOp) and self.enter_with and type(e.op) in _BINOP_DUNDER:
            left_o = self.value(e.left, env)
            if isinstance(left_o, AbstractObject) and hasattr(left_o, "peval_call"):
                # an operator of a model object is its special method (`pointer / part`)
                r_o = left_o.peval_call(_BINOP_DUNDER[type(e.op)], [self.value(e.right, env)], {})
                if type(r_o).__name__ == "_Raises":
                    raise _PathRaises(str(getattr(getattr(left_o, "model", None), "last_raised", None) or "callee raises"))
                return r_o
        if isinstance(e, ast.BinOp) and isinstance(e.op, ast.Add):
            a, b = as_text(self.value(e.left, env)), as_text(self.value(e.right, env))
            if a is not None or b is not None:
                return _text(list((a or Text((None,))).parts) + list((b or Text((None,))).parts))
        if isinstance(e, ast.UnaryOp) and isinstance(e.op, (ast.USub, ast.UAdd)):
            o_ = self.value(e.operand, env)
            if isinstance(o_, (int, float)) and not isinstance(o_, bool):
                return -o_ if isinstance(e.op, ast.USub) else +o_
        if isinstance(e, ast.BinOp) and isinstance(e.op, (ast.Add, ast.Sub, ast.Mult, ast.FloorDiv, ast.Mod)):
            # arithmetic / concatenation of plain values the path knows (they may come from model objects)
            a_, b_ = self.value(e.left, env), self.value(e.right, env)
            ok_types = (int, float, str, tuple, list)
            if (isinstance(a_, ok_types) and isinstance(b_, ok_types) and not isinstance(a_, (bool, Text)) and not isinstance(b_, (bool, Text))):
                try:
                    return self.folder._binop(e.op, a_, b_)
                except Exception:  # noqa: BLE001
                    return UNKNOWN
        if isinstance(e, ast.IfExp):
            t = self.test(e.test, env)
            if t is True:
                return self.value(e.body, env)
            if t is False:
                return self.value(e.orelse, env)
            return UNKNOWN
        if isinstance(e, (ast.ListComp, ast.SetComp, ast.DictComp, ast.GeneratorExp)) and self.on_call is not None:
            r = self._comprehension(e, env)
            if r is not None:
                return r
        if (isinstance(e, ast.Call) and self.enter_with and isinstance(e.func, ast.Attribute) and isinstance(e.func.value, (ast.IfExp, ast.Call))
                and not (isinstance(e.func.value, ast.Call) and isinstance(e.func.value.func, ast.Name) and e.func.value.func.id == "super")):
            # `(A if c else B).method(...)`, `Class(...).method(...)`: the receiver is evaluated once, first, and
            # the call is then a method call on that value
            rx = e.func.value
            recv_v: Any = UNKNOWN
            if isinstance(rx, ast.IfExp):
                c_rx = self.test(rx.test, env)
                if c_rx is not None:
                    recv_v = self.value(rx.body if c_rx else rx.orelse, env)
            else:
                recv_v = self.value(rx, env)
            if isinstance(recv_v, AbstractObject) or (isinstance(recv_v, _PLAIN) and not isinstance(recv_v, Text) and recv_v is not None and isinstance(rx, ast.Call)):
                env = dict(env)
                env["$recv"] = recv_v
                e = ast.copy_location(ast.Call(func=ast.copy_location(ast.Attribute(value=ast.copy_location(ast.Name(id="$recv", ctx=ast.Load()), e), attr=e.func.attr,
                                                                                       ctx=ast.Load()), e), args=e.args, keywords=e.keywords), e)

        if (isinstance(e, ast.Call) and self.enter_with and not e.keywords and len(e.args) == 3 and not any(isinstance(a_, ast.Starred) for a_ in e.args)  # noqa: PLR2004
                and ((isinstance(e.func, ast.Name) and e.func.id == "reduce" and "reduce" not in env)
                     or (isinstance(e.func, ast.Attribute) and e.func.attr == "reduce" and isinstance(e.func.value, ast.Name) and e.func.value.id == "functools"))):
            # functools.reduce with a callable and a sequence the path knows: folded step by step
            f_, seq_, acc_ = (self.value(a_, env) for a_ in e.args)
            if isinstance(f_, Callable_) and isinstance(seq_, (list, tuple)) and len(seq_) <= 64:  # noqa: PLR2004
                for item_ in seq_:
                    acc_ = self.apply(f_, [acc_, item_], e)
                    if acc_ is UNKNOWN:
                        return UNKNOWN
                return acc_
        if isinstance(e, ast.Call) and self.enter_with and isinstance(e.func, (ast.Call, ast.Subscript, ast.IfExp)):
            # a computed callee (`getattr(self, name)(...)`, `TABLE[kind](...)`): evaluated first, then called
            fv_c = self.value(e.func, env)
            if isinstance(fv_c, Callable_):
                env = dict(env)
                env["$callee"] = fv_c
                e = ast.copy_location(ast.Call(func=ast.copy_location(ast.Name(id="$callee", ctx=ast.Load()), e), args=e.args, keywords=e.keywords), e)
            elif self.heap:
                raise AnalysisError(f"partial evaluation of {self.fn.qualname}: `{ast.unparse(e)[:60]}` calls a value that is not known")
        if isinstance(e, ast.Call) and self.enter_with and isinstance(e.func, ast.Name) and isinstance(env.get(e.func.id), Callable_):
            # a call of a callable the path holds (`builder = getattr(self, name)` ... `builder(**kwargs)`)
            pos_c: List[Any] = []
            kw_c: Dict[str, Any] = {}
            known_c = True
            for a_ in e.args:
                if isinstance(a_, ast.Starred):
                    sv_c = self.value(a_.value, env)
                    if isinstance(sv_c, (list, tuple)):
                        pos_c.extend(sv_c)
                    else:
                        known_c = False
                else:
                    pos_c.append(self.value(a_, env))
            for k_ in e.keywords:
                if k_.arg is None:
                    dv_c = self.value(k_.value, env)
                    if isinstance(dv_c, dict) and all(isinstance(x, str) for x in dv_c):
                        kw_c.update(dv_c)
                    else:
                        known_c = False
                else:
                    kw_c[k_.arg] = self.value(k_.value, env)
            if known_c:
                return self.apply(env[e.func.id], pos_c, e, kw_c)
            if self.heap:
                raise AnalysisError(f"partial evaluation of {self.fn.qualname}: the arguments of `{ast.unparse(e)[:60]}` are not known, and the call may change the sample")
            return UNKNOWN
        if (isinstance(e, ast.Call) and self.heap and isinstance(e.func, ast.Attribute) and not e.keywords
                and e.func.attr in ("append", "extend", "insert", "pop", "remove", "clear", "update", "setdefault", "reverse", "popitem", "add", "discard",
                                    "difference_update", "intersection_update", "symmetric_difference_update", "sort")
                and isinstance(e.func.value, (ast.Name, ast.Attribute, ast.Subscript))):
            target_h = self.value(e.func.value, env)
            if isinstance(target_h, set) and e.func.attr == "pop":
                raise AnalysisError(f"partial evaluation of {self.fn.qualname}: `{ast.unparse(e)[:60]}` takes an arbitrary element of a set")
            if isinstance(target_h, (list, dict, set)) and not isinstance(target_h, AbstractObject):
                args_h = [self.value(a_, env) for a_ in e.args]
                if any(a_ is UNKNOWN or isinstance(a_, Text) for a_ in args_h) or not hasattr(target_h, e.func.attr):
                    raise AnalysisError(f"partial evaluation of {self.fn.qualname}: `{ast.unparse(e)[:60]}` changes a container with a value that is not known")
                try:
                    return getattr(target_h, e.func.attr)(*args_h)
                except (IndexError, KeyError, ValueError, TypeError) as err:
                    raise _PathRaises(type(err).__name__) from err
        if (isinstance(e, ast.Call) and self.heap and isinstance(e.func, ast.Attribute) and e.func.attr == "sort" and not e.args and e.keywords
                and all(k.arg in ("key", "reverse") for k in e.keywords) and isinstance(e.func.value, (ast.Name, ast.Attribute, ast.Subscript))):
            # `xs.sort(key=f, reverse=r)` on a list of the sample: the keys are computed by running f
            target_s = self.value(e.func.value, env)
            if isinstance(target_s, list) and not isinstance(target_s, AbstractObject):
                kws_s = {k.arg: self.value(k.value, env) for k in e.keywords}
                rev_s = kws_s.get("reverse", False)
                key_s = kws_s.get("key")
                if not isinstance(rev_s, bool):
                    raise AnalysisError(f"partial evaluation of {self.fn.qualname}: `{ast.unparse(e)[:60]}` sorts in an order that is not known")
                keys_s: List[Any] = []
                for item_s in target_s:
                    k_s = item_s if key_s is None else (self.apply(key_s, [item_s], e, {}) if isinstance(key_s, Callable_) else UNKNOWN)
                    if k_s is UNKNOWN or isinstance(k_s, Text) or not isinstance(k_s, (int, float, str, tuple)):
                        raise AnalysisError(f"partial evaluation of {self.fn.qualname}: the sort keys of `{ast.unparse(e)[:60]}` are not known")
                    keys_s.append(k_s)
                try:
                    order_s = sorted(range(len(target_s)), key=lambda i_s: keys_s[i_s], reverse=rev_s)
                except TypeError as err:
                    raise _PathRaises("TypeError") from err
                target_s[:] = [target_s[i_s] for i_s in order_s]
                return None
        if (isinstance(e, ast.Call) and self.enter_with and isinstance(e.func, ast.Attribute) and isinstance(e.func.value, ast.Name) and e.func.value.id == "copy"
                and "copy" not in env and e.func.attr in ("deepcopy", "copy") and len(e.args) == 1 and not e.keywords):
            v_c = self.value(e.args[0], env)
            if isinstance(v_c, AbstractObject) and hasattr(v_c, "peval_copy"):
                return v_c.peval_copy(e.func.attr == "deepcopy")
            if _foldable(v_c):
                import copy as _copy_mod

                return getattr(_copy_mod, e.func.attr)(v_c)
        if isinstance(e, ast.Call):
            args = [self.value(a, env) for a in e.args]
            if self.on_call is not None:
                r = self.on_call(e, args, env)
                if r is RETURNS_NONE:
                    return None
                if r is not None:
                    return r
            if (isinstance(e.func, ast.Name) and e.func.id == "bool" and "bool" not in env and len(args) == 1 and not e.keywords
                    and type(args[0]).__name__ == "Match" and type(args[0]).__module__ == "re"):
                return True
            if (isinstance(e.func, ast.Name) and e.func.id in _PURE_FUNCS and e.func.id not in env and not e.keywords and args
                    and all(isinstance(a, _PLAIN) and not isinstance(a, Text) for a in args)
                    and not any(isinstance(a_, ast.Starred) for a_ in e.args)):
                # a pure builtin on values the path knows (the arguments may come from model objects)
                try:
                    return _PURE_FUNCS[e.func.id](*args)
                except (TypeError, ValueError) as err:
                    if self.enter_with:
                        raise _PathRaises(type(err).__name__) from err  # certain, on fully known arguments
                    return UNKNOWN
                except Exception:  # noqa: BLE001
                    return UNKNOWN
            if (isinstance(e.func, ast.Name) and e.func.id in ("range", "zip") and e.func.id not in env and not e.keywords
                    and any(isinstance(a_, ast.Starred) for a_ in e.args)):
                flat: List[Any] = []
                okf = True
                for a_, v_ in zip(e.args, args):
                    if isinstance(a_, ast.Starred):
                        sv = self.value(a_.value, env)
                        if isinstance(sv, (tuple, list)):
                            flat.extend(sv)
                        else:
                            okf = False
                    else:
                        flat.append(v_)
                if okf and all(isinstance(a, _PLAIN) for a in flat):
                    try:
                        return _PURE_FUNCS[e.func.id](*flat)
                    except Exception:  # noqa: BLE001
                        return UNKNOWN
            if (self.enter_with and isinstance(e.func, ast.Attribute) and isinstance(e.func.value, ast.Name) and e.func.value.id == "re" and "re" not in env
                    and e.func.attr in ("fullmatch", "match", "search") and len(args) == 2 and not e.keywords  # noqa: PLR2004
                    and all(isinstance(a, _PLAIN) and not isinstance(a, Text) for a in args)):
                import re as _re2

                try:
                    return getattr(_re2, e.func.attr)(*args)
                except _re2.error as err:
                    raise _PathRaises("re.error") from err
                except (TypeError, ValueError, OverflowError) as err:
                    raise _PathRaises(type(err).__name__) from err
            if (self.enter_with and isinstance(e.func, ast.Attribute) and isinstance(e.func.value, ast.Name) and e.func.value.id == "json" and "json" not in env
                    and e.func.attr in ("dumps", "loads") and len(args) == 1 and isinstance(args[0], _PLAIN) and not isinstance(args[0], Text)):
                # the standard library's JSON codec on a value the path knows (keyword arguments: constants)
                try:
                    gj = self.folder.global_value(self.fn.module, "json")
                except Exception:  # noqa: BLE001
                    gj = None
                kws_j = {k.arg: self.value(k.value, env) for k in e.keywords if k.arg}
                if (isinstance(gj, ExtRef) and str(gj.name) == "json" and all(k.arg for k in e.keywords)
                        and all(isinstance(v, (bool, int, str, type(None), tuple)) for v in kws_j.values())):
                    import json as _json

                    try:
                        return getattr(_json, e.func.attr)(args[0], **kws_j)
                    except _json.JSONDecodeError as err:
                        raise _PathRaises("json.JSONDecodeError") from err
                    except (TypeError, ValueError) as err:
                        raise _PathRaises(type(err).__name__) from err
            if (self.enter_with and isinstance(e.func, ast.Attribute) and isinstance(e.func.value, ast.Name) and e.func.value.id == "codecs" and "codecs" not in env
                    and e.func.attr in ("decode", "encode") and 1 <= len(args) <= 3 and not e.keywords  # noqa: PLR2004
                    and isinstance(args[0], (str, bytes)) and not isinstance(args[0], Text) and all(isinstance(a, str) and not isinstance(a, Text) for a in args[1:])):
                try:
                    gc = self.folder.global_value(self.fn.module, "codecs")
                except Exception:  # noqa: BLE001
                    gc = None
                if isinstance(gc, ExtRef) and str(gc.name) == "codecs":
                    import codecs as _codecs

                    try:
                        return getattr(_codecs, e.func.attr)(*args)
                    except (UnicodeDecodeError, UnicodeEncodeError) as err:
                        raise _PathRaises(type(err).__name__) from err
                    except (TypeError, ValueError, LookupError) as err:
                        raise _PathRaises(type(err).__name__) from err
            if isinstance(e.func, ast.Name) and e.func.id == "getitem" and e.func.id not in env and len(args) == 2 and not e.keywords:  # noqa: PLR2004
                # operator.getitem on a container and a key the path knows; a missing key / index ends the path
                try:
                    gv = self.folder.global_value(self.fn.module, "getitem")
                except Exception:  # noqa: BLE001
                    gv = None
                if (isinstance(gv, ExtRef) and str(gv.name) in ("operator.getitem", "getitem") and self.enter_with and not isinstance(args[0], (Text, AbstractObject))
                        and (args[0] is None or isinstance(args[0], (bool, int, float))) and isinstance(args[1], (int, str, slice))):
                    raise _PathRaises("TypeError")  # a number, a boolean and null have no items
                if isinstance(gv, ExtRef) and str(gv.name) in ("operator.getitem", "getitem") and isinstance(args[0], (tuple, list, dict, str)) and isinstance(
                        args[1], (int, str, slice)) and not isinstance(args[0], Text):
                    try:
                        return args[0][args[1]]
                    except (KeyError, IndexError) as err:
                        raise _PathRaises(type(err).__name__) from None
                    except (TypeError, ValueError) as err:
                        raise _PathRaises(type(err).__name__) from err
            if isinstance(e.func, ast.Attribute) and not e.keywords and isinstance(e.func.value, (ast.Name, ast.Attribute, ast.Subscript, ast.Constant, ast.Call)):
                # a pure method of a plain value the path knows (a table looked up with a known key)
                recv = self.value(e.func.value, env)
                plain = all(isinstance(a, (str, int, float, bool, type(None), tuple)) and not isinstance(a, Text) for a in args)
                if (type(recv).__name__ == "Pattern" and type(recv).__module__ == "re" and e.func.attr in ("fullmatch", "match", "search") and len(args) == 1
                        and isinstance(args[0], str) and not isinstance(args[0], Text)):
                    return getattr(recv, e.func.attr)(args[0])  # a compiled pattern the rule supplied as an operand
                if isinstance(recv, RegexConst) and e.func.attr in ("fullmatch", "match", "search") and len(args) == 1 and isinstance(args[0], str) and not isinstance(args[0], Text):
                    # a module-level compiled pattern (folded) applied to a text the path knows: stdlib `re` decides
                    import re as _re

                    try:
                        return getattr(_re.compile(recv.pattern, recv.flags), e.func.attr)(args[0])
                    except _re.error:
                        return UNKNOWN
                if type(recv).__name__ == "Match" and type(recv).__module__ == "re" and e.func.attr in ("group", "start", "end", "span", "groups", "groupdict") and plain:
                    # a real match object (of a constant pattern on a text the path knows)
                    try:
                        return getattr(recv, e.func.attr)(*args)
                    except (IndexError, TypeError) as err:
                        raise _PathRaises(type(err).__name__) from err
                if (isinstance(recv, RegexConst) and e.func.attr == "sub" and self.enter_with and 2 <= len(args) <= 3 and isinstance(args[1], str)  # noqa: PLR2004
                        and not isinstance(args[1], Text) and (len(args) == 2 or isinstance(args[2], int))):  # noqa: PLR2004
                    # `PATTERN.sub(repl, text)`: repl a text, or a function of the package run abstractly per match
                    import re as _re3

                    pat3 = _re3.compile(recv.pattern, recv.flags)
                    repl = args[0]
                    if isinstance(repl, str) and not isinstance(repl, Text):
                        return pat3.sub(repl, args[1], *args[2:])
                    if isinstance(repl, Callable_) and repl.kind == "func" and repl.node is not None:
                        repl = FuncRef(repl.node)
                    if isinstance(repl, FuncRef) and self.call_function is not None:
                        unknown = []

                        def _cb(m, repl=repl):  # type: ignore[no-untyped-def]
                            r = self.call_function(repl.func, [m])  # type: ignore[misc]
                            if not isinstance(r, str) or isinstance(r, Text):
                                unknown.append(m)
                                return ""
                            return r

                        res3 = pat3.sub(_cb, args[1], *args[2:])
                        return UNKNOWN if unknown else res3
                if isinstance(recv, dict) and e.func.attr in ("items", "keys", "values") and not args:
                    return list(getattr(recv, e.func.attr)())
                if isinstance(recv, slice) and e.func.attr == "indices" and len(args) == 1 and isinstance(args[0], int):
                    try:
                        return recv.indices(args[0])
                    except ValueError as err:
                        raise _PathRaises("ValueError") from err
                    except Exception:  # noqa: BLE001
                        return UNKNOWN
                if isinstance(recv, dict) and e.func.attr == "get" and 1 <= len(args) <= 2 and plain:  # noqa: PLR2004
                    try:
                        return recv.get(*args)
                    except TypeError:
                        return UNKNOWN
                if (isinstance(recv, str) and not isinstance(recv, Text) and e.func.attr == "join" and len(args) == 1 and isinstance(args[0], (list, tuple))
                        and all(isinstance(x, str) and not isinstance(x, Text) for x in args[0])):
                    return recv.join(args[0])
                if (isinstance(recv, (str, bytes)) and not isinstance(recv, Text) and self.enter_with and e.func.attr == ("encode" if isinstance(recv, str) else "decode")
                        and len(args) <= 2 and all(isinstance(a, str) and not isinstance(a, Text) for a in args)):  # noqa: PLR2004
                    # text <-> bytes with a named codec
                    try:
                        return getattr(recv, e.func.attr)(*args)
                    except (UnicodeDecodeError, UnicodeEncodeError) as err:
                        raise _PathRaises(type(err).__name__) from err
                    except (LookupError, TypeError) as err:
                        raise _PathRaises(type(err).__name__) from err
                if (isinstance(recv, str) and not isinstance(recv, Text) and e.func.attr == "translate" and len(args) == 1 and isinstance(args[0], dict)
                        and all(isinstance(k, int) and (v is None or isinstance(v, (str, int))) for k, v in args[0].items())):
                    return recv.translate(args[0])
                if isinstance(recv, str) and not isinstance(recv, Text) and plain and e.func.attr in (
                        "startswith", "endswith", "strip", "lstrip", "rstrip", "lower", "upper", "replace", "split", "isdigit"):
                    try:
                        return getattr(recv, e.func.attr)(*args)
                    except Exception:  # noqa: BLE001
                        return UNKNOWN
            if self.heap and isinstance(e.func, ast.Name) and e.func.id in env and (env[e.func.id] is UNKNOWN or isinstance(env[e.func.id], AbstractObject)):
                # a run that keeps a heap must not skip a call it cannot follow: the call may change the sample
                raise AnalysisError(f"partial evaluation of {self.fn.qualname}: `{ast.unparse(e)[:60]}` calls a value that is not known")
        if (isinstance(e, ast.Call) and self.enter_with and isinstance(e.func, ast.Name) and e.func.id == "getattr" and "getattr" not in env and not e.keywords
                and 2 <= len(e.args) <= 3):  # noqa: PLR2004
            obj_g, name_g = self.value(e.args[0], env), self.value(e.args[1], env)
            if isinstance(obj_g, AbstractObject) and isinstance(name_g, str) and not isinstance(name_g, Text):
                got_g = obj_g.peval_getattr(name_g)
                if got_g is not UNKNOWN:
                    return got_g
        if (isinstance(e, ast.Call) and self.enter_with and isinstance(e.func, ast.Name) and e.func.id in ("any", "all") and e.func.id not in env and not e.keywords
                and len(e.args) == 1):
            # any / all over items the path knows (a comprehension over known sequences, or a known sequence)
            items_a = self._comprehension(e.args[0], env) if isinstance(e.args[0], (ast.GeneratorExp, ast.ListComp)) else self.value(e.args[0], env)
            if isinstance(items_a, (list, tuple)):
                truths: List[Optional[bool]] = []
                for it_a in items_a:
                    if it_a is UNKNOWN or isinstance(it_a, Text):
                        truths.append(None)
                    elif isinstance(it_a, AbstractObject):
                        truths.append(None if not isinstance(it_a, (list, dict)) else bool(len(it_a)))
                    else:
                        try:
                            truths.append(bool(it_a))
                        except Exception:  # noqa: BLE001
                            truths.append(None)
                want_a = e.func.id == "any"
                if any(t_a is want_a for t_a in truths):
                    return want_a
                if all(t_a is (not want_a) for t_a in truths):
                    return not want_a
        if (isinstance(e, ast.Call) and self.enter_with and not e.keywords and isinstance(e.func, ast.Attribute)
                and ((e.func.attr == "from_iterable" and isinstance(e.func.value, (ast.Name, ast.Attribute))
                      and (getattr(e.func.value, "id", None) == "chain" or getattr(e.func.value, "attr", None) == "chain") and len(e.args) == 1)
                     or (e.func.attr == "chain" and isinstance(e.func.value, ast.Name) and e.func.value.id == "itertools" and "itertools" not in env))):
            # `itertools.chain(a, b)` / `chain.from_iterable(xs)` over sequences the path knows: their concatenation
            parts_c = self.value(e.args[0], env) if e.func.attr == "from_iterable" else [self.value(a_, env) for a_ in e.args]
            if isinstance(parts_c, (list, tuple)) and all(isinstance(x_, (list, tuple)) and not isinstance(x_, AbstractObject) for x_ in parts_c):
                return [y_ for x_ in parts_c for y_ in x_]
            if self.heap:
                raise AnalysisError(f"partial evaluation of {self.fn.qualname}: the items of `{ast.unparse(e)[:60]}` are not known")
            return UNKNOWN
        if (isinstance(e, ast.Call) and self.enter_with and isinstance(e.func, ast.Name) and e.func.id == "type" and "type" not in env and not e.keywords
                and len(e.args) == 1):
            # the class of a plain sample value, as the name of the builtin (what the name `int` itself folds to)
            of_t = self.value(e.args[0], env)
            if of_t is None or (isinstance(of_t, (bool, int, float, str, list, dict, tuple)) and not isinstance(of_t, (Text, AbstractObject))):
                if type(of_t) in (bool, int, float, str, list, dict, tuple, type(None)):
                    return ExtRef(type(of_t).__name__)
        if (isinstance(e, ast.Call) and self.enter_with and isinstance(e.func, ast.Name) and e.func.id == "next" and "next" not in env and not e.keywords
                and 1 <= len(e.args) <= 2 and isinstance(e.args[0], ast.Call) and isinstance(e.args[0].func, ast.Name)  # noqa: PLR2004
                and e.args[0].func.id == "iter" and "iter" not in env and len(e.args[0].args) == 1 and not e.args[0].keywords):
            # `next(iter(x))`: the first element of a container the path knows (of a mapping: its first key)
            box_n = self.value(e.args[0].args[0], env)
            if isinstance(box_n, (list, tuple, dict)) and not isinstance(box_n, AbstractObject):
                for first_n in box_n:
                    return first_n
                if len(e.args) == 2:  # noqa: PLR2004
                    return self.value(e.args[1], env)
                raise _PathRaises("StopIteration")
        if (isinstance(e, ast.Call) and self.enter_with and isinstance(e.func, ast.Name) and e.func.id == "next" and "next" not in env and not e.keywords
                and 1 <= len(e.args) <= 2 and isinstance(e.args[0], (ast.GeneratorExp, ast.ListComp))):  # noqa: PLR2004
            # the first item a comprehension over known sequences produces, or the default
            items_n = self._comprehension(e.args[0], env)
            if isinstance(items_n, list):
                if items_n:
                    return items_n[0]
                if len(e.args) == 2:  # noqa: PLR2004
                    return self.value(e.args[1], env)
                raise _PathRaises("StopIteration")
        if self.value_oracle is not None:
            # sub-expressions the rule knows the value of become constants before folding
            vo = self.value_oracle

            class _Known(ast.NodeTransformer):
                def visit(self, node: ast.AST) -> ast.AST:
                    if isinstance(node, ast.expr) and node is not e:
                        k = vo(node, env)
                        if isinstance(k, (str, int, float, bool)) and not isinstance(k, Text):
                            return ast.copy_location(ast.Constant(value=k), node)
                    return super().visit(node)

            import copy as _copy

            e = _Known().visit(_copy.deepcopy(e))
            ast.fix_missing_locations(e)
        scope = Scope(self.folder, self.fn.module, self.fn.cls, {k: v for k, v in env.items() if _foldable(v)})
        if any(isinstance(n, ast.Name) and n.id in env and not _foldable(env[n.id]) for n in ast.walk(e)):
            return UNKNOWN
        try:
            v = self.folder.eval(e, scope)
        except NotConst:
            return UNKNOWN
        # a reference to something outside the package (or to an unbound `self`) is not a value
        if isinstance(v, Instance) and self.instance_hook is not None:
            return self.instance_hook(v)
        if self.enter_with:
            v = self._lift(v)
        return UNKNOWN if isinstance(v, ExtRef) else v

    def _lift(self, v: Any, depth: int = 0) -> Any:
        """Functions inside a folded constant table (`(("&&",), _always, lambda env, a, b: ...)`) as callables the path
        can apply: a folded lambda with the (empty) scope of the module level, a function of the package."""
        from .consteval import Closure as _Closure

        if isinstance(v, _Closure):
            la = v.node.args
            if la.vararg or la.kwarg or la.kwonlyargs or la.defaults or la.posonlyargs:
                return UNKNOWN
            return Callable_("lambda", node=v.node, env={})
        if isinstance(v, FuncRef):
            return Callable_("func", v.func.name, node=v.func)
        if depth < 4 and isinstance(v, tuple) and any(isinstance(x, (_Closure, FuncRef, tuple, list)) for x in v):
            return tuple(self._lift(x, depth + 1) for x in v)
        if depth < 4 and isinstance(v, list) and any(isinstance(x, (_Closure, FuncRef, tuple, list)) for x in v):
            return [self._lift(x, depth + 1) for x in v]
        if depth < 4 and isinstance(v, dict) and any(isinstance(x, (_Closure, FuncRef, tuple, list)) for x in v.values()):
            return {k: self._lift(x, depth + 1) for k, x in v.items()}
        return v

    def _propagate(self, cls: str, env: Dict[str, Any], at: ast.stmt) -> None:
        if self._frames:
            self._frames[-1].append((cls, env))
        else:
            self.raised.append(cls)
            self.outcomes.append(("raise", at, cls))
            self.envs.append(env)

    def _class_name(self, e: Optional[ast.expr]) -> str:
        """Canonical name of the exception class an expression names: the qualified name of a class of the package,
        the dotted name of a class of the standard library, else the name as written."""
        if e is None:
            return "?"
        if isinstance(e, ast.Call):
            e = e.func
        head = e
        while isinstance(head, ast.Attribute):
            head = head.value
        try:
            if isinstance(e, ast.Name):
                gv = self.folder.global_value(self.fn.module, e.id)
            else:
                gv = self.folder.eval_in(e, self.fn.module, self.fn.cls)
        except Exception:  # noqa: BLE001
            gv = None
        from .consteval import ClassRef as _CRx

        if isinstance(gv, _CRx):
            return gv.cls.qualname
        if isinstance(gv, ExtRef):
            return str(gv.name)
        try:
            return ast.unparse(e)
        except Exception:  # noqa: BLE001
            return "?"

    def _raise_class(self, s: ast.Raise, env: Dict[str, Any]) -> str:
        if s.exc is None:
            return str(env.get("$exc") or "?")
        if isinstance(s.exc, ast.Name) and s.exc.id in env:
            if isinstance(env[s.exc.id], ExcValue):
                return env[s.exc.id].cls
            return str(env.get("$exc") or "?")  # `raise err`: the exception being handled
        return self._class_name(s.exc)

    def _catches(self, type_expr: Optional[ast.expr], cls: str, env: Dict[str, Any]) -> bool:
        """Does `except <type_expr>` catch an exception of class `cls` (a canonical name of _class_name)?"""
        if type_expr is None:
            return True
        if cls == "?":
            raise AnalysisError(f"partial evaluation of {self.fn.qualname}: an exception of unknown class meets a handler")
        names = [self._class_name(x) for x in (type_expr.elts if isinstance(type_expr, ast.Tuple) else [type_expr])]
        return any(self._exc_subclass(cls, n) for n in names)

    _EXT_EXC_BASES = {"json.JSONDecodeError": "ValueError", "JSONDecodeError": "ValueError", "json.decoder.JSONDecodeError": "ValueError",
                      "re.error": "Exception", "error": "Exception", "re.PatternError": "Exception",
                      "callee raises": None, "constructor raises": None}

    def _exc_subclass(self, cls: str, base: str) -> bool:
        import builtins as _b

        if cls == base or base in ("BaseException",) or cls.split(".")[-1] == base.split(".")[-1] and ("." not in cls or "." not in base):
            return True
        if cls in ("callee raises", "constructor raises"):
            raise AnalysisError(f"partial evaluation of {self.fn.qualname}: an exception of unknown class meets a handler")
        repo = self.folder.repo
        info = repo.get_class(cls)
        if info is not None:
            chain = list(repo.mro(info))
        else:
            chain = [cls]
        binfo = repo.get_class(base)
        bq = binfo.qualname if binfo is not None else base
        for q in chain:
            if q == bq or q.split(".")[-1] == bq:
                return True
            q0 = self._EXT_EXC_BASES.get(q, q)
            if q0 is None:
                continue
            a_, b_ = getattr(_b, str(q0).split(".")[-1], None), getattr(_b, bq.split(".")[-1], None)
            if isinstance(a_, type) and isinstance(b_, type) and issubclass(a_, BaseException) and issubclass(b_, BaseException) and repo.get_class(q) is None:
                if issubclass(a_, b_):
                    return True
        return False

    def apply(self, f: "Callable_", args: List[Any], at: ast.AST, kwargs: Optional[Dict[str, Any]] = None) -> Any:
        """The value of calling a callable the path holds with values the path knows."""
        kwargs = kwargs or {}
        if f.kind == "bound" and hasattr(f.obj, "peval_call"):
            r_b = f.obj.peval_call(f.name, list(args), dict(kwargs))
            if type(r_b).__name__ == "_Raises":
                raise _PathRaises(str(getattr(getattr(f.obj, "model", None), "last_raised", None) or "callee raises"))
            return r_b
        if kwargs and f.kind in ("lambda", "def"):
            params_k = [a.arg for a in f.node.args.args]
            if len(args) + len(kwargs) != len(params_k) or any(k not in params_k[len(args):] for k in kwargs):
                raise _PathRaises("TypeError")
            args = list(args) + [kwargs[p_] for p_ in params_k[len(args):]]
            kwargs = {}
        if kwargs:
            return UNKNOWN
        if any(a is UNKNOWN or isinstance(a, Text) for a in args):
            return UNKNOWN
        if f.kind in ("builtin", "ext"):
            fn_ = _PURE_FUNCS[f.name] if f.kind == "builtin" else _pure_ext()[f.name]
            if not all(isinstance(a, _PLAIN) for a in args):
                if f.kind == "builtin" and f.name == "str" and len(args) == 1 and isinstance(args[0], AbstractObject):
                    return args[0].peval_str()
                return UNKNOWN
            try:
                return fn_(*args)
            except (TypeError, ValueError) as err:
                raise _PathRaises(type(err).__name__) from err
            except Exception:  # noqa: BLE001
                return UNKNOWN
        if f.kind == "lambda":
            params = [a.arg for a in f.node.args.args]
            if len(params) != len(args):
                raise _PathRaises("TypeError")
            inner = dict(f.env)
            inner.update(zip(params, args))
            return self.value(f.node.body, inner)
        if f.kind == "func":
            if self.call_function is None:
                return UNKNOWN
            r_f = self.call_function(f.node, list(args))
            if type(r_f).__name__ == "_Raises":
                raise _PathRaises("callee raises")
            return r_f
        if f.kind == "def":
            params = [a.arg for a in f.node.args.args]
            if len(params) != len(args):
                raise _PathRaises("TypeError")
            inner = dict(f.env)
            inner[f.name] = f
            inner.update(zip(params, args))
            saved = (self.outcomes, self.envs, self._loop_exits)
            self.outcomes, self.envs, self._loop_exits = [], [], []
            try:
                falls = self.block(list(f.node.body), inner)
                outs_d = [(k, v) for (k, _n, v), e_d in zip(self.outcomes, self.envs) if not e_d.get("$handlers")]
            finally:
                self.outcomes, self.envs, self._loop_exits = saved
            results = [v for k, v in outs_d if k == "return"] + [None for _e in falls]
            if not results and outs_d and all(k == "raise" for k, _v in outs_d):
                raise _PathRaises("callee raises")
            if len(results) == 1 and not any(k == "raise" for k, _v in outs_d):
                return results[0]
            return UNKNOWN
        if f.kind == "bound" and hasattr(f.obj, "peval_call"):
            r = f.obj.peval_call(f.name, list(args), {})
            if type(r).__name__ == "_Raises":
                raise _PathRaises("callee raises")
            return r
        return UNKNOWN

    def _comprehension(self, e: ast.expr, env: Dict[str, Any]) -> Any:
        """A comprehension over sequences the path knows, element by element (so that call hooks see the
        calls in it); None when an iterable is not known (the folder is tried then)."""
        items: List[Any] = []

        def rec(i: int, env2: Dict[str, Any]) -> Optional[bool]:
            if i == len(e.generators):  # type: ignore[attr-defined]
                if isinstance(e, ast.DictComp):
                    items.append((self.value(e.key, env2), self.value(e.value, env2)))
                else:
                    items.append(self.value(e.elt, env2))  # type: ignore[attr-defined]
                return True
            g = e.generators[i]  # type: ignore[attr-defined]
            if g.is_async:
                return None
            seq = self.value(g.iter, env2)
            if self.enter_with and ((isinstance(seq, str) and not isinstance(seq, Text)) or (isinstance(seq, dict) and not isinstance(seq, AbstractObject))):
                seq = list(seq)  # the characters of a known string, the keys of a known mapping
            if not isinstance(seq, (tuple, list)) or len(seq) > 64:  # noqa: PLR2004
                return None
            for item in seq:
                inner = dict(env2)
                self._bind(g.target, item, inner)
                keep: Optional[bool] = True
                for c in g.ifs:
                    t = self.test(c, inner)
                    if t is None:
                        return None
                    if t is False:
                        keep = False
                        break
                if keep and rec(i + 1, inner) is None:
                    return None
            return True

        if rec(0, env) is None:
            return None
        if isinstance(e, ast.DictComp):
            if not all(isinstance(k, (str, int)) for k, _ in items):
                return UNKNOWN
            return dict(items)
        if isinstance(e, ast.SetComp):
            return UNKNOWN
        return items

    def test(self, t: ast.expr, env: Dict[str, Any]) -> Optional[bool]:
        assumed = env.get("$assume")
        if assumed and id(t) in assumed:
            return assumed[id(t)]
        o = self.oracle(t, env)
        if o is not None:
            return o
        if _in_test.get((id(self), id(t))):
            return None
        _in_test[(id(self), id(t))] = True
        try:
            return self._test(t, env)
        finally:
            _in_test.pop((id(self), id(t)), None)

    def _test(self, t: ast.expr, env: Dict[str, Any]) -> Optional[bool]:
        if (isinstance(t, ast.Call) and isinstance(t.func, ast.Name) and t.func.id == "isinstance" and len(t.args) == 2  # noqa: PLR2004
                and (isinstance(t.args[0], (ast.Name, ast.Attribute)) or (self.enter_with and isinstance(t.args[0], (ast.Call, ast.Subscript))))):
            subj = self.value(t.args[0], env)
            if type(subj).__name__ == "Pattern" and type(subj).__module__ == "re":
                from .kinds import class_names as _cn

                nm_ = _cn(t.args[1])
                if nm_ is not None:
                    return any(x.split(".")[-1] == "Pattern" for x in nm_)
            if isinstance(subj, AbstractObject):
                from .kinds import class_names

                names = class_names(t.args[1])
                if names is not None and len(names) == 1 and isinstance(t.args[1], ast.Name) and self.enter_with:
                    # a name that stands for a tuple of classes (`VALUE_TYPE_EXPRESSIONS`, maybe imported)
                    try:
                        tv_ = self.folder.global_value(self.fn.module, t.args[1].id) if t.args[1].id not in env else None
                    except Exception:  # noqa: BLE001
                        tv_ = None
                    from .consteval import ClassRef as _CRi

                    if isinstance(tv_, (tuple, list)) and tv_ and all(isinstance(x, (_CRi, ExtRef)) for x in tv_):
                        names = [x.cls.qualname if isinstance(x, _CRi) else str(x.name).split(".")[-1] for x in tv_]
                if names is not None:
                    return subj.peval_isinstance(names)
            elif self.enter_with and isinstance(subj, Instance):
                # an instance of a class of the package (a sentinel like UNDEFINED)
                from .kinds import class_names

                names = class_names(t.args[1])
                if names is not None:
                    try:
                        return any(n_ == subj.cls.name or self.folder.repo.is_subclass(subj.cls.qualname, n_) for n_ in names)
                    except Exception:  # noqa: BLE001
                        return None
            elif isinstance(subj, _PLAIN) and not isinstance(subj, Text) and (subj is not None or self.enter_with):
                # (None only for explorers that run whole bodies on concrete samples: elsewhere None is also
                # what an unset model field reads as)
                from .kinds import class_names

                names = class_names(t.args[1])
                if names is not None and all(n_ in _PLAIN_CLASSES for n_ in names):
                    return any(isinstance(subj, _PLAIN_CLASSES[n_]) for n_ in names)
                if names is not None and self.enter_with:
                    # a class of the package that derives from no builtin container / scalar has no plain instances
                    verdicts: List[Optional[bool]] = []
                    for n_ in names:
                        if n_ in _PLAIN_CLASSES:
                            verdicts.append(isinstance(subj, _PLAIN_CLASSES[n_]))
                            continue
                        try:
                            gv_ = self.folder.global_value(self.fn.module, n_.split(".")[-1])
                        except Exception:  # noqa: BLE001
                            gv_ = None
                        from .consteval import ClassRef as _ClassRef

                        if isinstance(gv_, _ClassRef):
                            try:
                                mro_ = self.folder.repo.mro(gv_.cls)
                            except Exception:  # noqa: BLE001
                                mro_ = None
                            builtin_bases = {"str", "int", "float", "list", "tuple", "dict", "bytes", "bool", "Mapping", "Sequence", "MutableMapping",
                                             "MutableSequence", "UserDict", "UserList", "UserString"}
                            if mro_ is not None and not any(str(b).split(".")[-1] in builtin_bases for b in mro_):
                                verdicts.append(False)
                                continue
                        verdicts.append(None)
                    if any(v_ is True for v_ in verdicts):
                        return True
                    if all(v_ is False for v_ in verdicts):
                        return False
        if (isinstance(t, ast.Call) and isinstance(t.func, ast.Name) and t.func.id == "hasattr" and len(t.args) == 2  # noqa: PLR2004
                and isinstance(t.args[1], ast.Constant) and isinstance(t.args[1].value, str)):
            subj2 = self.value(t.args[0], env)
            if isinstance(subj2, _PLAIN) and not isinstance(subj2, Text) and subj2 is not None:
                return hasattr(subj2, t.args[1].value)
        if isinstance(t, ast.UnaryOp) and isinstance(t.op, ast.Not):
            v = self.test(t.operand, env)
            return None if v is None else not v
        if isinstance(t, ast.BoolOp):
            # left to right, stopping where Python stops; once an operand is undecided the later ones may or may
            # not be evaluated, so an exception one of them would certainly raise is not certain any more
            is_and = isinstance(t.op, ast.And)
            undecided = False
            for operand in t.values:
                try:
                    v = self.test(operand, env)
                except _PathRaises:
                    if not undecided:
                        raise
                    v = None
                if v is (not is_and):
                    return not is_and
                if v is None:
                    undecided = True
            return None if undecided else is_and
        if isinstance(t, ast.IfExp):
            c = self.test(t.test, env)
            if c is True:
                return self.test(t.body, env)
            if c is False:
                return self.test(t.orelse, env)
            a_, b_ = self.test(t.body, env), self.test(t.orelse, env)
            return a_ if a_ == b_ else None
        if (isinstance(t, ast.Compare) and len(t.ops) == 1 and isinstance(t.ops[0], (ast.Is, ast.IsNot)) and isinstance(t.comparators[0], ast.Constant)
                and t.comparators[0].value is None):
            lhs = t.left
            if isinstance(lhs, ast.IfExp):
                c_ = self.test(lhs.test, env)
                if c_ is not None:
                    lhs = lhs.body if c_ else lhs.orelse
            if isinstance(lhs, ast.Call) and isinstance(lhs.func, ast.Name) and lhs.func.id in (
                    "int", "str", "float", "len", "bool", "list", "tuple", "dict", "set", "frozenset") and lhs.func.id not in env:
                self.value(lhs, env)  # the call is made (hooks see it); its result is never None
                return isinstance(t.ops[0], ast.IsNot)
        if self.enter_with and isinstance(t, ast.Compare) and len(t.ops) == 1 and isinstance(t.ops[0], (ast.Is, ast.IsNot)):
            a2, b2 = self.value(t.left, env), self.value(t.comparators[0], env)
            if a2 is not UNKNOWN and b2 is not UNKNOWN and not isinstance(a2, Text) and not isinstance(b2, Text):
                plain_a = isinstance(a2, _PLAIN) or a2 is None
                plain_b = isinstance(b2, _PLAIN) or b2 is None
                if plain_a != plain_b:
                    return isinstance(t.ops[0], ast.IsNot)  # a JSON sample value is never a sentinel object
                if not plain_a and not plain_b and type(a2) is type(b2):
                    same = a2 is b2 or a2 == b2
                    return same == isinstance(t.ops[0], ast.Is)
        if isinstance(t, ast.Compare) and len(t.ops) > 1 and self.enter_with:
            # `a <= x <= b`: the conjunction of the links, left to right, each operand evaluated once
            vals_c = [self.value(x, env) for x in [t.left] + list(t.comparators)]
            if any(x is UNKNOWN or isinstance(x, Text) for x in vals_c):
                return None
            try:
                for op_, a_c, b_c in zip(t.ops, vals_c, vals_c[1:]):
                    if not bool(self.folder._cmp(op_, a_c, b_c)):
                        return False
                return True
            except Exception:  # noqa: BLE001
                return None
        if isinstance(t, ast.Compare) and len(t.ops) == 1:
            a, b = self.value(t.left, env), self.value(t.comparators[0], env)
            if a is UNKNOWN or b is UNKNOWN or isinstance(a, Text) or isinstance(b, Text):
                return None
            try:
                return bool(self.folder._cmp(t.ops[0], a, b))
            except Exception:  # noqa: BLE001
                return None
        v = self.value(t, env)
        if v is UNKNOWN or isinstance(v, Text):
            return None
        if type(v).__name__ == "Match" and type(v).__module__ == "re":
            return True
        if v is not None and not isinstance(v, (bool, int, float, str, bytes, tuple, list, dict, set, frozenset)):
            return None
        try:
            return bool(v)
        except Exception:  # noqa: BLE001
            return None

    def _bind(self, t: ast.expr, v: Any, env: Dict[str, Any]) -> None:
        """Bind an assignment / loop target to a value in `env` (in place)."""
        if isinstance(t, ast.Name):
            env[t.id] = v
            return
        if isinstance(t, (ast.Tuple, ast.List)) and isinstance(v, (tuple, list)) and len(v) == len(t.elts) and not any(
                isinstance(x, ast.Starred) for x in t.elts):
            for x, xv in zip(t.elts, v):
                self._bind(x, xv, env)
            return
        if (isinstance(t, (ast.Tuple, ast.List)) and isinstance(v, (tuple, list)) and sum(isinstance(x, ast.Starred) for x in t.elts) == 1
                and len(v) >= len(t.elts) - 1):
            # `first, *rest = seq`
            k_star = next(i for i, x in enumerate(t.elts) if isinstance(x, ast.Starred))
            after = len(t.elts) - k_star - 1
            for x, xv in zip(t.elts[:k_star], v[:k_star]):
                self._bind(x, xv, env)
            self._bind(t.elts[k_star].value, list(v[k_star:len(v) - after]), env)  # type: ignore[attr-defined]
            for x, xv in zip(t.elts[k_star + 1:], v[len(v) - after:] if after else []):
                self._bind(x, xv, env)
            return
        if isinstance(t, ast.Subscript) and self.heap and not isinstance(t.slice, ast.Slice):
            base_h = self.value(t.value, env)
            if isinstance(base_h, (list, dict)) and not isinstance(base_h, AbstractObject):
                k_h = self.value(t.slice, env)
                if v is UNKNOWN or k_h is UNKNOWN or isinstance(k_h, Text):
                    raise AnalysisError(f"partial evaluation of {self.fn.qualname}: a store into a container under a key / with a value that is not known")
                try:
                    base_h[k_h] = v
                except (IndexError, KeyError, TypeError) as err:
                    raise _PathRaises(type(err).__name__) from err
                return
        if isinstance(t, ast.Subscript) and isinstance(t.value, ast.Name) and isinstance(env.get(t.value.id), dict):
            # a store into a dictionary the path built itself: known key -> updated copy, else unknown
            k = self.value(t.slice, env)
            if isinstance(k, (str, int)) and not isinstance(k, bool):
                d = dict(env[t.value.id])
                d[k] = v
                env[t.value.id] = d
            else:
                env[t.value.id] = UNKNOWN
            return
        if (isinstance(t, ast.Subscript) and isinstance(t.value, ast.Name) and isinstance(env.get(t.value.id), list) and self.enter_with
                and not isinstance(env.get(t.value.id), AbstractObject) and not isinstance(t.slice, ast.Slice)):
            # a store into a list the path built itself, at a known position: an updated copy
            k2 = self.value(t.slice, env)
            lst = env[t.value.id]
            if isinstance(k2, int) and not isinstance(k2, bool):
                if not -len(lst) <= k2 < len(lst):
                    raise _PathRaises("IndexError")
                new_l = list(lst)
                new_l[k2] = v
                env[t.value.id] = new_l
            else:
                env[t.value.id] = UNKNOWN
            return
        if isinstance(t, ast.Attribute) and isinstance(t.value, (ast.Name, ast.Attribute)):
            obj = self.value(t.value, env)
            if isinstance(obj, AbstractObject):
                obj.peval_setattr(t.attr, v)
                return
        if isinstance(t, (ast.Subscript, ast.Attribute)):
            root = t
            while isinstance(root, (ast.Subscript, ast.Attribute)):
                root = root.value
            if isinstance(root, ast.Name) and isinstance(env.get(root.id), (dict, list)):
                env[root.id] = UNKNOWN
        for n in ast.walk(t):
            if isinstance(n, ast.Name) and isinstance(n.ctx, ast.Store):
                env[n.id] = UNKNOWN

    # -------------------------------------------------------- statements
    def run(self, env: Dict[str, Any]) -> List[Outcome]:
        self.outcomes = []
        self.envs = []
        for env2 in self.block(list(self.fn.node.body), dict(env)):
            self.outcomes.append(("fall", None, None))
            self.envs.append(env2)
        return self.outcomes

    def block(self, body: List[ast.stmt], env: Dict[str, Any]) -> List[Dict[str, Any]]:
        """Environments with which control falls off the end of `body`."""
        envs = [env]
        for s in body:
            nxt: List[Dict[str, Any]] = []
            for e in envs:
                try:
                    nxt.extend(self.stmt(s, e))
                except _PathRaises as pr:
                    if self.exact_exceptions:
                        cls_x = str(pr.args[0]) if pr.args else "?"
                        if self._frames:
                            self._frames[-1].append((cls_x, e))
                        else:
                            self.raised.append(cls_x)
                            self.outcomes.append(("raise", s, cls_x))
                            self.envs.append(e)
                        continue
                    self.raised.append(str(pr.args[0]) if pr.args else "?")
                    # this path ends here with an exception: inside a `try` body the handlers take over (they
                    # are explored anyway), elsewhere it is a way out of the function
                    self._dropped += 1
                    if self._try_depth == 0:
                        self.outcomes.append(("raise", s, None))
                        self.envs.append(e)
            envs = nxt
            if len(envs) + len(self.outcomes) > self.max_paths:
                raise AnalysisError(f"partial evaluation of {self.fn.qualname}: too many paths")
            if not envs:
                break
        return envs

    def stmt(self, s: ast.stmt, env: Dict[str, Any]) -> List[Dict[str, Any]]:
        if isinstance(s, (ast.For, ast.AsyncFor, ast.While, ast.Expr)) and not env.get("$yield") and any(
                isinstance(n, (ast.Yield, ast.YieldFrom)) for n in ast.walk(s)):
            # the path has reached a statement that produces values (a generator's output)
            env = dict(env)
            env["$yield"] = True
        if isinstance(s, ast.Expr) and isinstance(s.value, (ast.Yield, ast.YieldFrom)) and self.enter_with:
            # explorers that run whole bodies keep what a generator produces, in order, per path
            env = dict(env)
            got_ = self.value(s.value.value, env) if s.value.value is not None else None
            if not isinstance(env.get("$yields", ()), tuple):
                return [env]  # already unknown (paths with different outputs were merged)
            if isinstance(s.value, ast.Yield):
                env["$yields"] = tuple(env.get("$yields", ())) + (got_,)
            elif isinstance(got_, (list, tuple)):
                env["$yields"] = tuple(env.get("$yields", ())) + tuple(got_)
            else:
                env["$yields"] = tuple(env.get("$yields", ())) + (UNKNOWN,)
            return [env]
        if isinstance(s, ast.Delete) and self.heap:
            for t_d in s.targets:
                if isinstance(t_d, ast.Subscript) and not isinstance(t_d.slice, ast.Slice):
                    base_d, k_d = self.value(t_d.value, env), self.value(t_d.slice, env)
                    if isinstance(base_d, (list, dict)) and not isinstance(base_d, AbstractObject) and k_d is not UNKNOWN and not isinstance(k_d, Text):
                        try:
                            del base_d[k_d]
                        except (IndexError, KeyError, TypeError) as err:
                            raise _PathRaises(type(err).__name__) from err
                        continue
                raise AnalysisError(f"partial evaluation of {self.fn.qualname}: `{ast.unparse(s)[:60]}` cannot be followed")
            return [env]
        if isinstance(s, ast.Delete) and not self.heap and all(
                isinstance(t_d, ast.Subscript) and isinstance(t_d.value, ast.Name) for t_d in s.targets):
            # `del xs[i]` / `del xs[a:b]` on a local: a list the path built itself is replaced by the shorter list in this
            # path's environment; anything else becomes unknown
            env = dict(env)
            for t_d in s.targets:
                name_d = t_d.value.id  # type: ignore[attr-defined]
                cur_d = env.get(name_d)
                new_d: Any = UNKNOWN
                if isinstance(cur_d, list) and not isinstance(cur_d, AbstractObject):
                    sl = t_d.slice  # type: ignore[attr-defined]
                    if isinstance(sl, ast.Slice):
                        bounds = [None if b is None else self.value(b, env) for b in (sl.lower, sl.upper, sl.step)]
                        if all(b is None or (isinstance(b, int) and not isinstance(b, bool)) for b in bounds):
                            new_d = list(cur_d)
                            del new_d[slice(*bounds)]
                    else:
                        k_d = self.value(sl, env)
                        if isinstance(k_d, int) and not isinstance(k_d, bool):
                            new_d = list(cur_d)
                            try:
                                del new_d[k_d]
                            except IndexError as err:
                                raise _PathRaises("IndexError") from err
                env[name_d] = new_d
            return [env]
        if (isinstance(s, ast.Expr) and self.enter_with and not self.heap and isinstance(s.value, ast.Call) and isinstance(s.value.func, ast.Attribute)
                and isinstance(s.value.func.value, ast.Name) and isinstance(env.get(s.value.func.value.id), list)
                and s.value.func.attr in ("append", "extend", "insert") and not s.value.keywords):
            # a list the path built itself grows: the new list replaces it in this path's environment
            name_ = s.value.func.value.id
            args_ = [self.value(a, env) for a in s.value.args]
            cur_ = list(env[name_])
            env = dict(env)
            if s.value.func.attr == "append" and len(args_) == 1:
                cur_.append(args_[0])
                env[name_] = cur_
            elif s.value.func.attr == "extend" and len(args_) == 1 and isinstance(args_[0], (list, tuple)):
                cur_.extend(args_[0])
                env[name_] = cur_
            elif s.value.func.attr == "insert" and len(args_) == 2 and isinstance(args_[0], int):  # noqa: PLR2004
                cur_.insert(args_[0], args_[1])
                env[name_] = cur_
            else:
                env[name_] = UNKNOWN
            return [env]
        if isinstance(s, ast.Expr):
            if isinstance(s.value, ast.Constant):
                return [env]
            got_x = self.value(s.value, env)
            if (self.heap and got_x is UNKNOWN and isinstance(s.value, ast.Call) and isinstance(s.value.func, ast.Attribute)
                    and isinstance(s.value.func.value, (ast.Name, ast.Attribute, ast.Subscript))):
                # a method called for its effect on a container of the sample, and the effect is not known: the run
                # cannot go on as if nothing had happened
                recv_x = self.value(s.value.func.value, env)
                if isinstance(recv_x, (list, dict, set)) and not isinstance(recv_x, AbstractObject):
                    raise AnalysisError(f"partial evaluation of {self.fn.qualname}: the effect of `{ast.unparse(s.value)[:60]}` on a container is not known")
            return [env]
        if isinstance(s, (ast.Assign, ast.AnnAssign, ast.Return)) and s.value is not None and self.split_conditionals:
            # a conditional expression inside the value whose test is not decided: one path for each answer
            for n in ast.walk(s.value):
                if isinstance(n, ast.IfExp) and self.test(n.test, env) is None:
                    outs_: List[Dict[str, Any]] = []
                    for answer in (True, False):
                        e2 = dict(env)
                        e2["$assume"] = dict(env.get("$assume") or {}, **{})
                        e2["$assume"][id(n.test)] = answer
                        outs_.extend(self.stmt(s, e2))
                    return outs_
        if isinstance(s, (ast.Assign, ast.AnnAssign)):
            if isinstance(s, ast.AnnAssign) and s.value is None:
                return [env]
            v = self.value(s.value, env)
            targets = s.targets if isinstance(s, ast.Assign) else [s.target]
            env = dict(env)
            for t in targets:
                self._bind(t, v, env)
            return [env]
        if isinstance(s, ast.AugAssign):
            env = dict(env)
            if (isinstance(s.target, ast.Name) and self.enter_with and isinstance(env.get(s.target.id), (int, float)) and not isinstance(env.get(s.target.id), bool)
                    and isinstance(s.op, (ast.Add, ast.Sub, ast.Mult, ast.FloorDiv, ast.Mod))):
                # arithmetic on a number the path knows
                rhs = self.value(s.value, env)
                if isinstance(rhs, (int, float)) and not isinstance(rhs, bool):
                    env[s.target.id] = self.value(ast.copy_location(ast.BinOp(left=ast.copy_location(ast.Name(id=s.target.id, ctx=ast.Load()), s), op=s.op,
                                                                                right=ast.copy_location(ast.Constant(value=rhs), s)), s), env)
                else:
                    env[s.target.id] = UNKNOWN
                return [env]
            if isinstance(s.target, ast.Name):
                if isinstance(s.op, ast.Add):
                    cur, add = as_text(env.get(s.target.id)), as_text(self.value(s.value, env))
                    if cur is not None:
                        env[s.target.id] = _text(list(cur.parts) + list((add or Text((None,))).parts))
                        return [env]
                env[s.target.id] = UNKNOWN
            return [env]
        if isinstance(s, ast.Return):
            self.outcomes.append(("return", s, self.value(s.value, env)))
            self.envs.append(env)
            return []
        if isinstance(s, ast.Raise) and self.exact_exceptions:
            raise _PathRaises(self._raise_class(s, env))
        if isinstance(s, ast.Raise):
            self.outcomes.append(("raise", s, None))
            self.envs.append(env)
            return []
        if isinstance(s, ast.If):
            t = self.test(s.test, env)
            out: List[Dict[str, Any]] = []
            if t is not False:
                out.extend(self.block(s.body, dict(env)))
            if t is not True:
                out.extend(self.block(s.orelse, dict(env)))
            return out
        if isinstance(s, ast.FunctionDef) and self.enter_with:
            a_d = s.args
            if not (a_d.vararg or a_d.kwarg or a_d.kwonlyargs or a_d.defaults or a_d.posonlyargs or s.decorator_list) and not any(
                    isinstance(n, (ast.Yield, ast.YieldFrom)) for n in ast.walk(s)):
                env = dict(env)
                env[s.name] = Callable_("def", s.name, node=s, env=env)  # a local helper, held as a value
                return [env]
        if isinstance(s, (ast.Pass, ast.Import, ast.ImportFrom, ast.Global, ast.Nonlocal, ast.Assert, ast.FunctionDef, ast.AsyncFunctionDef)):
            return [env]
        if isinstance(s, ast.Try) and self.exact_exceptions:
            self._frames.append([])
            try:
                done_t = self.block(s.body, dict(env))
            finally:
                raised_t = self._frames.pop()
            out_t: List[Dict[str, Any]] = []
            for e_t in done_t:
                out_t.extend(self.block(s.orelse, e_t))
            for cls_t, env_t in raised_t:
                handler = next((h for h in s.handlers if self._catches(h.type, cls_t, env_t)), None)
                if handler is None:
                    if s.finalbody:
                        for e_f in self.block(s.finalbody, dict(env_t)):
                            self._propagate(cls_t, e_f, s)
                    else:
                        self._propagate(cls_t, env_t, s)
                    continue
                eh_t = dict(env_t)
                saved_exc = eh_t.get("$exc")
                eh_t["$exc"] = cls_t
                if handler.name:
                    eh_t[handler.name] = ExcValue(self, cls_t)
                for e_h in self.block(handler.body, eh_t):
                    e_h = dict(e_h)
                    if saved_exc is None:
                        e_h.pop("$exc", None)
                    else:
                        e_h["$exc"] = saved_exc
                    out_t.append(e_h)
            if s.finalbody:
                fin: List[Dict[str, Any]] = []
                for e_t in out_t:
                    fin.extend(self.block(s.finalbody, e_t))
                return fin
            return out_t
        if isinstance(s, (ast.With, ast.AsyncWith)) and self.exact_exceptions and self.enter_with:
            env_w = dict(env)
            suppressed: Optional[ast.Call] = None
            for it in s.items:
                self.value(it.context_expr, env_w)
                if isinstance(it.context_expr, ast.Call) and isinstance(it.context_expr.func, (ast.Name, ast.Attribute)) and (
                        getattr(it.context_expr.func, "id", None) == "suppress" or getattr(it.context_expr.func, "attr", None) == "suppress"):
                    suppressed = it.context_expr
                if it.optional_vars is not None:
                    for n in ast.walk(it.optional_vars):
                        if isinstance(n, ast.Name):
                            env_w[n.id] = UNKNOWN
            if suppressed is None:
                return self.block(s.body, env_w)
            self._frames.append([])
            try:
                out_w = self.block(s.body, env_w)
            finally:
                raised_w = self._frames.pop()
            for cls_w, e_w in raised_w:
                if any(self._catches(a_w, cls_w, e_w) for a_w in suppressed.args):
                    out_w.append(e_w)  # the block is abandoned there; control goes on after it
                else:
                    self._propagate(cls_w, e_w, s)
            return out_w
        if isinstance(s, ast.Try) and not s.finalbody:
            # the body either completes (then `else`) or is left for one of the handlers; a handler starts
            # from the state before the `try` with everything the body assigns unknown.  `$handlers` in the
            # environment records which handlers a path went through.
            out2: List[Dict[str, Any]] = []
            self._try_depth += 1
            try:
                done_body = self.block(s.body, dict(env))
            finally:
                self._try_depth -= 1
            for e in done_body:
                out2.extend(self.block(s.orelse, e))
            for h in s.handlers:
                eh = dict(env)
                for n in ast.walk(ast.Module(body=s.body, type_ignores=[])):
                    if isinstance(n, ast.Name) and isinstance(n.ctx, ast.Store):
                        eh[n.id] = UNKNOWN
                if h.name:
                    eh[h.name] = UNKNOWN
                eh["$handlers"] = tuple(eh.get("$handlers", ())) + (h,)
                out2.extend(self.block(h.body, eh))
            return out2
        if isinstance(s, ast.While) and self.enter_loops and self.enter_with and not s.orelse:
            # a `while` whose test the path decides each time round (a parser walking a token stream the rule
            # supplied): executed as it runs, a bounded number of times; an undecided test leaves it unfollowed
            live_w = [env]
            done_w: List[Dict[str, Any]] = []
            followed = True
            for _round in range(65):
                nxt_w: List[Dict[str, Any]] = []
                for e0 in live_w:
                    t_w = self.test(s.test, e0)
                    if t_w is None:
                        followed = False
                        break
                    if t_w is False:
                        done_w.append(e0)
                        continue
                    self._loop_exits.append([])
                    after_w = self.block(s.body, dict(e0))
                    for e1 in self._loop_exits.pop():
                        (done_w if e1.get("$jump") == "break" else nxt_w).append({k: v for k, v in e1.items() if k != "$jump"})
                    nxt_w.extend(after_w)
                if not followed:
                    break
                live_w = nxt_w
                if not live_w:
                    return done_w
                if len(live_w) + len(done_w) > self.max_paths:
                    raise AnalysisError(f"partial evaluation of {self.fn.qualname}: too many paths")
            if followed:
                raise AnalysisError(f"partial evaluation of {self.fn.qualname}: a `while` loop does not end within 64 rounds")
            if _round > 0:
                raise AnalysisError(f"partial evaluation of {self.fn.qualname}: the test of a `while` loop is decided at first and then not")
        if isinstance(s, (ast.For, ast.AsyncFor)) and self.enter_loops and (isinstance(s, ast.For) or self.enter_with):
            seq = self.value(s.iter, env)
            if self.enter_with and isinstance(s, ast.For) and (
                    (isinstance(seq, str) and not isinstance(seq, Text)) or (isinstance(seq, dict) and not isinstance(seq, AbstractObject))):
                seq = list(seq)  # the characters of a known string, the keys of a known mapping
            if self.heap and not isinstance(seq, (tuple, list)):
                raise AnalysisError(f"partial evaluation of {self.fn.qualname}: a loop over `{ast.unparse(s.iter)[:60]}`, whose items are not known")
            if not isinstance(seq, (tuple, list)) and s.orelse:
                raise AnalysisError(f"partial evaluation of {self.fn.qualname}: for/else over an unknown sequence")
            if isinstance(seq, (tuple, list)) and len(seq) <= 64:  # noqa: PLR2004
                # a loop over a sequence the path knows: executed item by item
                live = [env]
                done: List[Dict[str, Any]] = []
                for item in seq:
                    nxt_live: List[Dict[str, Any]] = []
                    for e0 in live:
                        inner0 = dict(e0)
                        self._bind(s.target, item, inner0)
                        self._loop_exits.append([])
                        after0 = self.block(s.body, inner0)
                        for e1 in self._loop_exits.pop():
                            (done if e1.get("$jump") == "break" else nxt_live).append(
                                {k: v for k, v in e1.items() if k != "$jump"})
                        nxt_live.extend(after0)
                    live = nxt_live
                    if len(live) + len(done) > self.max_paths:
                        raise AnalysisError(f"partial evaluation of {self.fn.qualname}: too many paths")
                if s.orelse:
                    # `else` of a loop: runs when the loop was not left by `break`
                    finished: List[Dict[str, Any]] = []
                    for e0 in live:
                        finished.extend(self.block(s.orelse, e0))
                    live = finished
                return live + done
        if isinstance(s, (ast.For, ast.AsyncFor)) and self.enter_loops and not s.orelse:
            # one symbolic iteration: the loop variables are unknown; zero iterations are possible too
            self.value(s.iter, env)
            inner = dict(env)
            for n in ast.walk(s.target):
                if isinstance(n, ast.Name):
                    inner[n.id] = UNKNOWN
            self._loop_exits.append([])
            after = self.block(s.body, inner)
            after = after + self._loop_exits.pop()
            merged = dict(env)
            for e2 in after:
                for k, v in e2.items():
                    if k == "$jump":
                        continue
                    if k.startswith("$") and k not in merged:
                        merged[k] = v
                    elif merged.get(k, v) is not v and merged.get(k, v) != v:
                        merged[k] = UNKNOWN
            return [merged]
        if isinstance(s, (ast.With, ast.AsyncWith)) and self.enter_with:
            # the body runs as written; under `suppress(...)` it may also be abandoned at any point
            env = dict(env)
            swallows = False
            for it in s.items:
                self.value(it.context_expr, env)
                if isinstance(it.context_expr, ast.Call) and isinstance(it.context_expr.func, (ast.Name, ast.Attribute)) and (
                        getattr(it.context_expr.func, "id", None) == "suppress" or getattr(it.context_expr.func, "attr", None) == "suppress"):
                    swallows = True
                if it.optional_vars is not None:
                    for n in ast.walk(it.optional_vars):
                        if isinstance(n, ast.Name):
                            env[n.id] = UNKNOWN
            before = self._dropped
            try:
                self._try_depth += 1 if swallows else 0
                out3 = self.block(s.body, dict(env))
            finally:
                self._try_depth -= 1 if swallows else 0
            if swallows and self._dropped > before:
                # a statement of the body certainly raised: the block was abandoned there and control goes on
                # after it (names the body assigns are unknown from here)
                ea = dict(env)
                for n in ast.walk(ast.Module(body=s.body, type_ignores=[])):
                    if isinstance(n, ast.Name) and isinstance(n.ctx, ast.Store):
                        ea[n.id] = UNKNOWN
                out3.append(ea)
            return out3
        if isinstance(s, (ast.For, ast.AsyncFor, ast.While, ast.With, ast.AsyncWith, ast.Try)):
            # not followed: every name (and text accumulator) the statement may assign becomes unknown;
            # a `return` inside it is reported with an unknown value
            env = dict(env)
            for n in ast.walk(s):
                if isinstance(n, ast.Name) and isinstance(n.ctx, ast.Store):
                    env[n.id] = UNKNOWN
                elif isinstance(n, ast.Call) and isinstance(n.func, ast.Attribute) and isinstance(n.func.value, ast.Name):
                    if n.func.attr in ("append", "extend", "insert", "add", "update", "pop", "clear"):
                        env[n.func.value.id] = UNKNOWN
                elif isinstance(n, ast.Return):
                    self.outcomes.append(("return", n, UNKNOWN))
                    self.envs.append(env)
                elif isinstance(n, ast.Raise):
                    self.outcomes.append(("raise", n, None))
                    self.envs.append(env)
            return [env]
        if isinstance(s, (ast.Continue, ast.Break)) and self._loop_exits:
            env = dict(env)
            env["$jump"] = "break" if isinstance(s, ast.Break) else "continue"
            self._loop_exits[-1].append(env)
            return []
        if isinstance(s, (ast.Continue, ast.Break)):
            # the way out of a loop body that is explored on its own
            self.outcomes.append(("continue" if isinstance(s, ast.Continue) else "break", s, None))
            self.envs.append(env)
            return []
        raise AnalysisError(f"partial evaluation of {self.fn.qualname}: statement {type(s).__name__} not supported")


def _text(parts: List[Optional[str]]) -> Any:
    merged: List[Optional[str]] = []
    for p in parts:
        if p is None:
            if not merged or merged[-1] is not None:
                merged.append(None)
        elif merged and isinstance(merged[-1], str):
            merged[-1] = merged[-1] + p
        elif p != "":
            merged.append(p)
    if all(isinstance(p, str) for p in merged):
        return "".join(merged)  # type: ignore[arg-type]
    return Text(tuple(merged))


def explore(folder: Folder, fn: FuncInfo, env: Dict[str, Any], oracle: Optional[Oracle] = None,
            on_call: Optional[CallHook] = None, value_oracle: Optional[Callable[[ast.expr, Dict[str, Any]], Any]] = None) -> List[Outcome]:
    return Explorer(folder, fn, oracle, on_call, value_oracle).run(env)


# --------------------------------------------------------------------------- residual expressions


def simplify_test(test: ast.expr, atom: Callable[[ast.expr], Optional[bool]]) -> Tuple[Optional[bool], Optional[ast.expr]]:
    """Decide `test` as far as `atom` knows its atoms: (True/False, None) or (None, residual test)."""
    known = atom(test)
    if known is not None:
        return known, None
    if isinstance(test, ast.UnaryOp) and isinstance(test.op, ast.Not):
        d, r = simplify_test(test.operand, atom)
        if d is not None:
            return (not d), None
        return None, ast.copy_location(ast.UnaryOp(op=ast.Not(), operand=r), test)
    if isinstance(test, ast.BoolOp):
        is_and = isinstance(test.op, ast.And)
        rest: List[ast.expr] = []
        for v in test.values:
            d, r = simplify_test(v, atom)
            if d is None:
                assert r is not None
                rest.append(r)
            elif d != is_and:
                return d, None  # False in an `and`, True in an `or`
        if not rest:
            return is_and, None
        if len(rest) == 1:
            return None, rest[0]
        return None, ast.copy_location(ast.BoolOp(op=test.op, values=rest), test)
    return None, test


class _Let(ast.NodeTransformer):
    def __init__(self, env: Dict[str, ast.expr]) -> None:
        self.env = env

    def visit_Name(self, node: ast.Name) -> ast.AST:
        if isinstance(node.ctx, ast.Load) and node.id in self.env:
            import copy as _copy

            return _copy.deepcopy(self.env[node.id])
        return node


def residual_expr(fn_node: ast.AST, atom: Callable[[ast.expr], Optional[bool]]) -> Optional[ast.expr]:
    """The value a (canonical, loop-free) function returns, as one expression, after deciding the tests
    `atom` knows: if/else trees become conditional expressions, single-assignment locals are substituted.
    None when the body is not of that form on the paths that remain."""
    import copy as _copy

    from .canon import _Expr
    from .canon import jumps

    def sub(e: Optional[ast.expr], env: Dict[str, ast.expr]) -> ast.expr:
        if e is None:
            return ast.Constant(value=None)
        return _Let(env).visit(_copy.deepcopy(e))

    def block(stmts: List[ast.stmt], env: Dict[str, ast.expr], depth: int) -> Optional[ast.expr]:
        if depth > 60:
            return None
        for i, s in enumerate(stmts):
            rest = stmts[i + 1:]
            if isinstance(s, ast.Expr) and isinstance(s.value, ast.Constant):
                continue
            if isinstance(s, (ast.Pass, ast.Assert)):
                continue
            if isinstance(s, ast.Return):
                return sub(s.value, env)
            if isinstance(s, ast.Raise):
                return ast.Call(func=ast.Name(id="RAISES", ctx=ast.Load()), args=[sub(s.exc, env)] if s.exc else [], keywords=[])
            if isinstance(s, ast.Assign) and len(s.targets) == 1 and isinstance(s.targets[0], ast.Name):
                env = dict(env)
                env[s.targets[0].id] = sub(s.value, env)
                continue
            if isinstance(s, ast.AnnAssign) and isinstance(s.target, ast.Name) and s.value is not None:
                env = dict(env)
                env[s.target.id] = sub(s.value, env)
                continue
            if (
                isinstance(s, ast.Assign) and len(s.targets) == 1 and isinstance(s.targets[0], ast.Tuple) and isinstance(s.value, ast.Tuple)
                and len(s.targets[0].elts) == len(s.value.elts) and all(isinstance(x, ast.Name) for x in s.targets[0].elts)
            ):
                # simultaneous assignment (`left, right = right, left`): all values first, then the bindings
                vals = [sub(v, env) for v in s.value.elts]
                env = dict(env)
                for x, v in zip(s.targets[0].elts, vals):
                    env[x.id] = v  # type: ignore[attr-defined]
                continue
            if isinstance(s, ast.If):
                d, r = simplify_test(sub(s.test, env), atom)
                then = list(s.body) + ([] if jumps(s.body) else list(rest))
                other = list(s.orelse) + ([] if (s.orelse and jumps(s.orelse)) else list(rest))
                if d is True:
                    return block(then, env, depth + 1)
                if d is False:
                    return block(other, env, depth + 1)
                a = block(then, env, depth + 1)
                b = block(other, env, depth + 1)
                if a is None or b is None:
                    return None
                assert r is not None
                return ast.IfExp(test=r, body=a, orelse=b)
            return None
        return ast.Constant(value=None)

    body = getattr(fn_node, "body")
    e = block(list(body), {}, 0)
    if e is None:
        return None
    ast.fix_missing_locations(e)
    for _ in range(6):
        x = _Expr()
        e = x.visit(e)
        ast.fix_missing_locations(e)
        if not x.changed:
            break
    return e
