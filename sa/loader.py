"""Parse the analysed package and index modules, classes, functions and imports.

The repository root is taken from the environment variable VERIF_REPO (default
/repo) so that the self-test can point the very same checks at a scratch copy.
"""

from __future__ import annotations

import ast
import hashlib
import os
from dataclasses import dataclass
from dataclasses import field
from pathlib import Path
from typing import Dict
from typing import Iterator
from typing import List
from typing import Optional
from typing import Set
from typing import Tuple
from typing import Union

PKG = "jsonpath"


class AnalysisError(Exception):
    """The analysis itself cannot proceed (anchor vanished, idiom unknown...)."""


def repo_root() -> Path:
    return Path(os.environ.get("VERIF_REPO", "/repo"))


# Built-in exception hierarchy (child -> parent), as far as the rules need it.
BUILTIN_EXC_PARENT = {
    "BaseException": None,
    "Exception": "BaseException",
    "ArithmeticError": "Exception",
    "OverflowError": "ArithmeticError",
    "ZeroDivisionError": "ArithmeticError",
    "AssertionError": "Exception",
    "AttributeError": "Exception",
    "LookupError": "Exception",
    "IndexError": "LookupError",
    "KeyError": "LookupError",
    "NameError": "Exception",
    "OSError": "Exception",
    "RuntimeError": "Exception",
    "RecursionError": "RuntimeError",
    "NotImplementedError": "RuntimeError",
    "StopIteration": "Exception",
    "StopAsyncIteration": "Exception",
    "TypeError": "Exception",
    "ValueError": "Exception",
    "UnicodeError": "ValueError",
    "UnicodeDecodeError": "UnicodeError",
    "UnicodeEncodeError": "UnicodeError",
    "json.JSONDecodeError": "ValueError",
    "re.error": "Exception",
    "SystemExit": "BaseException",
    "KeyboardInterrupt": "BaseException",
}


@dataclass(eq=False)
class FuncInfo:
    qualname: str
    name: str
    node: Union[ast.FunctionDef, ast.AsyncFunctionDef]
    module: "Module"
    cls: Optional["ClassInfo"] = None
    parent: Optional["FuncInfo"] = None

    @property
    def is_async(self) -> bool:
        return isinstance(self.node, ast.AsyncFunctionDef)

    @property
    def lineno(self) -> int:
        return self.node.lineno

    @property
    def relpath(self) -> str:
        return self.module.relpath

    def loc(self, node: Optional[ast.AST] = None) -> str:
        ln = getattr(node, "lineno", None) if node is not None else self.node.lineno
        return f"{self.module.relpath}:{ln}"

    def __repr__(self) -> str:  # pragma: no cover
        return f"<Func {self.qualname}>"


# An anchor that a rule names may have been renamed (`_index` -> `_as_index`), or moved out of its class into the
# module: it is then looked for by what it *does*.  One entry per anchor a rule asks for by a private name: a
# predicate on the source text of a candidate.  A role is filled only when exactly one candidate fits.
def _has(*needles: str):  # type: ignore[no-untyped-def]
    return lambda text: all(n in text for n in needles)


ANCHOR_ROLES = {
    # (class, anchor name): (number of parameters besides self - None: any, predicate on the source text)
    ("JSONPointer", "_index"): (1, _has("int(", "_int_index")),
    ("JSONPointer", "_getitem"): (2, _has("getitem(", "except KeyError", "except TypeError")),
    ("JSONPointer", "_encode"): (1, _has("'~0'", "'~1'", ".join(")),
    ("JSONPointer", "_unicode_escape"): (1, _has("unicode-escape")),
    ("JSONPointer", "_tokens"): (0, _has("str(", "self.parts")),
    ("JSONPointer", "_parse"): (None, _has("must start with a slash")),
    ("RelativeJSONPointer", "_int_like"): (1, _has("isinstance(", "int)", "int(")),
    ("RelativeJSONPointer", "_zero_or_positive"): (2, _has("leading zero")),
    ("RelativeJSONPointer", "_parse"): (None, _has("RE_RELATIVE_POINTER")),
    ("FunctionExtension", "_unpack_node_lists"): (2, _has("arg_types", "NodeList")),
    ("Parser", "_decode_string_literal"): (1, _has("json.loads")),
    ("Parser", "_raise_for_uncompared"): (2, _has("must be compared")),
    ("Parser", "_raise_for_non_comparable_function"): (None, _has("not comparable")),
    ("Parser", "_slice_bound"): (1, _has("int(", "index out of range")),
    ("SliceSelector", "_check_range"): (None, _has("_int_index", "index out of range")),
    ("IndexSelector", "_normalized_index"): (None, _has("len(", "abs(")),
    ("JSONPatch", "_ensure_pointer"): (1, _has("JSONPointer(", "JSONPatchError")),
    ("JSONPatch", "_op_value"): (None, _has("missing", "KeyError")),
    ("JSONPatch", "_op_pointer"): (None, _has("JSONPointer", "missing")),
    ("JSONPatch", "_build"): (1, _has("'add'", "'remove'", "'replace'", "'move'")),
    ("JSONPatch", "_load"): (1, _has("json.load")),
    ("Query", "_select"): (None, _has("Projection.", "finditer(")),
    ("JSONPathEnvironment", "_lt"): (2, _has(" < ", "Decimal", "isinstance(")),
    ("JSONPathEnvironment", "_eq"): (2, _has("NodeList", "json_equal(", "UNDEFINED")),
    ("JSONPathEnvironment", "_contains"): (2, _has(" in ", "except TypeError")),
}


def _own_arity(node: ast.AST) -> int:
    a = node.args  # type: ignore[attr-defined]
    n = len(a.posonlyargs) + len(a.args) + len(a.kwonlyargs)
    decos = {ast.unparse(d).split(".")[-1] for d in getattr(node, "decorator_list", [])}
    inside_class = bool(a.args) and a.args[0].arg in ("self", "cls") and "staticmethod" not in decos
    return n - (1 if inside_class else 0)


def role_fillers(trees: Dict[str, ast.Module]) -> Dict[Tuple[str, str], Tuple[str, str]]:
    """On the trees as written (before helpers are inlined): for every anchor of ANCHOR_ROLES that is not there under its
    own name, the one private method of the class (or plain function of its module) that fits its role - as
    (class, anchor) -> (module name, function name).  A function fills at most one role; a role with several
    candidates stays unfilled."""
    out: Dict[Tuple[str, str], Tuple[str, str]] = {}
    taken: Set[str] = set()
    for modname, tree in trees.items():
        for c in [n for n in ast.walk(tree) if isinstance(n, ast.ClassDef)]:
            roles = [(k, v) for k, v in ANCHOR_ROLES.items() if k[0] == c.name]
            if not roles:
                continue
            own = {f.name: f for f in c.body if isinstance(f, (ast.FunctionDef, ast.AsyncFunctionDef))}
            bases = [b for n2 in ast.walk(tree) if isinstance(n2, ast.ClassDef) for b in [n2]
                     if any(isinstance(x, ast.Name) and x.id == b.name for x in c.bases)]
            inherited = {f.name: f for b in bases for f in b.body if isinstance(f, (ast.FunctionDef, ast.AsyncFunctionDef))}
            plain = {f.name: f for f in tree.body if isinstance(f, (ast.FunctionDef, ast.AsyncFunctionDef))}
            anchors_here = {m for (_c, m), _v in roles}
            for (cname, anchor), (arity, pred) in roles:
                if anchor in own or anchor in inherited:
                    continue
                def fits(f: ast.AST) -> bool:
                    if arity is not None and _own_arity(f) != arity:
                        return False
                    try:
                        return bool(pred(ast.unparse(f)))
                    except Exception:  # noqa: BLE001
                        return False
                for pool in (own, inherited, plain):
                    cands = [n for n, f in pool.items() if n.startswith("_") and not n.startswith("__") and n not in anchors_here
                             and f"{modname}.{n}" not in taken and fits(f)]
                    if len(cands) == 1:
                        out[(cname, anchor)] = (modname, cands[0])
                        taken.add(f"{modname}.{cands[0]}")
                        break
                    if cands:
                        break
    return out



ROLE_FILLERS: Dict[Tuple[str, str], Tuple[str, str]] = {}


class MethodTable(dict):  # type: ignore[type-arg]
    """The methods of a class by name; a private name that is not there is looked for by role (see ANCHOR_ROLES) among
    the class's other methods and, failing that, the plain functions of its module."""

    owner: "Optional[ClassInfo]" = None
    _resolving = False

    def _by_role(self, name: str):  # type: ignore[no-untyped-def]
        cls = self.owner
        if cls is None:
            return None
        filler = ROLE_FILLERS.get((cls.name, name))
        if filler is None:
            return None
        modname, fname = filler
        found = dict.get(self, fname)
        if found is None:
            found = cls.module.functions.get(fname) if cls.module.name == modname else None
        if found is not None:
            # findings about it are keyed by the name the rules (and known_findings.json) know the anchor by
            found.role_qualname = f"{cls.qualname}.{name}"  # type: ignore[attr-defined]
        return found

    def get(self, name, default=None):  # type: ignore[no-untyped-def,override]
        if dict.__contains__(self, name):
            return dict.__getitem__(self, name)
        found = self._by_role(name)
        return found if found is not None else default

    def __getitem__(self, name):  # type: ignore[no-untyped-def,override]
        if dict.__contains__(self, name):
            return dict.__getitem__(self, name)
        found = self._by_role(name)
        if found is None:
            raise KeyError(name)
        return found


@dataclass(eq=False)
class ClassInfo:
    qualname: str
    name: str
    node: ast.ClassDef
    module: "Module"
    base_names: List[str] = field(default_factory=list)  # resolved dotted names
    methods: Dict[str, FuncInfo] = field(default_factory=MethodTable)
    assigns: Dict[str, ast.expr] = field(default_factory=dict)
    annotations: Dict[str, ast.expr] = field(default_factory=dict)

    def __post_init__(self) -> None:
        if isinstance(self.methods, MethodTable):
            self.methods.owner = self

    def __repr__(self) -> str:  # pragma: no cover
        return f"<Class {self.qualname}>"


@dataclass(eq=False)
class Module:
    name: str
    path: Path
    relpath: str
    source: str
    tree: ast.Module
    classes: Dict[str, ClassInfo] = field(default_factory=dict)
    functions: Dict[str, FuncInfo] = field(default_factory=dict)
    assigns: Dict[str, ast.expr] = field(default_factory=dict)
    # local name -> (module name, attribute or None)
    imports: Dict[str, Tuple[str, Optional[str]]] = field(default_factory=dict)


class Repo:
    """All parsed modules of the package plus resolution helpers."""

    def __init__(self, root: Optional[Path] = None) -> None:
        self.root = Path(root) if root else repo_root()
        self.modules: Dict[str, Module] = {}
        self.classes: Dict[str, ClassInfo] = {}
        self.functions: Dict[str, FuncInfo] = {}
        self._mro_cache: Dict[str, List[str]] = {}
        self.inlined = 0
        self.inline_log: List[str] = []
        self._load()

    # ------------------------------------------------------------------ load
    def _load(self) -> None:
        pkg_dir = self.root / PKG
        if not pkg_dir.is_dir():
            raise AnalysisError(f"package directory {pkg_dir} not found")
        for path in sorted(pkg_dir.rglob("*.py")):
            rel = path.relative_to(self.root)
            parts = list(rel.with_suffix("").parts)
            if parts[-1] == "__init__":
                parts = parts[:-1]
            modname = ".".join(parts)
            source = path.read_text(encoding="utf-8")
            try:
                tree = ast.parse(source, filename=str(path))
            except SyntaxError as err:
                raise AnalysisError(f"cannot parse {rel}: {err}") from err
            mod = Module(
                name=modname,
                path=path,
                relpath=str(rel),
                source=source,
                tree=tree,
            )
            self.modules[modname] = mod
        self._canonical_attribute_names()
        ROLE_FILLERS.clear()
        ROLE_FILLERS.update(role_fillers({m.name: m.tree for m in self.modules.values()}))
        if not os.environ.get("VERIF_NO_CANON"):
            self._private_properties_as_methods()
            from .canon import Canon
            from .canon import mutable_attrs_of

            from . import canon as canon_mod

            canon_mod.DEFAULT_MUTABLE_ATTRS.clear()
            canon_mod.DEFAULT_MUTABLE_ATTRS.update(mutable_attrs_of(m.tree for m in self.modules.values()))
            canon = Canon(canon_mod.DEFAULT_MUTABLE_ATTRS)
            for mod in self.modules.values():
                try:
                    canon.tree(mod.tree)
                except RecursionError as err:  # pragma: no cover
                    raise AnalysisError(f"canonicaliser did not terminate on {mod.relpath}") from err
            from .inline import Inliner
            from .inline import known_functions

            keep = set(known_functions())
            for (cname_, _anchor), (modname_, fname_) in ROLE_FILLERS.items():
                keep.add(f"{modname_}.{cname_}.{fname_}")  # a renamed anchor is an anchor: it is not inlined away
                keep.add(f"{modname_}.{fname_}")
            inl = Inliner({m.name: m.tree for m in self.modules.values()}, keep)
            self.inlined = inl.run()
            self.inline_log = inl.log
            if self.inlined:
                for mod in self.modules.values():
                    canon.tree(mod.tree)
        for mod in self.modules.values():
            self._index_module(mod)
        for mod in self.modules.values():
            for cls in mod.classes.values():
                cls.base_names = [
                    self._resolve_base(mod, b) for b in cls.node.bases
                ]

    # (class, the name the rules know a private attribute by): what its constructor assigns to it
    ATTR_ROLES = {
        ("Query", "_it"): lambda text: text.startswith("iter("),
    }

    def _canonical_attribute_names(self) -> None:
        """A private attribute that the rules name (`Query._it`) may have been renamed: the attribute that the class's
        constructor initialises the way the role says is given its canonical name throughout its module (reads, writes,
        slots) - provided exactly one attribute fits and the canonical name is not in use."""
        for (cname, canonical), pred in self.ATTR_ROLES.items():
            for mod in self.modules.values():
                for c in [n for n in ast.walk(mod.tree) if isinstance(n, ast.ClassDef) and n.name == cname]:
                    inits = [f for n2 in ast.walk(mod.tree) if isinstance(n2, ast.ClassDef) and (n2 is c or any(
                        isinstance(b, ast.Name) and b.id == n2.name for b in c.bases)) for f in n2.body
                        if isinstance(f, ast.FunctionDef) and f.name == "__init__"]
                    fits = set()
                    for init in inits:
                        for n in ast.walk(init):
                            tgt = n.targets[0] if isinstance(n, ast.Assign) and len(n.targets) == 1 else (n.target if isinstance(n, ast.AnnAssign) and n.value is not None else None)
                            if isinstance(tgt, ast.Attribute) and isinstance(tgt.value, ast.Name) and tgt.value.id == "self" and pred(ast.unparse(n.value)):  # type: ignore[union-attr]
                                fits.add(tgt.attr)
                    if len(fits) != 1 or canonical in fits:
                        continue
                    old_name = next(iter(fits))
                    if not old_name.startswith("_") or any(isinstance(n, ast.Attribute) and n.attr == canonical for n in ast.walk(mod.tree)):
                        continue
                    for n in ast.walk(mod.tree):
                        if isinstance(n, ast.Attribute) and n.attr == old_name:
                            n.attr = canonical
                        elif isinstance(n, ast.Constant) and n.value == old_name:
                            n.value = canonical

    def _private_properties_as_methods(self) -> None:
        """P0 of the canonical form: a read-only property with a private name (`_tokens`) is the zero-argument method it
        wraps - `x._tokens` is `x._tokens()`.  Only for a name that is a property in exactly one class of the package,
        has no setter, is never assigned (as an attribute, a slot or a class-level name) and is never already called."""
        props: Dict[str, List[ast.FunctionDef]] = {}
        for mod in self.modules.values():
            for c in ast.walk(mod.tree):
                if isinstance(c, ast.ClassDef):
                    for f in c.body:
                        if isinstance(f, ast.FunctionDef) and f.name.startswith("_") and not f.name.startswith("__") \
                                and any(isinstance(d, ast.Name) and d.id == "property" for d in f.decorator_list) \
                                and len(f.decorator_list) == 1 and len(f.args.args) == 1:
                            props.setdefault(f.name, []).append(f)
        names = {n for n, fs in props.items() if len(fs) == 1}
        if not names:
            return
        for mod in self.modules.values():
            for n in ast.walk(mod.tree):
                if isinstance(n, ast.Attribute) and n.attr in names and isinstance(n.ctx, (ast.Store, ast.Del)):
                    names.discard(n.attr)
                elif isinstance(n, ast.Call) and isinstance(n.func, ast.Attribute) and n.func.attr in names:
                    names.discard(n.func.attr)
                elif isinstance(n, ast.ClassDef):
                    for st in n.body:
                        for t in (st.targets if isinstance(st, ast.Assign) else [st.target] if isinstance(st, ast.AnnAssign) else []):
                            if isinstance(t, ast.Name) and t.id in names:
                                names.discard(t.id)
                elif isinstance(n, ast.Constant) and isinstance(n.value, str) and n.value in names:
                    names.discard(n.value)  # (a slot, a getattr by name)
                elif isinstance(n, ast.FunctionDef) and n.name in names and not any(n is f for f in props[n.name]):
                    names.discard(n.name)
        if not names:
            return

        class _Call(ast.NodeTransformer):
            def visit_Attribute(self, node: ast.Attribute) -> ast.AST:
                self.generic_visit(node)
                if node.attr in names and isinstance(node.ctx, ast.Load):
                    return ast.copy_location(ast.Call(func=node, args=[], keywords=[]), node)
                return node

        for mod in self.modules.values():
            mod.tree = ast.fix_missing_locations(_Call().visit(mod.tree))
        for nm in names:
            props[nm][0].decorator_list = []

    def digest(self) -> str:
        h = hashlib.sha256()
        for name in sorted(self.modules):
            h.update(name.encode())
            h.update(self.modules[name].source.encode())
        return h.hexdigest()

    def _is_package(self, mod: Module) -> bool:
        return mod.path.name == "__init__.py"

    def _index_module(self, mod: Module) -> None:
        def handle_import(node: ast.stmt) -> None:
            if isinstance(node, ast.Import):
                for alias in node.names:
                    local = alias.asname or alias.name.split(".")[0]
                    target = alias.name if alias.asname else alias.name.split(".")[0]
                    mod.imports[local] = (target, None)
            elif isinstance(node, ast.ImportFrom):
                if node.level:
                    base = mod.name.split(".")
                    if not self._is_package(mod):
                        base = base[:-1]
                    if node.level > 1:
                        base = base[: -(node.level - 1)]
                    src = ".".join(base + ([node.module] if node.module else []))
                else:
                    src = node.module or ""
                for alias in node.names:
                    mod.imports[alias.asname or alias.name] = (src, alias.name)

        def walk_body(body: List[ast.stmt]) -> None:
            for node in body:
                if isinstance(node, (ast.Import, ast.ImportFrom)):
                    handle_import(node)
                elif isinstance(node, ast.If):
                    # `if TYPE_CHECKING:` blocks and friends: imports only.
                    walk_body(node.body)
                    walk_body(node.orelse)
                elif isinstance(node, ast.ClassDef):
                    self._index_class(mod, node)
                elif isinstance(node, (ast.FunctionDef, ast.AsyncFunctionDef)):
                    fn = FuncInfo(
                        qualname=f"{mod.name}.{node.name}",
                        name=node.name,
                        node=node,
                        module=mod,
                    )
                    mod.functions[node.name] = fn
                    self.functions[fn.qualname] = fn
                    self._index_nested(fn)
                elif isinstance(node, ast.Assign):
                    for t in node.targets:
                        if isinstance(t, ast.Name):
                            mod.assigns[t.id] = node.value
                elif isinstance(node, ast.AnnAssign):
                    if isinstance(node.target, ast.Name) and node.value is not None:
                        mod.assigns[node.target.id] = node.value

        walk_body(mod.tree.body)

    def _index_class(self, mod: Module, node: ast.ClassDef, prefix: str = "") -> None:
        qual = f"{mod.name}.{prefix}{node.name}"
        cls = ClassInfo(qualname=qual, name=node.name, node=node, module=mod)
        if not prefix:
            mod.classes[node.name] = cls
        self.classes[qual] = cls
        for item in node.body:
            if isinstance(item, (ast.FunctionDef, ast.AsyncFunctionDef)):
                fn = FuncInfo(
                    qualname=f"{qual}.{item.name}",
                    name=item.name,
                    node=item,
                    module=mod,
                    cls=cls,
                )
                # property setters etc. would overwrite; the package has none.
                cls.methods[item.name] = fn
                self.functions[fn.qualname] = fn
                self._index_nested(fn)
            elif isinstance(item, ast.Assign):
                for t in item.targets:
                    if isinstance(t, ast.Name):
                        cls.assigns[t.id] = item.value
            elif isinstance(item, ast.AnnAssign) and isinstance(item.target, ast.Name):
                cls.annotations[item.target.id] = item.annotation
                if item.value is not None:
                    cls.assigns[item.target.id] = item.value
            elif isinstance(item, ast.ClassDef):
                self._index_class(mod, item, prefix=f"{prefix}{node.name}.")

    def _index_nested(self, fn: FuncInfo) -> None:
        for sub in ast.walk(fn.node):
            if sub is fn.node:
                continue
            if isinstance(sub, (ast.FunctionDef, ast.AsyncFunctionDef)):
                q = f"{fn.qualname}.<locals>.{sub.name}"
                if q not in self.functions:
                    self.functions[q] = FuncInfo(
                        qualname=q,
                        name=sub.name,
                        node=sub,
                        module=fn.module,
                        cls=fn.cls,
                        parent=fn,
                    )

    # ------------------------------------------------------------ resolution
    def dotted(self, expr: ast.expr) -> Optional[str]:
        """`a.b.c` -> 'a.b.c' for Name/Attribute chains, else None."""
        parts: List[str] = []
        cur = expr
        while isinstance(cur, ast.Attribute):
            parts.append(cur.attr)
            cur = cur.value
        if isinstance(cur, ast.Name):
            parts.append(cur.id)
            return ".".join(reversed(parts))
        return None

    def resolve_global(
        self, mod: Module, name: str, _depth: int = 0
    ) -> Tuple[str, object]:
        """Resolve a (possibly dotted) global name as seen from module `mod`.

        Returns one of
          ("class", ClassInfo) ("func", FuncInfo) ("const", (Module, ast.expr))
          ("module", Module) ("ext", dotted_name)
        """
        if _depth > 8:
            return ("ext", name)
        head, _, rest = name.partition(".")
        # a submodule of a package, reached as an attribute of the package
        sub = f"{mod.name}.{head}"
        if (
            sub in self.modules
            and self._is_package(mod)
            and head not in mod.classes
            and head not in mod.functions
            and head not in mod.assigns
            and head not in mod.imports
        ):
            if not rest:
                return ("module", self.modules[sub])
            return self.resolve_global(self.modules[sub], rest, _depth + 1)
        if head in mod.classes:
            cls = mod.classes[head]
            if not rest:
                return ("class", cls)
            return ("classattr", (cls, rest))
        if head in mod.functions and not rest:
            return ("func", mod.functions[head])
        if head in mod.assigns and not rest:
            return ("const", (mod, mod.assigns[head]))
        if head in mod.imports:
            src, attr = mod.imports[head]
            if attr is None:
                # `import x` / `import x.y as z`
                full = src + ("." + rest if rest else "")
                if src in self.modules:
                    if not rest:
                        return ("module", self.modules[src])
                    return self.resolve_global(self.modules[src], rest, _depth + 1)
                # maybe 'jsonpath.pointer' style access through package import
                probe = full
                while probe:
                    if probe in self.modules:
                        remainder = full[len(probe) + 1 :]
                        if not remainder:
                            return ("module", self.modules[probe])
                        return self.resolve_global(
                            self.modules[probe], remainder, _depth + 1
                        )
                    probe = probe.rpartition(".")[0]
                return ("ext", full)
            # from src import attr
            sub = f"{src}.{attr}"
            if sub in self.modules:
                if not rest:
                    return ("module", self.modules[sub])
                return self.resolve_global(self.modules[sub], rest, _depth + 1)
            if src in self.modules:
                target = attr + ("." + rest if rest else "")
                return self.resolve_global(self.modules[src], target, _depth + 1)
            return ("ext", f"{src}.{attr}" + ("." + rest if rest else ""))
        return ("ext", name)

    def _resolve_base(self, mod: Module, expr: ast.expr) -> str:
        if isinstance(expr, ast.Subscript):  # Generic[T], List[X], Literal[bool]
            expr = expr.value
        d = self.dotted(expr)
        if d is None:
            return "<?>"
        kind, val = self.resolve_global(mod, d)
        if kind == "class":
            return val.qualname  # type: ignore[union-attr]
        if kind == "ext":
            name = str(val)
            # normalise well known externals
            tail = name.split(".")[-1]
            if name in ("json.JSONDecodeError", "re.error"):
                return name
            if tail in BUILTIN_EXC_PARENT:
                return tail
            if tail in ("List",):
                return "list"
            return tail
        return d

    def get_class(self, name: str) -> Optional[ClassInfo]:
        """Class by qualified name, or by bare name when unique."""
        if name in self.classes:
            return self.classes[name]
        hits = [c for c in self.classes.values() if c.name == name]
        if len(hits) == 1:
            return hits[0]
        return None

    def require_class(self, name: str) -> ClassInfo:
        c = self.get_class(name)
        if c is None:
            raise AnalysisError(f"anchor class {name!r} not found")
        return c

    def require_func(self, qualname: str) -> FuncInfo:
        """`Class.method`, `module.func` or fully qualified."""
        if qualname in self.functions:
            return self.functions[qualname]
        if "." in qualname:
            cname, _, m = qualname.rpartition(".")
            cls = self.get_class(cname)
            if cls is not None:
                fn = self.find_method(cls, m)
                if fn is not None:
                    return fn
            mod = self.modules.get(cname) or self.modules.get(f"{PKG}.{cname}")
            if mod and m in mod.functions:
                return mod.functions[m]
        raise AnalysisError(f"anchor function {qualname!r} not found")

    def get_func(self, qualname: str) -> Optional[FuncInfo]:
        try:
            return self.require_func(qualname)
        except AnalysisError:
            return None

    def mro(self, cls: Union[ClassInfo, str]) -> List[str]:
        """Linearised ancestors (qualified repo names or external names)."""
        name = cls.qualname if isinstance(cls, ClassInfo) else cls
        if name in self._mro_cache:
            return self._mro_cache[name]
        info = self.classes.get(name)
        if info is None:
            chain = [name]
            cur = BUILTIN_EXC_PARENT.get(name)
            while cur:
                chain.append(cur)
                cur = BUILTIN_EXC_PARENT.get(cur)
            self._mro_cache[name] = chain
            return chain
        seqs = [list(self.mro(b)) for b in info.base_names] + [list(info.base_names)]
        result = [name]
        seqs = [s for s in seqs if s]
        while seqs:
            for s in seqs:
                cand = s[0]
                if not any(cand in t[1:] for t in seqs):
                    break
            else:  # inconsistent hierarchy: fall back to simple order
                cand = seqs[0][0]
            result.append(cand)
            seqs = [[x for x in s if x != cand] for s in seqs]
            seqs = [s for s in seqs if s]
        self._mro_cache[name] = result
        return result

    def is_subclass(self, name: str, base: str) -> bool:
        """True if class `name` is `base` or derives from it (by any naming)."""
        c = self.get_class(name)
        b = self.get_class(base)
        cname = c.qualname if c else name
        bname = b.qualname if b else base
        return bname in self.mro(cname)

    def subclasses(self, base: Union[ClassInfo, str], strict: bool = False) -> List[ClassInfo]:
        bname = base.qualname if isinstance(base, ClassInfo) else base
        b = self.get_class(bname)
        bq = b.qualname if b else bname
        out = []
        for c in self.classes.values():
            if bq in self.mro(c):
                if strict and c.qualname == bq:
                    continue
                out.append(c)
        return out

    def find_method(self, cls: ClassInfo, name: str) -> Optional[FuncInfo]:
        for q in self.mro(cls):
            info = self.classes.get(q)
            if info and name in info.methods:
                return info.methods[name]
        # not there under that name: by role (a renamed or moved anchor, see ANCHOR_ROLES)
        filler = ROLE_FILLERS.get((cls.name, name))
        if filler is not None:
            for q in self.mro(cls):
                info = self.classes.get(q)
                if info is not None and dict.__contains__(info.methods, filler[1]):
                    found = dict.__getitem__(info.methods, filler[1])
                    found.role_qualname = f"{cls.qualname}.{name}"  # type: ignore[attr-defined]
                    return found
            fn = cls.module.functions.get(filler[1]) if cls.module.name == filler[0] else None
            if fn is not None:
                fn.role_qualname = f"{cls.qualname}.{name}"  # type: ignore[attr-defined]
                return fn
        return None

    def class_attr(self, cls: ClassInfo, name: str) -> Optional[Tuple[ClassInfo, ast.expr]]:
        for q in self.mro(cls):
            info = self.classes.get(q)
            if info and name in info.assigns:
                return info, info.assigns[name]
        return None

    def all_functions(self) -> Iterator[FuncInfo]:
        return iter(self.functions.values())


def norm(node: ast.AST) -> str:
    """Normalised source text of a node (used in construct keys)."""
    try:
        return ast.unparse(node)
    except Exception:  # pragma: no cover
        return ast.dump(node)


def short(node: ast.AST, n: int = 100) -> str:
    s = " ".join(norm(node).split())
    return s if len(s) <= n else s[: n - 3] + "..."
