"""Annotation-driven, flow-insensitive type inference (no type checker is
available in this sandbox, see DESIGN.md section 9).

A type is a set of class names (repo classes by qualified name, externals by
their short name), optionally with an element type (what iteration / integer
subscription yields), a key type (mappings) and a return type (callables).
`None` means unknown.
"""

from __future__ import annotations

import ast
from dataclasses import dataclass
from typing import Dict
from typing import FrozenSet
from typing import List
from typing import Optional
from typing import Tuple

from .consteval import BoundMethod
from .consteval import ClassRef
from .consteval import Folder
from .consteval import FuncRef
from .consteval import Instance
from .consteval import NotConst
from .consteval import Scope
from .loader import ClassInfo
from .loader import FuncInfo
from .loader import Module
from .loader import Repo


@dataclass(frozen=True)
class Ty:
    names: FrozenSet[str]
    elem: Optional["Ty"] = None
    key: Optional["Ty"] = None
    ret: Optional["Ty"] = None

    def __repr__(self) -> str:
        s = "|".join(sorted(n.split(".")[-1] for n in self.names))
        if self.elem is not None:
            s += f"[{self.elem!r}]"
        return s


def ty(*names: str, elem: Optional[Ty] = None, key: Optional[Ty] = None, ret: Optional[Ty] = None) -> Ty:
    return Ty(frozenset(names), elem, key, ret)


def join(a: Optional[Ty], b: Optional[Ty]) -> Optional[Ty]:
    if a is None or b is None:
        return a if b is None else b if a is None else None
    return Ty(
        a.names | b.names,
        join(a.elem, b.elem) if (a.elem and b.elem) else (a.elem or b.elem),
        join(a.key, b.key) if (a.key and b.key) else (a.key or b.key),
        join(a.ret, b.ret) if (a.ret and b.ret) else (a.ret or b.ret),
    )


_CONTAINERS = {
    "List": "list", "list": "list", "Sequence": "Sequence", "MutableSequence": "list",
    "Iterable": "Iterable", "Iterator": "Iterator", "AsyncIterable": "Iterable",
    "AsyncIterator": "Iterator", "Tuple": "tuple", "tuple": "tuple", "Set": "set",
    "FrozenSet": "frozenset", "Deque": "deque", "deque": "deque", "Collection": "Sequence",
    "Generator": "Iterator", "AsyncGenerator": "Iterator",
}
_MAPPINGS = {"Dict": "dict", "dict": "dict", "Mapping": "Mapping", "MutableMapping": "dict"}
_OPAQUE = {"Any", "object"}
_BUILTIN_NAMES = {"str": str, "int": int, "float": float, "bool": bool, "None": type(None),
                  "list": list, "tuple": tuple, "dict": dict, "bytes": bytes}
_STR_TO_STR = {
    "replace", "strip", "lstrip", "rstrip", "lower", "upper", "format", "join",
    "title", "capitalize", "decode", "removeprefix", "removesuffix",
}


class TypeEnv:
    def __init__(self, repo: Repo, folder: Folder) -> None:
        self.repo = repo
        self.folder = folder
        self._field_cache: Dict[Tuple[str, str], Optional[Ty]] = {}
        self._locals_cache: Dict[str, Dict[str, Optional[Ty]]] = {}
        self._in_progress: set = set()

    # ---------------------------------------------------------- annotations
    def ann(self, mod: Module, e: Optional[ast.expr], self_cls: Optional[ClassInfo] = None) -> Optional[Ty]:  # noqa: PLR0911, PLR0912
        if e is None:
            return None
        if isinstance(e, ast.Constant):
            if e.value is None:
                return ty("None")
            if isinstance(e.value, str):
                try:
                    return self.ann(mod, ast.parse(e.value, mode="eval").body, self_cls)
                except SyntaxError:
                    return None
            return None
        if isinstance(e, ast.BinOp) and isinstance(e.op, ast.BitOr):
            return join(self.ann(mod, e.left, self_cls), self.ann(mod, e.right, self_cls))
        if isinstance(e, ast.Subscript):
            base = self.repo.dotted(e.value)
            head = base.split(".")[-1] if base else None
            args = list(e.slice.elts) if isinstance(e.slice, ast.Tuple) else [e.slice]
            if head in ("Optional",):
                return join(self.ann(mod, args[0], self_cls), ty("None"))
            if head == "Union":
                out: Optional[Ty] = None
                first = True
                for a in args:
                    t = self.ann(mod, a, self_cls)
                    if t is None:
                        return None
                    out = t if first else join(out, t)
                    first = False
                return out
            if head in _CONTAINERS:
                elems = [a for a in args if not (isinstance(a, ast.Constant) and a.value is Ellipsis)]
                et: Optional[Ty] = None
                for i, a in enumerate(elems):
                    t = self.ann(mod, a, self_cls)
                    et = t if i == 0 else (join(et, t) if (et and t) else None)
                return Ty(frozenset({_CONTAINERS[head]}), et)
            if head in _MAPPINGS:
                k = self.ann(mod, args[0], self_cls) if args else None
                v = self.ann(mod, args[1], self_cls) if len(args) > 1 else None
                return Ty(frozenset({_MAPPINGS[head]}), v, k)
            if head == "Type":
                inner = self.ann(mod, args[0], self_cls)
                if inner is None:
                    return None
                return Ty(frozenset("type:" + n for n in inner.names))
            if head == "Callable":
                r = self.ann(mod, args[-1], self_cls) if args else None
                return Ty(frozenset({"callable"}), ret=r)
            if head in ("Pattern", "Match"):
                return ty("re." + head)
            # Generic[...] user classes: Literal[bool] -> Literal
            return self.ann(mod, e.value, self_cls)
        d = self.repo.dotted(e)
        if d is None:
            return None
        tail = d.split(".")[-1]
        if tail in _OPAQUE:
            return None
        kind, val = self.repo.resolve_global(mod, d)
        if kind == "class":
            return ty(val.qualname)  # type: ignore[union-attr]
        if kind == "const":
            # alias such as `FilterContextVars = Mapping[str, Any]` or a TypeVar
            m, expr = val  # type: ignore[misc]
            if isinstance(expr, ast.Call) and self.repo.dotted(expr.func) in ("TypeVar", "typing.TypeVar"):
                for k in expr.keywords:
                    if k.arg == "bound":
                        return self.ann(m, k.value, self_cls)
                if self_cls is not None and tail == "Self":
                    return ty(self_cls.qualname)
                return None
            return self.ann(m, expr, self_cls)
        if tail in _CONTAINERS:
            return ty(_CONTAINERS[tail])
        if tail in _MAPPINGS:
            return ty(_MAPPINGS[tail])
        if tail in ("str", "int", "float", "bool", "bytes", "IOBase", "Token"):
            return ty(tail)
        if tail in ("Pattern", "Match"):
            return ty("re." + tail)
        if tail == "Namespace":
            return ty("argparse.Namespace")
        return ty(tail)

    # --------------------------------------------------------------- fields
    def field_type(self, cls: ClassInfo, attr: str) -> Optional[Ty]:
        key = (cls.qualname, attr)
        if key in self._field_cache:
            return self._field_cache[key]
        if key in self._in_progress:
            return None
        self._in_progress.add(key)
        try:
            t = self._field_type(cls, attr)
        finally:
            self._in_progress.discard(key)
        self._field_cache[key] = t
        return t

    def _field_type(self, cls: ClassInfo, attr: str) -> Optional[Ty]:
        for q in self.repo.mro(cls):
            info = self.repo.classes.get(q)
            if info is None:
                continue
            if attr in info.annotations:
                t = self.ann(info.module, info.annotations[attr], info)
                if t is not None:
                    return t
            # property
            m = info.methods.get(attr)
            if m is not None and _is_property(m):
                return self.ann(m.module, m.node.returns, info)
            # assignments self.attr = ... in any method of this class
            found: Optional[Ty] = None
            seen = False
            for meth in info.methods.values():
                for node in ast.walk(meth.node):
                    targets: List[ast.expr] = []
                    value: Optional[ast.expr] = None
                    annot: Optional[ast.expr] = None
                    if isinstance(node, ast.Assign):
                        targets, value = node.targets, node.value
                    elif isinstance(node, ast.AnnAssign):
                        targets, value, annot = [node.target], node.value, node.annotation
                    for tg in targets:
                        elts = tg.elts if isinstance(tg, ast.Tuple) else [tg]
                        for el in elts:
                            if (
                                isinstance(el, ast.Attribute)
                                and isinstance(el.value, ast.Name)
                                and el.value.id == "self"
                                and el.attr == attr
                            ):
                                seen = True
                                t: Optional[Ty] = None
                                if annot is not None:
                                    t = self.ann(meth.module, annot, info)
                                elif value is not None and not isinstance(tg, ast.Tuple):
                                    t = self.expr_type(meth, value)
                                elif value is not None and isinstance(tg, ast.Tuple):
                                    pos = self._tuple_positions(meth, value, self.local_types(meth))
                                    idx = tg.elts.index(el)
                                    if pos and idx < len(pos):
                                        t = pos[idx]
                                if t is not None:
                                    found = join(found, t) if found else t
            if seen:
                return found
            if attr in info.assigns:
                try:
                    v = self.folder.eval(info.assigns[attr], Scope(self.folder, info.module, info))
                    t2 = self.value_type(v)
                    if t2 is not None:
                        return t2
                except NotConst:
                    pass
                return self.expr_type_in_module(info.module, info.assigns[attr], info)
        return None

    def value_type(self, v: object) -> Optional[Ty]:  # noqa: PLR0911
        if isinstance(v, bool):
            return ty("bool")
        if isinstance(v, int):
            return ty("int")
        if isinstance(v, float):
            return ty("float")
        if isinstance(v, str):
            return ty("str")
        if v is None:
            return ty("None")
        if isinstance(v, ClassRef):
            return ty("type:" + v.cls.qualname)
        if isinstance(v, Instance):
            return ty(v.cls.qualname)
        if isinstance(v, (list, tuple, set, frozenset)):
            et: Optional[Ty] = None
            for i, x in enumerate(v):
                t = self.value_type(x)
                et = t if i == 0 else (join(et, t) if (et and t) else None)
            return Ty(frozenset({type(v).__name__}), et)
        if isinstance(v, dict):
            kt: Optional[Ty] = None
            vt: Optional[Ty] = None
            for i, (k, x) in enumerate(v.items()):
                a, b = self.value_type(k), self.value_type(x)
                kt = a if i == 0 else (join(kt, a) if (kt and a) else None)
                vt = b if i == 0 else (join(vt, b) if (vt and b) else None)
            return Ty(frozenset({"dict"}), vt, kt)
        return None

    # --------------------------------------------------------------- locals
    def local_types(self, fn: FuncInfo) -> Dict[str, Optional[Ty]]:
        if fn.qualname in self._locals_cache:
            return self._locals_cache[fn.qualname]
        env: Dict[str, Optional[Ty]] = {}
        self._locals_cache[fn.qualname] = env
        if fn.parent is not None:
            env.update(self.local_types(fn.parent))
        a = fn.node.args
        allargs = a.posonlyargs + a.args + a.kwonlyargs
        for i, arg in enumerate(allargs):
            if i == 0 and fn.cls is not None and arg.arg in ("self",) and fn.parent is None:
                env[arg.arg] = ty(fn.cls.qualname)
            elif i == 0 and fn.cls is not None and arg.arg == "cls" and fn.parent is None:
                env[arg.arg] = ty("type:" + fn.cls.qualname)
            else:
                env[arg.arg] = self.ann(fn.module, arg.annotation, fn.cls)
                if fn.name == "__call__" and fn.module.name.startswith("jsonpath.function_extensions") and env[arg.arg] is not None and not (
                        env[arg.arg].names & {"NodeList", "jsonpath.match.NodeList"}):
                    # an argument of a filter function is whatever the query and the document supply: the
                    # annotation of a value-typed parameter (`t: str`) is a wish, nothing enforces it
                    env[arg.arg] = None
        if a.vararg:
            et = self.ann(fn.module, a.vararg.annotation, fn.cls)
            env[a.vararg.arg] = Ty(frozenset({"tuple"}), et)
        if a.kwarg:
            env[a.kwarg.arg] = ty("dict")
        # two passes so that later definitions reach earlier uses in loops
        for _ in range(2):
            for node in _own_walk(fn.node):
                if isinstance(node, ast.Assign):
                    t = self.expr_type(fn, node.value, env)
                    for tg in node.targets:
                        self._bind(fn, tg, t, node.value, env)
                elif isinstance(node, ast.AnnAssign) and isinstance(node.target, ast.Name):
                    t = self.ann(fn.module, node.annotation, fn.cls)
                    if t is None and node.value is not None:
                        t = self.expr_type(fn, node.value, env)
                    self._set(env, node.target.id, t)
                elif isinstance(node, (ast.For, ast.AsyncFor)):
                    self._bind_iter(fn, node.target, node.iter, env)
                elif isinstance(node, ast.comprehension):
                    self._bind_iter(fn, node.target, node.iter, env)
                elif isinstance(node, ast.ExceptHandler) and node.name and node.type is not None:
                    names = node.type.elts if isinstance(node.type, ast.Tuple) else [node.type]
                    t = None
                    for i, n in enumerate(names):
                        tt = self.ann(fn.module, n, fn.cls)
                        t = tt if i == 0 else (join(t, tt) if (t and tt) else None)
                    self._set(env, node.name, t)
                elif isinstance(node, (ast.With, ast.AsyncWith)):
                    for item in node.items:
                        if isinstance(item.optional_vars, ast.Name):
                            self._set(env, item.optional_vars.id, self.expr_type(fn, item.context_expr, env))
                elif isinstance(node, ast.NamedExpr) and isinstance(node.target, ast.Name):
                    self._set(env, node.target.id, self.expr_type(fn, node.value, env))
        return env

    def _set(self, env: Dict[str, Optional[Ty]], name: str, t: Optional[Ty]) -> None:
        if name in env and env[name] is not None and t is not None:
            env[name] = join(env[name], t)
        elif name not in env or env[name] is None:
            env[name] = t

    def _bind(self, fn: FuncInfo, target: ast.expr, t: Optional[Ty], value: Optional[ast.expr], env: Dict[str, Optional[Ty]]) -> None:
        if isinstance(target, ast.Name):
            self._set(env, target.id, t)
        elif isinstance(target, (ast.Tuple, ast.List)):
            if isinstance(value, (ast.Tuple, ast.List)) and len(value.elts) == len(target.elts):
                for tg, v in zip(target.elts, value.elts):
                    self._bind(fn, tg, self.expr_type(fn, v, env), v, env)
            else:
                # unpacking a call result typed Tuple[A, B, ...] loses positions;
                # use return annotation positions when available
                pos = self._tuple_positions(fn, value, env) if value is not None else None
                # unpacking a homogeneous sequence (`_, *tokens = s.split("/")`): every plain target gets the
                # element type, a starred target a list of it
                elem = t.elem if (t is not None and getattr(t, "elem", None) is not None and not pos) else None
                for i, tg in enumerate(target.elts):
                    if elem is not None and isinstance(tg, ast.Starred):
                        self._bind(fn, tg.value, Ty(frozenset({"list"}), elem), None, env)
                    elif elem is not None:
                        self._bind(fn, tg, elem, None, env)
                    else:
                        self._bind(fn, tg, pos[i] if pos and i < len(pos) else None, None, env)

    def _tuple_positions(self, fn: FuncInfo, value: ast.expr, env: Dict[str, Optional[Ty]]) -> Optional[List[Optional[Ty]]]:
        if isinstance(value, ast.Await):
            value = value.value
        if isinstance(value, ast.Call):
            for callee in self.resolve_call_simple(fn, value, env):
                r = callee.node.returns
                if isinstance(r, ast.Subscript) and self.repo.dotted(r.value) in ("Tuple", "tuple", "typing.Tuple"):
                    args = list(r.slice.elts) if isinstance(r.slice, ast.Tuple) else [r.slice]
                    return [self.ann(callee.module, a, callee.cls) for a in args]
        return None

    def _bind_iter(self, fn: FuncInfo, target: ast.expr, it: ast.expr, env: Dict[str, Optional[Ty]]) -> None:
        if isinstance(it, ast.Await):
            it = it.value
        if isinstance(it, ast.Call):
            f = it.func
            fname = f.id if isinstance(f, ast.Name) else getattr(f, "attr", None)
            if fname == "enumerate" and isinstance(target, ast.Tuple) and len(target.elts) == 2 and it.args:
                self._bind(fn, target.elts[0], ty("int"), None, env)
                inner = self.expr_type(fn, it.args[0], env)
                self._bind(fn, target.elts[1], inner.elem if inner else None, None, env)
                return
            if fname == "items" and isinstance(f, ast.Attribute) and isinstance(target, ast.Tuple) and len(target.elts) == 2:
                recv = self.expr_type(fn, f.value, env)
                self._bind(fn, target.elts[0], recv.key if recv else None, None, env)
                self._bind(fn, target.elts[1], recv.elem if recv else None, None, env)
                return
            if fname == "zip" and isinstance(target, ast.Tuple) and len(target.elts) == len(it.args):
                for tg, a in zip(target.elts, it.args):
                    at = self.expr_type(fn, a, env)
                    self._bind(fn, tg, at.elem if at else None, None, env)
                return
        if isinstance(target, (ast.Tuple, ast.List)) and all(isinstance(x, ast.Name) for x in target.elts) and isinstance(it, (ast.Name, ast.Attribute)):
            # rows of a constant table (`for infinity, text in self._OUT_OF_RANGE`): the type of each column
            try:
                loc = {"self": Instance(fn.cls)} if fn.cls is not None else {}
                rows = self.folder.eval(it, Scope(self.folder, fn.module, fn.cls, loc))
            except Exception:  # noqa: BLE001
                rows = None
            if isinstance(rows, (tuple, list)) and rows and all(isinstance(r, (tuple, list)) and len(r) == len(target.elts) for r in rows):
                for k, tg in enumerate(target.elts):
                    col: Optional[Ty] = None
                    for i, r in enumerate(rows):
                        tv = self.value_type(r[k])
                        col = tv if i == 0 else (join(col, tv) if (col and tv) else None)
                    self._set(env, tg.id, col)  # type: ignore[attr-defined]
                return
        t = self.expr_type(fn, it, env)
        elem = t.elem if t else None
        if isinstance(target, ast.Name):
            self._set(env, target.id, elem)
        elif isinstance(target, (ast.Tuple, ast.List)):
            # element is itself a tuple type: positions unknown -> use its elem union
            for tg in target.elts:
                if isinstance(tg, ast.Name):
                    self._set(env, tg.id, elem.elem if elem else None)

    # ---------------------------------------------------------- expressions
    def expr_type_in_module(self, mod: Module, e: ast.expr, cls: Optional[ClassInfo]) -> Optional[Ty]:
        fake = FuncInfo(qualname=f"{mod.name}.<module>", name="<module>",
                        node=ast.parse("def _m(): pass").body[0], module=mod, cls=cls)  # type: ignore[arg-type]
        return self.expr_type(fake, e, {})

    def expr_type(self, fn: FuncInfo, e: Optional[ast.expr], env: Optional[Dict[str, Optional[Ty]]] = None) -> Optional[Ty]:  # noqa: PLR0911, PLR0912
        if e is None:
            return None
        if env is None:
            env = self.local_types(fn)
        if isinstance(e, (ast.Await, ast.NamedExpr)):
            return self.expr_type(fn, e.value, env)
        if isinstance(e, ast.Constant):
            return self.value_type(e.value)
        if isinstance(e, ast.JoinedStr):
            return ty("str")
        if isinstance(e, ast.Name):
            if e.id in env:
                return env[e.id]
            kind, val = self.repo.resolve_global(fn.module, e.id)
            if kind == "class":
                return ty("type:" + val.qualname)  # type: ignore[union-attr]
            if kind == "module":
                return ty("module:" + val.name)  # type: ignore[union-attr]
            if kind == "func":
                f = val  # FuncInfo
                return Ty(frozenset({"func:" + f.qualname}), ret=self.ann(f.module, f.node.returns, f.cls))  # type: ignore[union-attr]
            if kind == "const":
                m, expr = val  # type: ignore[misc]
                try:
                    v = self.folder.eval(expr, Scope(self.folder, m))
                    t = self.value_type(v)
                    if t is not None:
                        return t
                except NotConst:
                    pass
                return self.expr_type_in_module(m, expr, None)
            if kind == "ext":
                return ty("ext:" + str(val))
            return None
        if isinstance(e, ast.Attribute):
            base = self.expr_type(fn, e.value, env)
            if base is None:
                # attributes of `re.Match` objects (the only standard-library objects whose type the engine
                # does not derive): `lastgroup` is a group name or None
                if e.attr == "lastgroup":
                    return Ty(frozenset({"str", "None"}))
                return None
            out: Optional[Ty] = None
            first = True
            for n in base.names:
                t: Optional[Ty] = None
                if n.startswith("module:"):
                    mod = self.repo.modules.get(n[7:])
                    if mod is not None:
                        fake = FuncInfo(qualname="", name="", node=fn.node, module=mod)
                        t = self.expr_type(fake, ast.Name(id=e.attr, ctx=ast.Load()), {})
                elif n.startswith("type:"):
                    cls = self.repo.classes.get(n[5:])
                    if cls is not None:
                        m = self.repo.find_method(cls, e.attr)
                        if m is not None:
                            t = Ty(frozenset({"func:" + m.qualname}), ret=self.ann(m.module, m.node.returns, cls))
                        else:
                            t = self.field_type(cls, e.attr)
                elif n.startswith("ext:"):
                    t = ty(f"ext:{n[4:]}.{e.attr}")
                elif n.startswith("super:"):
                    # `super().method`: the method of the next class of the MRO that defines it
                    cur = self.repo.classes.get(n[6:])
                    if cur is not None:
                        mro = list(self.repo.mro(cur))
                        for q in mro[mro.index(cur.qualname) + 1:] if cur.qualname in mro else []:
                            info = self.repo.classes.get(q)
                            if info is not None and e.attr in info.methods:
                                m = info.methods[e.attr]
                                t = Ty(frozenset({"func:" + m.qualname}), ret=self.ann(m.module, m.node.returns, info))
                                break
                else:
                    cls = self.repo.classes.get(n)
                    if cls is not None:
                        m = self.repo.find_method(cls, e.attr)
                        if m is not None and not _is_property(m):
                            t = Ty(frozenset({"func:" + m.qualname}), ret=self.ann(m.module, m.node.returns, cls))
                        else:
                            t = self.field_type(cls, e.attr)
                    elif n == "re.Pattern" and e.attr == "pattern":
                        t = ty("str")
                    elif n in _BUILTIN_NAMES and not hasattr(_BUILTIN_NAMES[n], e.attr):
                        # e.g. `Union[JSONPointer, str]`: `.parts` exists on the repo class only
                        continue
                if t is None:
                    return None
                out = t if first else join(out, t)
                first = False
            return out
        if isinstance(e, ast.Call):
            return self._call_type(fn, e, env)
        if isinstance(e, ast.Subscript):
            base = self.expr_type(fn, e.value, env)
            if base is None:
                return None
            if isinstance(e.slice, ast.Slice):
                return base
            return base.elem
        if isinstance(e, (ast.List, ast.Tuple, ast.Set)):
            et: Optional[Ty] = None
            for i, x in enumerate(e.elts):
                t2 = self.expr_type(fn, x.value if isinstance(x, ast.Starred) else x, env)
                if isinstance(x, ast.Starred):
                    t2 = t2.elem if t2 else None
                et = t2 if i == 0 else (join(et, t2) if (et and t2) else None)
            name = {ast.List: "list", ast.Tuple: "tuple", ast.Set: "set"}[type(e)]
            return Ty(frozenset({name}), et)
        if isinstance(e, (ast.ListComp, ast.GeneratorExp, ast.SetComp)):
            inner = dict(env)
            for g in e.generators:
                self._bind_iter(fn, g.target, g.iter, inner)
            return Ty(frozenset({"list"}), self.expr_type(fn, e.elt, inner))
        if isinstance(e, ast.Dict):
            return ty("dict")
        if isinstance(e, ast.IfExp):
            a, b = self.expr_type(fn, e.body, env), self.expr_type(fn, e.orelse, env)
            return join(a, b) if (a and b) else None
        if isinstance(e, ast.BoolOp):
            out2: Optional[Ty] = None
            for i, v in enumerate(e.values):
                t3 = self.expr_type(fn, v, env)
                if t3 is None:
                    return None
                out2 = t3 if i == 0 else join(out2, t3)
            return out2
        if isinstance(e, ast.BinOp):
            a = self.expr_type(fn, e.left, env)
            b = self.expr_type(fn, e.right, env)
            if a and b and a.names == b.names:
                return join(a, b)
            if a and "str" in a.names and isinstance(e.op, (ast.Mod, ast.Add)):
                return ty("str")
            return a if isinstance(e.op, ast.Add) else None
        if isinstance(e, (ast.Compare,)) or (isinstance(e, ast.UnaryOp) and isinstance(e.op, ast.Not)):
            return ty("bool")
        if isinstance(e, ast.UnaryOp):
            return self.expr_type(fn, e.operand, env)
        return None

    def _call_type(self, fn: FuncInfo, e: ast.Call, env: Dict[str, Optional[Ty]]) -> Optional[Ty]:  # noqa: PLR0911, PLR0912
        f = e.func
        fname = f.id if isinstance(f, ast.Name) else getattr(f, "attr", None)
        if isinstance(f, ast.Name) and f.id not in env:
            if fname in ("str", "repr"):
                return ty("str")
            if fname in ("int", "len", "abs", "hash"):
                return ty("int")
            if fname == "float":
                return ty("float")
            if fname == "slice":
                return ty("slice")
            if fname == "range":
                return Ty(frozenset({"range"}), ty("int"))
            if fname in ("bool", "isinstance", "hasattr", "callable", "any", "all"):
                return ty("bool")
            if fname in ("list", "tuple", "sorted", "set", "frozenset", "iter", "reversed", "deque") and e.args:
                inner = self.expr_type(fn, e.args[0], env)
                name = {"sorted": "list", "iter": "Iterator", "reversed": "Iterator"}.get(fname, fname)
                return Ty(frozenset({name}), inner.elem if inner else None)
            if fname in ("sum", "min", "max") and len(e.args) == 1 and not e.keywords:
                # numbers in, a number out (`sum(1 for p in params if ...)`): the sum of nothing is the int 0
                inner = self.expr_type(fn, e.args[0], env)
                el = inner.elem if inner else None
                if el is not None and el.names and el.names <= {"int", "bool"}:
                    return ty("int")
                if el is not None and el.names and el.names <= {"int", "bool", "float"}:
                    return Ty(frozenset({"int", "float"})) if fname == "sum" else el
                return None
            if fname == "next" and e.args:
                inner = self.expr_type(fn, e.args[0], env)
                return inner.elem if inner else None
            if fname == "super":
                if fn.cls is not None:
                    return ty("super:" + fn.cls.qualname)
                return None
            if fname == "partial" and e.args:
                t = self.expr_type(fn, e.args[0], env)
                if t is not None:
                    inst = [n[5:] for n in t.names if n.startswith("type:")]
                    if inst:
                        return Ty(frozenset("ctor:" + i for i in inst), ret=Ty(frozenset(inst)))
                    return t
                return None
        if isinstance(f, ast.Attribute):
            rt = self.expr_type(fn, f.value, env)
            if rt is not None and rt.names <= {"dict", "Mapping"} and f.attr == "get":
                dflt = self.expr_type(fn, e.args[1], env) if len(e.args) > 1 else ty("None")
                if rt.elem is not None and dflt is not None:
                    return join(rt.elem, dflt)
                return None
            if rt is not None and rt.names <= {"str", "bytes"}:
                if f.attr in _STR_TO_STR:
                    return ty("str")
                if f.attr in ("split", "rsplit", "splitlines"):
                    return Ty(frozenset({"list"}), ty("str"))
                if f.attr in ("startswith", "endswith", "isdigit", "isascii", "isdecimal"):
                    return ty("bool")
                if f.attr in ("count", "find", "rfind", "index"):
                    return ty("int")
                if f.attr == "encode":
                    return ty("bytes")
                return None
            if rt is None and f.attr == "encode" and not isinstance(f.value, ast.Name):
                return ty("bytes")  # (of the values this package handles only text has `.encode(...)`)
            if rt is None and f.attr == "decode" and not (isinstance(f.value, ast.Name) and f.value.id in ("codecs", "json", "base64")):
                return ty("str")    # (`<bytes>.decode(...)`)
            if isinstance(f.value, ast.Name) and f.value.id == "codecs" and f.attr == "decode" and len(e.args) >= 2 and isinstance(e.args[1], ast.Constant) \
                    and str(e.args[1].value).replace("_", "-") == "unicode-escape":
                return ty("str")
        ft = self.expr_type(fn, f, env)
        if ft is None:
            return None
        out: Optional[Ty] = None
        first = True
        for n in ft.names:
            t: Optional[Ty]
            if n.startswith("ctor:"):
                t = ty(n[5:])
            elif n.startswith("type:"):
                t = ty(n[5:])
            elif n.startswith("func:") or n == "callable":
                t = ft.ret
            elif n.startswith("ext:"):
                ext = n[4:]
                t = {
                    "re.compile": ty("re.Pattern"),
                    "json.dumps": ty("str"),
                    "codecs.decode": ty("str"),
                    "urllib.parse.unquote": ty("str"),
                    "re.escape": ty("str"),
                }.get(ext)
                if ext in ("itertools.chain", "itertools.islice") and e.args:
                    inner = self.expr_type(fn, e.args[0], env)
                    t = Ty(frozenset({"Iterator"}), inner.elem if inner else None)
            else:
                # calling an instance: __call__
                cls = self.repo.classes.get(n)
                t = None
                if cls is not None:
                    m = self.repo.find_method(cls, "__call__")
                    if m is not None:
                        t = self.ann(m.module, m.node.returns, cls)
            if t is None:
                return None
            out = t if first else join(out, t)
            first = False
        # self-returning builders keep the receiver type
        return out

    def resolve_call_simple(self, fn: FuncInfo, e: ast.Call, env: Dict[str, Optional[Ty]]) -> List[FuncInfo]:
        ft = self.expr_type(fn, e.func, env)
        out: List[FuncInfo] = []
        if ft is None:
            return out
        for n in ft.names:
            if n.startswith("func:") and n[5:] in self.repo.functions:
                out.append(self.repo.functions[n[5:]])
        return out


def _is_property(m: FuncInfo) -> bool:
    for d in m.node.decorator_list:
        if isinstance(d, ast.Name) and d.id == "property":
            return True
        if isinstance(d, ast.Attribute) and d.attr in ("getter",):
            return True
    return False


def is_property(m: FuncInfo) -> bool:
    return _is_property(m)


def _own_walk(fn_node: ast.AST):  # type: ignore[no-untyped-def]
    """Walk a function without descending into nested function definitions, in
    source order."""
    for child in ast.iter_child_nodes(fn_node):
        if isinstance(child, (ast.FunctionDef, ast.AsyncFunctionDef, ast.ClassDef)):
            continue
        yield child
        yield from _own_walk(child)
