"""A static model of the lexer: the ordered rule table folded from
`Lexer.compile_rules`, and the mapping "emitted token kind -> language of its
value" read off the branch structure of `Lexer.tokenize`.

The model *interprets the grammar table extracted from the source*; it never
runs the lexer.
"""

from __future__ import annotations

import ast
import re
from dataclasses import dataclass
from typing import Dict
from typing import List
from typing import Optional
from typing import Set
from typing import Tuple

from . import regexast
from .consteval import Folder
from .consteval import Instance
from .consteval import NotConst
from .consteval import RegexConst
from .consteval import Scope
from .loader import AnalysisError
from .loader import Repo


@dataclass
class Emit:
    kind: str  # emitted token kind (constant string)
    rule: str  # lexer rule that matched
    group: Optional[str]  # named group the value is taken from (None = whole match)
    or_empty: bool = False


class LexerModel:
    def __init__(self, repo: Repo, folder: Folder, env_overrides: Optional[Dict[str, str]] = None) -> None:
        self.repo = repo
        self.folder = folder
        lex = repo.require_class("Lexer")
        self.cls = lex
        inst = Instance(lex)
        if env_overrides:
            envc = repo.require_class("JSONPathEnvironment")
            inst.overrides["env"] = Instance(envc, dict(env_overrides))
        fn = repo.require_func("Lexer.compile_rules")
        self.compile_fn = fn
        try:
            master = folder.eval_function_return(fn, {"self": inst})
            # also fold the local `rules` list for the ordered table
            scope_locals = self._fold_locals(fn, inst)
        except NotConst as err:
            raise AnalysisError(f"Lexer.compile_rules cannot be folded: {err}") from err
        if not isinstance(master, RegexConst):
            raise AnalysisError("Lexer.compile_rules does not return a compiled pattern")
        self.master = master
        rules = scope_locals.get("rules")
        if not isinstance(rules, list) or not all(
            isinstance(r, tuple) and len(r) == 2 and all(isinstance(x, str) for x in r)
            for r in rules
        ):
            raise AnalysisError("Lexer.compile_rules: local `rules` is not a list of (token, pattern)")
        self.rules: List[Tuple[str, str]] = rules
        self.env_tokens = scope_locals.get("env_tokens")
        self.emits: List[Emit] = []
        self.skipped: Set[str] = set()
        self.illegal: Set[str] = set()
        self._parse_tokenize()

    def _fold_locals(self, fn, inst):  # type: ignore[no-untyped-def]
        scope = Scope(self.folder, fn.module, fn.cls, {"self": inst})
        for stmt in fn.node.body:
            if isinstance(stmt, ast.Assign) and len(stmt.targets) == 1 and isinstance(stmt.targets[0], ast.Name):
                scope.locals[stmt.targets[0].id] = self.folder.eval(stmt.value, scope)
        return scope.locals

    # ------------------------------------------------------------ tokenize
    def _const(self, fn, e: ast.expr) -> Optional[str]:  # type: ignore[no-untyped-def]
        try:
            v = self.folder.eval(e, Scope(self.folder, fn.module, fn.cls))
        except NotConst:
            return None
        return v if isinstance(v, str) else None

    def _cond_rules(self, fn, test: ast.expr) -> Optional[List[str]]:  # type: ignore[no-untyped-def]
        if isinstance(test, ast.Compare) and len(test.ops) == 1 and isinstance(test.left, ast.Name) and test.left.id == "kind":
            comp = test.comparators[0]
            if isinstance(test.ops[0], ast.Eq):
                c = self._const(fn, comp)
                return [c] if c is not None else None
            if isinstance(test.ops[0], ast.In) and isinstance(comp, (ast.Tuple, ast.List, ast.Set)):
                out = [self._const(fn, x) for x in comp.elts]
                if all(o is not None for o in out):
                    return out  # type: ignore[return-value]
        return None

    def _parse_tokenize(self) -> None:
        fn = self.repo.require_func("Lexer.tokenize")
        loops = [n for n in fn.node.body if isinstance(n, ast.For)]
        if len(loops) != 1:
            raise AnalysisError("Lexer.tokenize: expected one loop over the rule matches")
        loop = loops[0]
        chain = [s for s in loop.body if isinstance(s, ast.If)]
        if len(chain) != 1:
            raise AnalysisError("Lexer.tokenize: expected one if/elif dispatch on the rule kind")
        all_rules = [r for r, _ in self.rules]
        seen: Set[str] = set()
        node: Optional[ast.stmt] = chain[0]
        while isinstance(node, ast.If):
            rules = self._cond_rules(fn, node.test)
            if rules is None:
                raise AnalysisError(f"Lexer.tokenize: unrecognised dispatch test `{ast.unparse(node.test)}`")
            self._branch(fn, node.body, rules)
            seen.update(rules)
            if len(node.orelse) == 1 and isinstance(node.orelse[0], ast.If):
                node = node.orelse[0]
            else:
                rest = [r for r in all_rules if r not in seen]
                self._branch(fn, node.orelse, rest, default=True)
                node = None

    def _branch(self, fn, body: List[ast.stmt], rules: List[str], default: bool = False) -> None:  # type: ignore[no-untyped-def]
        yields = [n for s in body for n in ast.walk(s) if isinstance(n, ast.Yield)]
        if not yields:
            if any(isinstance(n, ast.Raise) for s in body for n in ast.walk(s)):
                self.illegal.update(rules)
            else:
                self.skipped.update(rules)
            return
        for y in yields:
            call = y.value
            if not (isinstance(call, ast.Call) and isinstance(call.func, ast.Name)):
                raise AnalysisError("Lexer.tokenize: yield of something that is not a token constructor")
            kind_e: Optional[ast.expr] = None
            value_e: Optional[ast.expr] = None
            if call.args:
                kind_e = call.args[0]
            for k in call.keywords:
                if k.arg == "kind":
                    kind_e = k.value
                elif k.arg == "value":
                    value_e = k.value
            if kind_e is None or value_e is None:
                raise AnalysisError("Lexer.tokenize: token constructor without kind/value")
            or_empty = False
            if isinstance(value_e, ast.BoolOp) and isinstance(value_e.op, ast.Or) and len(value_e.values) == 2:
                if isinstance(value_e.values[1], ast.Constant) and value_e.values[1].value == "":
                    or_empty = True
                    value_e = value_e.values[0]
            group: Optional[str] = None
            if (
                isinstance(value_e, ast.Call)
                and isinstance(value_e.func, ast.Attribute)
                and value_e.func.attr == "group"
            ):
                if value_e.args:
                    g = value_e.args[0]
                    if not (isinstance(g, ast.Constant) and isinstance(g.value, str)):
                        raise AnalysisError("Lexer.tokenize: non-constant group name")
                    group = g.value
            else:
                raise AnalysisError(f"Lexer.tokenize: token value `{ast.unparse(value_e)}` is not match.group(...)")
            for r in rules:
                if isinstance(kind_e, ast.Name) and kind_e.id == "kind":
                    k = r
                else:
                    kc = self._const(fn, kind_e)
                    if kc is None:
                        raise AnalysisError("Lexer.tokenize: non-constant token kind")
                    k = kc
                self.emits.append(Emit(k, r, group, or_empty))

    # --------------------------------------------------------------- query
    def rule_pattern(self, rule: str) -> str:
        for r, p in self.rules:
            if r == rule:
                return p
        raise AnalysisError(f"lexer rule {rule!r} not found")

    def emitted_kinds(self) -> Set[str]:
        return {e.kind for e in self.emits}

    def value_asts(self, kind: str):  # type: ignore[no-untyped-def]
        out = []
        for e in self.emits:
            if e.kind != kind:
                continue
            pat = self.rule_pattern(e.rule)
            if e.group is None:
                out.append((e, regexast.parse(pat, self.master.flags)))
            else:
                out.append((e, regexast.named_group(pat, e.group, self.master.flags)))
        return out

    def value_shapes(self, kind: str) -> Optional[List[str]]:
        """Shape-covering strings of the values a token of `kind` may carry."""
        asts = self.value_asts(kind)
        if not asts:
            return None
        out: List[str] = []
        for e, seq in asts:
            for s in regexast.shapes(seq):
                if s not in out:
                    out.append(s)
            if e.or_empty and "" not in out:
                out.append("")
        return out

    def compiled(self) -> "re.Pattern[str]":
        return re.compile(self.master.pattern, self.master.flags)

    def classify(self, text: str) -> List[Tuple[str, str, str]]:
        """Tokenise `text` with the reconstructed master pattern.
        Returns [(rule, emitted kinds joined by '|', matched text)], skipping SKIP."""
        out = []
        for m in self.compiled().finditer(text):
            rule = m.lastgroup or ""
            if rule in self.skipped:
                continue
            kinds = sorted({e.kind for e in self.emits if e.rule == rule}) or (
                ["<ILLEGAL>"] if rule in self.illegal else [rule]
            )
            out.append((rule, "|".join(kinds), m.group()))
        return out
