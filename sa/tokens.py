"""A static model of the lexer: the ordered rule table folded from
`Lexer.compile_rules`, and the mapping "emitted token kind -> language of its
value" read off the branch structure of `Lexer.tokenize`.

The model *interprets the grammar table extracted from the source*; it never
runs the lexer.
"""

from __future__ import annotations

import ast
import re
from dataclasses import dataclass
from typing import Dict
from typing import List
from typing import Optional
from typing import Set
from typing import Tuple

from . import regexast
from .consteval import Folder
from .consteval import Instance
from .consteval import NotConst
from .consteval import RegexConst
from .consteval import Scope
from .loader import AnalysisError
from .loader import Repo


_NO = object()


@dataclass
class Emit:
    kind: str  # emitted token kind (constant string)
    rule: str  # lexer rule that matched
    group: Optional[str]  # named group the value is taken from (None = whole match)
    or_empty: bool = False


def _alternatives(pattern: str) -> List[Tuple[str, str]]:
    """The ordered (group name, sub-pattern) table of a master pattern `(?P<A>...)|(?P<B>...)|...`.

    Read off the folded pattern itself, so the way the source builds it does not matter.
    """
    out: List[Tuple[str, str]] = []
    depth = 0
    start = 0
    i = 0
    in_class = False
    pieces: List[str] = []
    while i < len(pattern):
        c = pattern[i]
        if c == "\\":
            i += 2
            continue
        if in_class:
            if c == "]":
                in_class = False
        elif c == "[":
            in_class = True
            if pattern[i + 1:i + 2] == "^":
                i += 1
            if pattern[i + 1:i + 2] == "]":
                i += 1
        elif c == "(":
            depth += 1
        elif c == ")":
            depth -= 1
        elif c == "|" and depth == 0:
            pieces.append(pattern[start:i])
            start = i + 1
        i += 1
    pieces.append(pattern[start:])
    for piece in pieces:
        m = re.match(r"\(\?P<([A-Za-z_][A-Za-z0-9_]*)>(.*)\)\Z", piece, re.DOTALL)
        if m is None:
            raise AnalysisError(f"Lexer master pattern: alternative `{piece[:40]}` is not one named group")
        out.append((m.group(1), m.group(2)))
    return out


class LexerModel:
    def __init__(self, repo: Repo, folder: Folder, env_overrides: Optional[Dict[str, str]] = None) -> None:
        self.repo = repo
        self.folder = folder
        lex = repo.require_class("Lexer")
        self.cls = lex
        inst = Instance(lex)
        if env_overrides:
            envc = repo.require_class("JSONPathEnvironment")
            inst.overrides["env"] = Instance(envc, dict(env_overrides))
        fn = repo.require_func("Lexer.compile_rules")
        self.compile_fn = fn
        try:
            master = folder.eval_function_return(fn, {"self": inst})
        except NotConst as err:
            raise AnalysisError(f"Lexer.compile_rules cannot be folded: {err}") from err
        if not isinstance(master, RegexConst):
            raise AnalysisError("Lexer.compile_rules does not return a compiled pattern")
        self.master = master
        self.rules: List[Tuple[str, str]] = _alternatives(master.pattern)
        self.emits: List[Emit] = []
        self.skipped: Set[str] = set()
        self.illegal: Set[str] = set()
        self._concrete: Optional["re.Match[str]"] = None  # a real match of the master pattern (tokens_of)
        self._captured: List[Tuple[List[str], Optional[str]]] = []
        self._parse_tokenize()

    # ------------------------------------------------------------ tokenize
    # The loop body of `tokenize` is executed abstractly once per lexer rule: the rule name is substituted for
    # `match.lastgroup` (and for locals bound to it), locals assigned constants (also through constant
    # dispatch tables: `out_kind, group = _CAPTURED[kind]`) are tracked, tests are folded.

    def _is_kind(self, e: ast.expr) -> bool:
        """`match.lastgroup`, or a local bound to it."""
        if isinstance(e, ast.Attribute) and e.attr == "lastgroup":
            return True
        return isinstance(e, ast.Name) and e.id in self._kind_names

    def _fold(self, fn, e: ast.expr, rule: str, env: Dict[str, object]):  # type: ignore[no-untyped-def]
        """Value of `e` with the matched rule known, or NotConst."""
        import copy as _copy

        model = self

        class _K(ast.NodeTransformer):
            def visit(self, node: ast.AST) -> ast.AST:
                if isinstance(node, ast.expr) and model._is_kind(node):
                    return ast.copy_location(ast.Constant(value=rule), node)
                return super().visit(node)

        e2 = _K().visit(_copy.deepcopy(e))
        ast.fix_missing_locations(e2)
        inst = Instance(fn.cls) if fn.cls is not None else None
        loc: Dict[str, object] = dict(env)
        if inst is not None:
            loc.setdefault("self", inst)
        return self.folder.eval(e2, Scope(self.folder, fn.module, fn.cls, loc))

    def _test(self, fn, test: ast.expr, rule: str, env: Dict[str, object]) -> Optional[bool]:  # type: ignore[no-untyped-def]
        """Truth of a dispatch test when the matched rule is `rule`; None if it depends on more."""
        if isinstance(test, ast.UnaryOp) and isinstance(test.op, ast.Not):
            v = self._test(fn, test.operand, rule, env)
            return None if v is None else not v
        if isinstance(test, ast.BoolOp):
            vals = [self._test(fn, v, rule, env) for v in test.values]
            if isinstance(test.op, ast.And):
                if any(v is False for v in vals):
                    return False
                return True if all(v is True for v in vals) else None
            if any(v is True for v in vals):
                return True
            return False if all(v is False for v in vals) else None
        if self._concrete is not None:
            cv = self._concrete_value(fn, test, rule, env)
            if cv is not _NO:
                return bool(cv)
        if not any(self._is_kind(n) or (isinstance(n, ast.Name) and n.id in env) for n in ast.walk(test) if isinstance(n, ast.expr)):
            return None
        try:
            v = self._fold(fn, test, rule, env)
        except NotConst:
            return None
        if isinstance(v, (bool, int, str, tuple, list, dict, set, frozenset)) or v is None:
            return bool(v)
        return None

    def _concrete_value(self, fn, e: ast.expr, rule: str, env: Dict[str, object]) -> object:  # type: ignore[no-untyped-def]
        """Value of a test on the matched text itself (`match.group("G_EXP")[1] == "-"`) for the concrete match of
        `tokens_of`: the group accessors are replaced by what they return, the rest is constants."""
        m = self._concrete
        assert m is not None
        mname = self._match_name

        def ev(x: ast.expr) -> object:
            if isinstance(x, ast.Constant):
                return x.value
            if self._is_kind(x):
                return rule
            if isinstance(x, ast.Name) and x.id in env and isinstance(env[x.id], (str, int, bool, type(None))):
                return env[x.id]
            if (isinstance(x, ast.Call) and isinstance(x.func, ast.Attribute) and isinstance(x.func.value, ast.Name) and x.func.value.id == mname
                    and x.func.attr in ("group", "start", "end") and not x.keywords and len(x.args) <= 1):
                args = [ev(a) for a in x.args]
                if any(not isinstance(a, (str, int)) or isinstance(a, bool) for a in args):
                    raise NotConst("group name")
                try:
                    return getattr(m, x.func.attr)(*args)
                except (IndexError, error_cls) as err:
                    raise NotConst(str(err)) from err
            if isinstance(x, ast.BoolOp):
                cur: object = None
                for v in x.values:
                    cur = ev(v)
                    if isinstance(x.op, ast.And) and not cur:
                        return cur
                    if isinstance(x.op, ast.Or) and cur:
                        return cur
                return cur
            if isinstance(x, ast.UnaryOp) and isinstance(x.op, ast.Not):
                return not ev(x.operand)
            if isinstance(x, ast.Subscript) and not isinstance(x.slice, ast.Slice):
                base, k = ev(x.value), ev(x.slice)
                if isinstance(base, str) and isinstance(k, int) and not isinstance(k, bool):
                    try:
                        return base[k]
                    except IndexError as err:
                        raise NotConst("index") from err
                raise NotConst("subscript")
            if isinstance(x, ast.Compare) and len(x.ops) == 1:
                a, b = ev(x.left), ev(x.comparators[0])
                op = x.ops[0]
                if isinstance(op, ast.Eq):
                    return a == b
                if isinstance(op, ast.NotEq):
                    return a != b
                if isinstance(op, ast.Is):
                    return a is b
                if isinstance(op, ast.IsNot):
                    return a is not b
                if isinstance(op, (ast.In, ast.NotIn)) and isinstance(b, (str, tuple)) and isinstance(a, str):
                    return (a in b) == isinstance(op, ast.In)
            if isinstance(x, ast.Call) and isinstance(x.func, ast.Attribute) and x.func.attr in ("startswith", "endswith") and len(x.args) == 1 and not x.keywords:
                base, a0 = ev(x.func.value), ev(x.args[0])
                if isinstance(base, str) and isinstance(a0, str):
                    return getattr(base, x.func.attr)(a0)
            raise NotConst(ast.unparse(x)[:40])

        error_cls = re.error
        try:
            return ev(e)
        except NotConst:
            return _NO

    def tokens_of(self, text: str) -> List[Tuple[str, str, str]]:
        """Tokenise `text` exactly: the master pattern finds the rule, the dispatch of `tokenize` is then walked
        with the concrete match, so a kind that depends on the matched text (an integer with a negative exponent
        is a float) is decided.  [(rule, emitted kind, value)]; AnalysisError when a test is still undecided."""
        fn = self.repo.require_func("Lexer.tokenize")
        loop = next(n for n in fn.node.body if isinstance(n, ast.For))
        out: List[Tuple[str, str, str]] = []
        for m in self.compiled().finditer(text):
            rule = m.lastgroup or ""
            self._concrete, self._captured = m, []
            try:
                ends: Set[str] = set()
                self._walk(fn, loop.body, rule, ends, {})
                captured = self._captured
            finally:
                self._concrete, self._captured = None, []
            if not captured:
                if "raise" in ends:
                    out.append((rule, "<ILLEGAL>", m.group()))
                continue
            for kinds, group in captured:
                if len(kinds) != 1:
                    raise AnalysisError(f"Lexer.tokenize: the kind emitted for `{m.group()}` (rule {rule}) is not decided: {kinds}")
                out.append((rule, kinds[0], m.group(group) if group is not None else m.group()))
        return out

    def _parse_tokenize(self) -> None:
        """Abstractly execute the loop body of `tokenize` once per lexer rule."""
        fn = self.repo.require_func("Lexer.tokenize")
        loops = [n for n in fn.node.body if isinstance(n, ast.For)]
        if len(loops) != 1:
            raise AnalysisError("Lexer.tokenize: expected one loop over the rule matches")
        loop = loops[0]
        self._match_name = loop.target.id if isinstance(loop.target, ast.Name) else "match"
        self._kind_names: Set[str] = set()
        for n in ast.walk(loop):
            if isinstance(n, ast.Assign) and len(n.targets) == 1 and isinstance(n.targets[0], ast.Name) and isinstance(
                n.value, ast.Attribute) and n.value.attr == "lastgroup":
                self._kind_names.add(n.targets[0].id)
        for rule, _ in self.rules:
            before = len(self.emits)
            ends: Set[str] = set()
            self._walk(fn, loop.body, rule, ends, {})
            if len(self.emits) == before:
                if "raise" in ends:
                    self.illegal.add(rule)
                else:
                    self.skipped.add(rule)

    def _walk(self, fn, body: List[ast.stmt], rule: str, ends: Set[str], env: Dict[str, object]) -> bool:  # type: ignore[no-untyped-def]
        """Walk `body` for `rule`; True if control can fall off its end."""
        for s in body:
            if isinstance(s, ast.If):
                v = self._test(fn, s.test, rule, env)
                falls = False
                if v is not False:
                    falls |= self._walk(fn, s.body, rule, ends, dict(env) if v is None else env)
                if v is not True:
                    falls |= self._walk(fn, s.orelse, rule, ends, dict(env) if v is None else env)
                if not falls:
                    return False
            elif isinstance(s, ast.Continue):
                ends.add("continue")
                return False
            elif isinstance(s, ast.Raise):
                ends.add("raise")
                return False
            elif isinstance(s, ast.Expr) and isinstance(s.value, ast.Yield):
                self._emit(fn, s.value, rule, env)
            elif isinstance(s, (ast.Assign, ast.AnnAssign)) and getattr(s, "value", None) is not None:
                targets = s.targets if isinstance(s, ast.Assign) else [s.target]
                try:
                    val = self._fold(fn, s.value, rule, env)  # type: ignore[arg-type]
                    ok = True
                except NotConst:
                    ok = False
                    if self._concrete is not None:
                        # `exponent = match.group("G_EXP")`: known for the concrete match of tokens_of
                        cv = self._concrete_value(fn, s.value, rule, env)  # type: ignore[arg-type]
                        if cv is not _NO and (cv is None or isinstance(cv, (str, int, bool))):
                            val, ok = cv, True
                for t in targets:
                    if isinstance(t, ast.Name):
                        if ok:
                            env[t.id] = val
                        else:
                            env.pop(t.id, None)
                    elif isinstance(t, (ast.Tuple, ast.List)) and all(isinstance(x, ast.Name) for x in t.elts):
                        if ok and isinstance(val, (tuple, list)) and len(val) == len(t.elts):
                            for x, v2 in zip(t.elts, val):
                                env[x.id] = v2  # type: ignore[attr-defined]
                        else:
                            for x in t.elts:
                                env.pop(x.id, None)  # type: ignore[attr-defined]
            elif isinstance(s, (ast.Assert, ast.Pass, ast.AnnAssign)):
                continue
            else:
                raise AnalysisError(f"Lexer.tokenize: unrecognised statement `{ast.unparse(s)[:60]}` in the dispatch loop")
        return True

    def _emit(self, fn, y: ast.Yield, rule: str, env: Dict[str, object]) -> None:  # type: ignore[no-untyped-def]
        call = y.value
        if not (isinstance(call, ast.Call) and isinstance(call.func, ast.Name)):
            raise AnalysisError("Lexer.tokenize: yield of something that is not a token constructor")
        kind_e: Optional[ast.expr] = None
        value_e: Optional[ast.expr] = None
        if call.args:
            kind_e = call.args[0]
        for k in call.keywords:
            if k.arg == "kind":
                kind_e = k.value
            elif k.arg == "value":
                value_e = k.value
        if kind_e is None or value_e is None:
            raise AnalysisError("Lexer.tokenize: token constructor without kind/value")
        or_empty = False
        if isinstance(value_e, ast.BoolOp) and isinstance(value_e.op, ast.Or) and len(value_e.values) == 2:
            if isinstance(value_e.values[1], ast.Constant) and value_e.values[1].value == "":
                or_empty = True
                value_e = value_e.values[0]
        group: Optional[str] = None
        if (
            isinstance(value_e, ast.Call)
            and isinstance(value_e.func, ast.Attribute)
            and value_e.func.attr == "group"
        ):
            if value_e.args:
                try:
                    g = self._fold(fn, value_e.args[0], rule, env)
                except NotConst:
                    raise AnalysisError("Lexer.tokenize: non-constant group name") from None
                if isinstance(g, str):
                    group = g
                elif g == 0:
                    group = None  # group 0 is the whole match
                else:
                    raise AnalysisError("Lexer.tokenize: group is neither a name nor 0")
        else:
            raise AnalysisError(f"Lexer.tokenize: token value `{ast.unparse(value_e)}` is not match.group(...)")
        # the emitted kind: a constant, or a conditional between constants that depends on the matched text
        kinds: List[str] = []

        def kinds_of(e: ast.expr) -> None:
            if isinstance(e, ast.IfExp):
                d = self._test(fn, e.test, rule, env)
                if d is not False:
                    kinds_of(e.body)
                if d is not True:
                    kinds_of(e.orelse)
                return
            try:
                kv = self._fold(fn, e, rule, env)
            except NotConst:
                raise AnalysisError("Lexer.tokenize: non-constant token kind") from None
            if not isinstance(kv, str):
                raise AnalysisError("Lexer.tokenize: non-constant token kind")
            kinds.append(kv)

        kinds_of(kind_e)
        if self._concrete is not None:
            self._captured.append((kinds, group))
            return
        for k2 in kinds:
            e = Emit(k2, rule, group, or_empty)
            if e not in self.emits:
                self.emits.append(e)

    # --------------------------------------------------------------- query
    def rule_pattern(self, rule: str) -> str:
        for r, p in self.rules:
            if r == rule:
                return p
        raise AnalysisError(f"lexer rule {rule!r} not found")

    def emitted_kinds(self) -> Set[str]:
        return {e.kind for e in self.emits}

    def value_asts(self, kind: str):  # type: ignore[no-untyped-def]
        out = []
        for e in self.emits:
            if e.kind != kind:
                continue
            pat = self.rule_pattern(e.rule)
            if e.group is None:
                out.append((e, regexast.parse(pat, self.master.flags)))
            else:
                out.append((e, regexast.named_group(pat, e.group, self.master.flags)))
        return out

    def value_shapes(self, kind: str) -> Optional[List[str]]:
        """Shape-covering strings of the values a token of `kind` may carry."""
        asts = self.value_asts(kind)
        if not asts:
            return None
        out: List[str] = []
        for e, seq in asts:
            for s in regexast.shapes(seq):
                if s not in out:
                    out.append(s)
            if e.or_empty and "" not in out:
                out.append("")
        return out

    def compiled(self) -> "re.Pattern[str]":
        return re.compile(self.master.pattern, self.master.flags)

    def classify(self, text: str) -> List[Tuple[str, str, str]]:
        """Tokenise `text` with the reconstructed master pattern.
        Returns [(rule, emitted kinds joined by '|', matched text)], skipping SKIP."""
        out = []
        for m in self.compiled().finditer(text):
            rule = m.lastgroup or ""
            if rule in self.skipped:
                continue
            kinds = sorted({e.kind for e in self.emits if e.rule == rule}) or (
                ["<ILLEGAL>"] if rule in self.illegal else [rule]
            )
            out.append((rule, "|".join(kinds), m.group()))
        return out
