"""A static model of the lexer: the ordered rule table folded from
`Lexer.compile_rules`, and the mapping "emitted token kind -> language of its
value" read off the branch structure of `Lexer.tokenize`.

The model *interprets the grammar table extracted from the source*; it never
runs the lexer.
"""

from __future__ import annotations

import ast
import re
from dataclasses import dataclass
from typing import Dict
from typing import List
from typing import Optional
from typing import Set
from typing import Tuple

from . import regexast
from .consteval import Folder
from .consteval import Instance
from .consteval import NotConst
from .consteval import RegexConst
from .consteval import Scope
from .loader import AnalysisError
from .loader import Repo


@dataclass
class Emit:
    kind: str  # emitted token kind (constant string)
    rule: str  # lexer rule that matched
    group: Optional[str]  # named group the value is taken from (None = whole match)
    or_empty: bool = False


def _alternatives(pattern: str) -> List[Tuple[str, str]]:
    """The ordered (group name, sub-pattern) table of a master pattern `(?P<A>...)|(?P<B>...)|...`.

    Read off the folded pattern itself, so the way the source builds it does not matter.
    """
    out: List[Tuple[str, str]] = []
    depth = 0
    start = 0
    i = 0
    in_class = False
    pieces: List[str] = []
    while i < len(pattern):
        c = pattern[i]
        if c == "\\":
            i += 2
            continue
        if in_class:
            if c == "]":
                in_class = False
        elif c == "[":
            in_class = True
            if pattern[i + 1:i + 2] == "^":
                i += 1
            if pattern[i + 1:i + 2] == "]":
                i += 1
        elif c == "(":
            depth += 1
        elif c == ")":
            depth -= 1
        elif c == "|" and depth == 0:
            pieces.append(pattern[start:i])
            start = i + 1
        i += 1
    pieces.append(pattern[start:])
    for piece in pieces:
        m = re.match(r"\(\?P<([A-Za-z_][A-Za-z0-9_]*)>(.*)\)\Z", piece, re.DOTALL)
        if m is None:
            raise AnalysisError(f"Lexer master pattern: alternative `{piece[:40]}` is not one named group")
        out.append((m.group(1), m.group(2)))
    return out


class LexerModel:
    def __init__(self, repo: Repo, folder: Folder, env_overrides: Optional[Dict[str, str]] = None) -> None:
        self.repo = repo
        self.folder = folder
        lex = repo.require_class("Lexer")
        self.cls = lex
        inst = Instance(lex)
        if env_overrides:
            envc = repo.require_class("JSONPathEnvironment")
            inst.overrides["env"] = Instance(envc, dict(env_overrides))
        fn = repo.require_func("Lexer.compile_rules")
        self.compile_fn = fn
        try:
            master = folder.eval_function_return(fn, {"self": inst})
        except NotConst as err:
            raise AnalysisError(f"Lexer.compile_rules cannot be folded: {err}") from err
        if not isinstance(master, RegexConst):
            raise AnalysisError("Lexer.compile_rules does not return a compiled pattern")
        self.master = master
        self.rules: List[Tuple[str, str]] = _alternatives(master.pattern)
        self.emits: List[Emit] = []
        self.skipped: Set[str] = set()
        self.illegal: Set[str] = set()
        self._parse_tokenize()

    # ------------------------------------------------------------ tokenize
    def _const(self, fn, e: ast.expr) -> Optional[str]:  # type: ignore[no-untyped-def]
        try:
            v = self.folder.eval(e, Scope(self.folder, fn.module, fn.cls))
        except NotConst:
            return None
        return v if isinstance(v, str) else None

    def _is_kind(self, e: ast.expr) -> bool:
        """`match.lastgroup`, or a local bound to it."""
        if isinstance(e, ast.Attribute) and e.attr == "lastgroup":
            return True
        return isinstance(e, ast.Name) and e.id in self._kind_names

    def _test(self, fn, test: ast.expr, rule: str) -> Optional[bool]:  # type: ignore[no-untyped-def]
        """Truth of a dispatch test when the matched rule is `rule`; None if it depends on more."""
        if isinstance(test, ast.UnaryOp) and isinstance(test.op, ast.Not):
            v = self._test(fn, test.operand, rule)
            return None if v is None else not v
        if isinstance(test, ast.BoolOp):
            vals = [self._test(fn, v, rule) for v in test.values]
            if isinstance(test.op, ast.And):
                if any(v is False for v in vals):
                    return False
                return True if all(v is True for v in vals) else None
            if any(v is True for v in vals):
                return True
            return False if all(v is False for v in vals) else None
        if isinstance(test, ast.Compare) and len(test.ops) == 1 and self._is_kind(test.left):
            comp = test.comparators[0]
            op = test.ops[0]
            if isinstance(op, (ast.Eq, ast.NotEq)):
                c = self._const(fn, comp)
                if c is None:
                    return None
                return (c == rule) == isinstance(op, ast.Eq)
            if isinstance(op, (ast.In, ast.NotIn)) and isinstance(comp, (ast.Tuple, ast.List, ast.Set)):
                out = [self._const(fn, x) for x in comp.elts]
                if all(o is not None for o in out):
                    return (rule in out) == isinstance(op, ast.In)
            if isinstance(op, (ast.Is, ast.IsNot)) and isinstance(comp, ast.Constant) and comp.value is None:
                return isinstance(op, ast.IsNot)
        return None

    def _parse_tokenize(self) -> None:
        """Abstractly execute the loop body of `tokenize` once per lexer rule."""
        fn = self.repo.require_func("Lexer.tokenize")
        loops = [n for n in fn.node.body if isinstance(n, ast.For)]
        if len(loops) != 1:
            raise AnalysisError("Lexer.tokenize: expected one loop over the rule matches")
        loop = loops[0]
        self._kind_names: Set[str] = set()
        for n in ast.walk(loop):
            if isinstance(n, ast.Assign) and len(n.targets) == 1 and isinstance(n.targets[0], ast.Name) and isinstance(
                n.value, ast.Attribute) and n.value.attr == "lastgroup":
                self._kind_names.add(n.targets[0].id)
        for rule, _ in self.rules:
            before = len(self.emits)
            ends: Set[str] = set()
            self._walk(fn, loop.body, rule, ends)
            if len(self.emits) == before:
                if "raise" in ends:
                    self.illegal.add(rule)
                else:
                    self.skipped.add(rule)

    def _walk(self, fn, body: List[ast.stmt], rule: str, ends: Set[str]) -> bool:  # type: ignore[no-untyped-def]
        """Walk `body` for `rule`; True if control can fall off its end."""
        for i, s in enumerate(body):
            if isinstance(s, ast.If):
                v = self._test(fn, s.test, rule)
                falls = False
                if v is not False:
                    falls |= self._walk(fn, s.body, rule, ends)
                if v is not True:
                    falls |= self._walk(fn, s.orelse, rule, ends)
                if not falls:
                    return False
            elif isinstance(s, ast.Continue):
                ends.add("continue")
                return False
            elif isinstance(s, ast.Raise):
                ends.add("raise")
                return False
            elif isinstance(s, ast.Expr) and isinstance(s.value, ast.Yield):
                self._emit(fn, s.value, rule)
            elif isinstance(s, (ast.Assert, ast.Assign, ast.AnnAssign, ast.Pass)):
                continue
            else:
                raise AnalysisError(f"Lexer.tokenize: unrecognised statement `{ast.unparse(s)[:60]}` in the dispatch loop")
        return True

    def _emit(self, fn, y: ast.Yield, rule: str) -> None:  # type: ignore[no-untyped-def]
        call = y.value
        if not (isinstance(call, ast.Call) and isinstance(call.func, ast.Name)):
            raise AnalysisError("Lexer.tokenize: yield of something that is not a token constructor")
        kind_e: Optional[ast.expr] = None
        value_e: Optional[ast.expr] = None
        if call.args:
            kind_e = call.args[0]
        for k in call.keywords:
            if k.arg == "kind":
                kind_e = k.value
            elif k.arg == "value":
                value_e = k.value
        if kind_e is None or value_e is None:
            raise AnalysisError("Lexer.tokenize: token constructor without kind/value")
        or_empty = False
        if isinstance(value_e, ast.BoolOp) and isinstance(value_e.op, ast.Or) and len(value_e.values) == 2:
            if isinstance(value_e.values[1], ast.Constant) and value_e.values[1].value == "":
                or_empty = True
                value_e = value_e.values[0]
        group: Optional[str] = None
        if (
            isinstance(value_e, ast.Call)
            and isinstance(value_e.func, ast.Attribute)
            and value_e.func.attr == "group"
        ):
            if value_e.args:
                g = value_e.args[0]
                if not (isinstance(g, ast.Constant) and isinstance(g.value, str)):
                    raise AnalysisError("Lexer.tokenize: non-constant group name")
                group = g.value
        else:
            raise AnalysisError(f"Lexer.tokenize: token value `{ast.unparse(value_e)}` is not match.group(...)")
        if self._is_kind(kind_e):
            k2 = rule
        else:
            kc = self._const(fn, kind_e)
            if kc is None:
                raise AnalysisError("Lexer.tokenize: non-constant token kind")
            k2 = kc
        e = Emit(k2, rule, group, or_empty)
        if e not in self.emits:
            self.emits.append(e)

    # --------------------------------------------------------------- query
    def rule_pattern(self, rule: str) -> str:
        for r, p in self.rules:
            if r == rule:
                return p
        raise AnalysisError(f"lexer rule {rule!r} not found")

    def emitted_kinds(self) -> Set[str]:
        return {e.kind for e in self.emits}

    def value_asts(self, kind: str):  # type: ignore[no-untyped-def]
        out = []
        for e in self.emits:
            if e.kind != kind:
                continue
            pat = self.rule_pattern(e.rule)
            if e.group is None:
                out.append((e, regexast.parse(pat, self.master.flags)))
            else:
                out.append((e, regexast.named_group(pat, e.group, self.master.flags)))
        return out

    def value_shapes(self, kind: str) -> Optional[List[str]]:
        """Shape-covering strings of the values a token of `kind` may carry."""
        asts = self.value_asts(kind)
        if not asts:
            return None
        out: List[str] = []
        for e, seq in asts:
            for s in regexast.shapes(seq):
                if s not in out:
                    out.append(s)
            if e.or_empty and "" not in out:
                out.append("")
        return out

    def compiled(self) -> "re.Pattern[str]":
        return re.compile(self.master.pattern, self.master.flags)

    def classify(self, text: str) -> List[Tuple[str, str, str]]:
        """Tokenise `text` with the reconstructed master pattern.
        Returns [(rule, emitted kinds joined by '|', matched text)], skipping SKIP."""
        out = []
        for m in self.compiled().finditer(text):
            rule = m.lastgroup or ""
            if rule in self.skipped:
                continue
            kinds = sorted({e.kind for e in self.emits if e.rule == rule}) or (
                ["<ILLEGAL>"] if rule in self.illegal else [rule]
            )
            out.append((rule, "|".join(kinds), m.group()))
        return out
