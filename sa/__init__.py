"""Static-analysis engine for the python-jsonpath verification checks.

Nothing in this package imports or executes code from the analysed repository;
everything works on `ast` trees of the current working tree.
"""
