"""Resolved call graph of the package.

Resolution order for `recv.m(...)`:
  1. receiver type from annotations / constructor calls / field table
     (dynamic dispatch: the method found through the MRO plus every override
     in a subclass of the static class),
  2. `super().m`, class objects (`cls.m`, `Class.m`), modules (`mod.f`),
  3. dictionaries of bound methods folded by the constant folder
     (`self.token_map[kind](stream)`),
  4. fallback: class-hierarchy analysis *by method name* over all repo classes
     (a sound over-approximation), unless no repo class defines the name (then
     it is a method of a built-in type and is ignored).
Also recorded as edges: property reads, function/method references passed as
values (callbacks such as `reduce(self._getitem, ...)`, `partial(Token, ...)`),
and the dunder protocols `next(x)`, `str(x)`/f-string, `iter`/`for` on values of
repo classes.
"""

from __future__ import annotations

import ast
from dataclasses import dataclass
from dataclasses import field
from typing import Dict
from typing import List
from typing import Optional
from typing import Set

from .consteval import BoundMethod
from .consteval import Folder
from .consteval import Instance
from .consteval import NotConst
from .loader import ClassInfo
from .loader import FuncInfo
from .loader import Repo
from .types import Ty
from .types import TypeEnv
from .types import is_property


@dataclass
class Site:
    node: ast.AST
    kind: str  # call | ref | prop | dunder
    callees: List[FuncInfo] = field(default_factory=list)
    how: str = "typed"  # typed | byname | ext | ignored | folded
    ext: Optional[str] = None  # dotted name of an external callee


class CallGraph:
    def __init__(self, repo: Repo, folder: Folder) -> None:
        self.repo = repo
        self.folder = folder
        self.types = TypeEnv(repo, folder)
        self.sites: Dict[str, List[Site]] = {}
        self.by_node: Dict[int, Site] = {}
        self._methods_by_name: Dict[str, List[FuncInfo]] = {}
        for f in repo.functions.values():
            if f.cls is not None and f.parent is None:
                self._methods_by_name.setdefault(f.name, []).append(f)
        self.stats = {"typed": 0, "byname": 0, "ext": 0, "ignored": 0, "folded": 0}
        for fn in list(repo.functions.values()):
            self._analyse(fn)

    # -------------------------------------------------------------- helpers
    def owner(self, fn: FuncInfo) -> FuncInfo:
        """Nested functions/lambdas are analysed with their outermost function; so is a helper that the rules
        have never seen (not in known_functions.txt) and that is reachable from exactly one known function
        (a closure hoisted to module level, a recursive helper that could not be inlined)."""
        while fn.parent is not None:
            fn = fn.parent
        from .inline import known_functions

        known = known_functions()
        if not known or fn.qualname in known:
            return fn
        seen = {fn.qualname}
        frontier = [fn.qualname]
        roots = set()
        while frontier:
            q = frontier.pop()
            for caller, sites in self.sites.items():
                if any(c.qualname == q for s_ in sites for c in s_.callees):
                    top = self.repo.functions[caller]
                    while top.parent is not None:
                        top = top.parent
                    if top.qualname in known:
                        roots.add(top.qualname)
                    elif top.qualname not in seen:
                        seen.add(top.qualname)
                        frontier.append(top.qualname)
        if len(roots) == 1:
            return self.repo.functions[roots.pop()]
        return fn

    def dispatch(self, cls: ClassInfo, name: str) -> List[FuncInfo]:
        out: List[FuncInfo] = []
        m = self.repo.find_method(cls, name)
        if m is not None:
            out.append(m)
        for sub in self.repo.subclasses(cls, strict=True):
            if name in sub.methods and sub.methods[name] not in out:
                out.append(sub.methods[name])
        return out

    def _from_type(self, t: Optional[Ty], name: str, fn: FuncInfo) -> Optional[List[FuncInfo]]:
        """Callees for attribute `name` on a value of type t; None if unknown."""
        if t is None:
            return None
        out: List[FuncInfo] = []
        known = False
        for n in t.names:
            if n.startswith("type:"):
                cls = self.repo.classes.get(n[5:])
                if cls is None:
                    continue
                known = True
                out.extend(self.dispatch(cls, name))
            elif n.startswith("super:"):
                cls = self.repo.classes.get(n[6:])
                if cls is None:
                    continue
                known = True
                for q in self.repo.mro(cls)[1:]:
                    info = self.repo.classes.get(q)
                    if info and name in info.methods:
                        out.append(info.methods[name])
                        break
            elif n.startswith("module:"):
                mod = self.repo.modules.get(n[7:])
                known = True
                if mod is not None:
                    kind, val = self.repo.resolve_global(mod, name)
                    if kind == "func":
                        out.append(val)  # type: ignore[arg-type]
                    elif kind == "class":
                        init = self.repo.find_method(val, "__init__")  # type: ignore[arg-type]
                        if init:
                            out.append(init)
            elif n.startswith(("ext:", "func:")) or n in (
                "str", "int", "float", "bool", "None", "list", "tuple", "dict", "set",
                "frozenset", "Sequence", "Iterable", "Iterator", "Mapping", "deque",
                "re.Pattern", "re.Match", "IOBase", "bytes", "callable", "argparse.Namespace",
            ):
                known = True  # built-in receiver: no repo callee
            else:
                cls = self.repo.classes.get(n)
                if cls is None:
                    continue
                known = True
                out.extend(self.dispatch(cls, name))
        if not known:
            return None
        # de-duplicate preserving order
        seen: Set[str] = set()
        uniq = []
        for f in out:
            if f.qualname not in seen:
                seen.add(f.qualname)
                uniq.append(f)
        return uniq

    def _byname(self, name: str) -> List[FuncInfo]:
        return list(self._methods_by_name.get(name, []))

    # -------------------------------------------------------------- analyse
    def _analyse(self, fn: FuncInfo) -> None:
        sites: List[Site] = []
        env = self.types.local_types(fn)
        call_funcs: Set[int] = set()

        def add(site: Site) -> None:
            sites.append(site)
            self.by_node[id(site.node)] = site
            self.stats[site.how] = self.stats.get(site.how, 0) + 1

        nodes = list(_own_nodes(fn.node))
        # function references count as calls only in callback position
        # (an argument of a call: reduce(self._getitem, ...), partial(Token, ...))
        arg_pos: Set[int] = set()
        for node in nodes:
            if isinstance(node, ast.Call):
                fname = node.func.id if isinstance(node.func, ast.Name) else getattr(node.func, "attr", "")
                if fname in ("isinstance", "issubclass", "suppress", "hasattr", "getattr", "TypeVar", "cast"):
                    continue
                for a in node.args:
                    arg_pos.add(id(a))
                for k in node.keywords:
                    arg_pos.add(id(k.value))
        for node in nodes:
            if isinstance(node, ast.Call):
                call_funcs.add(id(node.func))
                add(self._resolve_call(fn, node, env))
                # dunder protocols
                if isinstance(node.func, ast.Name) and node.args:
                    dn = {"next": "__next__", "str": "__str__", "iter": "__iter__",
                          "len": "__len__", "repr": "__repr__", "hash": "__hash__"}.get(node.func.id)
                    if dn:
                        t = self.types.expr_type(fn, node.args[0], env)
                        cs = self._repo_methods(t, dn)
                        if cs:
                            add(Site(node.args[0], "dunder", cs, "typed"))
        for node in nodes:
            if isinstance(node, ast.Attribute) and isinstance(node.ctx, ast.Load) and id(node) not in call_funcs:
                # property read or bound-method reference
                t = self.types.expr_type(fn, node.value, env)
                cands = self._from_type(t, node.attr, fn)
                if cands is None:
                    cands = [m for m in self._byname(node.attr) if is_property(m)]
                    how = "byname"
                else:
                    how = "typed"
                props = [m for m in cands if is_property(m)]
                refs = [m for m in cands if not is_property(m)]
                if props:
                    add(Site(node, "prop", props, how))
                elif refs and how == "typed" and id(node) in arg_pos:
                    add(Site(node, "ref", refs, how))
            elif isinstance(node, ast.Name) and isinstance(node.ctx, ast.Load) and id(node) not in call_funcs:
                if node.id in env:
                    continue
                kind, val = self.repo.resolve_global(fn.module, node.id)
                if kind == "func" and id(node) in arg_pos:
                    add(Site(node, "ref", [val], "typed"))  # type: ignore[list-item]
                elif kind == "class" and id(node) in arg_pos:
                    init = self.repo.find_method(val, "__init__")  # type: ignore[arg-type]
                    if init is not None:
                        add(Site(node, "ref", [init], "typed"))
            elif isinstance(node, ast.FormattedValue):
                t = self.types.expr_type(fn, node.value, env)
                cs = self._repo_methods(t, "__str__" if node.conversion != ord("r") else "__repr__")
                if cs:
                    add(Site(node, "dunder", cs, "typed"))
            elif isinstance(node, (ast.For, ast.AsyncFor, ast.comprehension)):
                t = self.types.expr_type(fn, node.iter, env)
                cs = self._repo_methods(t, "__iter__") + self._repo_methods(t, "__next__")
                if cs:
                    add(Site(node.iter, "dunder", cs, "typed"))
        self.sites[fn.qualname] = sites

    def _repo_methods(self, t: Optional[Ty], name: str) -> List[FuncInfo]:
        out: List[FuncInfo] = []
        if t is None:
            return out
        for n in t.names:
            cls = self.repo.classes.get(n)
            if cls is not None:
                out.extend(self.dispatch(cls, name))
        return out

    def _resolve_call(self, fn: FuncInfo, call: ast.Call, env: Dict[str, Optional[Ty]]) -> Site:  # noqa: PLR0911, PLR0912
        f = call.func
        # dictionary of bound methods: self.token_map[kind](stream)
        if isinstance(f, ast.Subscript):
            base = f.value
            if (
                isinstance(base, ast.Attribute)
                and isinstance(base.value, ast.Name)
                and base.value.id == "self"
                and fn.cls is not None
            ):
                try:
                    table = self.folder.instance_attr(Instance(fn.cls), base.attr)
                except NotConst:
                    table = None
                if isinstance(table, dict) and table and all(isinstance(v, BoundMethod) for v in table.values()):
                    callees: List[FuncInfo] = []
                    for v in table.values():
                        for m in self.dispatch(v.cls, v.name):
                            if m not in callees:
                                callees.append(m)
                    return Site(call, "call", callees, "folded")
            t = self.types.expr_type(fn, f, env)
            return self._call_value(fn, call, t)
        if isinstance(f, ast.Name):
            if f.id in env:
                # a local bound to an entry of a folded dict of bound methods
                folded = self._folded_local(fn, f.id)
                if folded is not None:
                    return Site(call, "call", folded, "folded")
                return self._call_value(fn, call, env[f.id], source=self._local_sources(fn, f.id))
            # nested function defined in this (or the enclosing) function
            for q in (f"{fn.qualname}.<locals>.{f.id}",
                      f"{self.owner(fn).qualname}.<locals>.{f.id}"):
                if q in self.repo.functions:
                    return Site(call, "call", [self.repo.functions[q]], "typed")
            kind, val = self.repo.resolve_global(fn.module, f.id)
            if kind == "func":
                return Site(call, "call", [val], "typed")  # type: ignore[list-item]
            if kind == "class":
                init = self.repo.find_method(val, "__init__")  # type: ignore[arg-type]
                return Site(call, "call", [init] if init else [], "typed")
            if kind == "ext":
                return Site(call, "call", [], "ext", ext=str(val))
            return Site(call, "call", [], "ignored")
        if isinstance(f, ast.Attribute):
            d = self.repo.dotted(f)
            recv_t = self.types.expr_type(fn, f.value, env)
            if recv_t is not None and all(n.startswith("ext:") for n in recv_t.names):
                n = next(iter(recv_t.names))
                return Site(call, "call", [], "ext", ext=f"{n[4:]}.{f.attr}")
            cands = self._from_type(recv_t, f.attr, fn)
            if cands is not None:
                # a field holding a class or callable: self.lexer_class(env=self)
                if not cands and recv_t is not None:
                    ft = self.types.expr_type(fn, f, env)
                    if ft is not None:
                        return self._call_value(fn, call, ft)
                return Site(call, "call", cands, "typed")
            if (f.attr in ("replace", "split", "rsplit", "join", "startswith", "endswith", "strip", "lstrip", "rstrip", "removeprefix", "removesuffix", "encode",
                           "partition", "rpartition", "format", "lower", "upper", "index", "find", "count")
                    and call.args and all(isinstance(a, ast.Constant) and isinstance(a.value, (str, bytes)) for a in call.args) and not call.keywords):
                # a text method called with literal text arguments (`p.replace("~1", "/")`): no method of this package
                # with such a name takes only string literals
                return Site(call, "call", [], "ext", ext=f"str.{f.attr}")
            by = self._byname(f.attr)
            if by:
                return Site(call, "call", by, "byname")
            return Site(call, "call", [], "ignored", ext=d)
        t = self.types.expr_type(fn, f, env)
        return self._call_value(fn, call, t)

    def _local_sources(self, fn: FuncInfo, name: str) -> str:
        out = []
        for node in _own_nodes(fn.node):
            if isinstance(node, ast.Assign) and any(
                isinstance(t, ast.Name) and t.id == name for t in node.targets
            ):
                out.append(ast.unparse(node.value))
        return " ; ".join(out)

    def _folded_local(self, fn: FuncInfo, name: str) -> Optional[List[FuncInfo]]:
        if fn.cls is None:
            return None
        values = []
        for node in _own_nodes(fn.node):
            if isinstance(node, ast.Assign) and any(
                isinstance(t, ast.Name) and t.id == name for t in node.targets
            ):
                values.append(node.value)
        if not values:
            return None
        callees: List[FuncInfo] = []
        for v in values:
            if (isinstance(v, ast.Call) and isinstance(v.func, ast.Attribute) and v.func.attr == "get" and not v.keywords and len(v.args) in (1, 2)
                    and (len(v.args) == 1 or (isinstance(v.args[1], ast.Constant) and v.args[1].value is None))
                    and isinstance(v.func.value, ast.Attribute)):
                # `f = self.segment_map.get(kind)`: an entry of the table (or None, which is not called)
                v = ast.Subscript(value=v.func.value, slice=v.args[0], ctx=ast.Load())
            if not (
                isinstance(v, ast.Subscript)
                and isinstance(v.value, ast.Attribute)
                and isinstance(v.value.value, ast.Name)
                and v.value.value.id == "self"
            ):
                return None
            try:
                table = self.folder.instance_attr(Instance(fn.cls), v.value.attr)
            except NotConst:
                return None
            if not (isinstance(table, dict) and table and all(isinstance(x, BoundMethod) for x in table.values())):
                return None
            for x in table.values():
                for m in self.dispatch(x.cls, x.name):
                    if m not in callees:
                        callees.append(m)
        return callees

    def _call_value(self, fn: FuncInfo, call: ast.Call, t: Optional[Ty], source: str = "") -> Site:
        """Call of a value (variable, field, subscript) of type t."""
        if t is None:
            return Site(call, "call", [], "ignored")
        callees: List[FuncInfo] = []
        for n in t.names:
            if n.startswith("ctor:"):
                cls = self.repo.classes.get(n[5:])
                if cls is not None:
                    init = self.repo.find_method(cls, "__init__")
                    if init and init not in callees:
                        callees.append(init)
            elif n.startswith("type:"):
                cls = self.repo.classes.get(n[5:])
                if cls is not None:
                    for c in [cls] + self.repo.subclasses(cls, strict=True):
                        init = self.repo.find_method(c, "__init__")
                        if init and init not in callees:
                            callees.append(init)
            elif n.startswith("func:"):
                f = self.repo.functions.get(n[5:])
                if f is not None:
                    callees.append(f)
            elif n == "callable":
                # opaque callable: a registered function extension when the value
                # was read from the `function_extensions` registry
                if "function_extensions" not in source:
                    return Site(call, "call", [], "ignored", ext="<opaque callable>")
                base = self.repo.get_class("FilterFunction")
                if base is not None:
                    for c in self.repo.subclasses(base, strict=True):
                        m = c.methods.get("__call__")
                        if m is not None:
                            callees.append(m)
                return Site(call, "call", callees, "byname", ext="<function extension>")
            else:
                cls = self.repo.classes.get(n)
                if cls is not None:
                    callees.extend(self.dispatch(cls, "__call__"))
        return Site(call, "call", callees, "typed")

    # ---------------------------------------------------------------- query
    def callees(self, fn: FuncInfo) -> List[FuncInfo]:
        out: List[FuncInfo] = []
        seen: Set[str] = set()
        for s in self.sites.get(fn.qualname, []):
            for c in s.callees:
                if c.qualname not in seen:
                    seen.add(c.qualname)
                    out.append(c)
        # nested functions are part of their owner
        for q, f in self.repo.functions.items():
            if f.parent is fn and q not in seen:
                seen.add(q)
                out.append(f)
        return out

    def reachable(self, roots: List[FuncInfo]) -> Dict[str, List[str]]:
        """qualname -> call path from a root (list of qualnames)."""
        paths: Dict[str, List[str]] = {}
        work = []
        for r in roots:
            if r.qualname not in paths:
                paths[r.qualname] = [r.qualname]
                work.append(r)
        while work:
            f = work.pop(0)
            for c in self.callees(f):
                if c.qualname not in paths:
                    paths[c.qualname] = paths[f.qualname] + [c.qualname]
                    work.append(c)
        return paths


def _is_field(cg: CallGraph, t: Optional[Ty], attr: str) -> bool:
    return False


def _own_nodes(fn_node: ast.AST):  # type: ignore[no-untyped-def]
    """All nodes of a function including lambdas and comprehensions but not
    nested function/class definitions (they are functions of their own)."""
    stack = list(ast.iter_child_nodes(fn_node))
    while stack:
        n = stack.pop()
        if isinstance(n, (ast.FunctionDef, ast.AsyncFunctionDef, ast.ClassDef)):
            continue
        yield n
        stack.extend(ast.iter_child_nodes(n))
