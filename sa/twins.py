"""Normaliser for hand-duplicated sync/async method pairs and sibling bodies.

`normalise(fn)` rewrites a function body into a canonical form in which the
synchronous and the asynchronous spelling of the same algorithm coincide:

* `await e` -> `e`; `async for/with/def`, async comprehensions -> sync forms
* attribute / function names lose a trailing `_async`
* annotations, docstrings and assert messages are dropped
* the package's own helper equivalences:
    `_alist(X)` -> `X`;  `_achain(...)` -> `itertools.chain(...)`
    `for v in E: yield v` -> `yield from E`
    identity comprehension `[m for m in E]` -> `E`
    a local generator with a single `yield X` called once -> `[X]`
    `self.env.match_class` -> `JSONPathMatch`   (root match class, see DESIGN R8.1)
* try-narrowing: `try: if C: B  except H` -> `try: r = C except H` ; `if r: B`
  (recorded as an obligation: B must not raise a class caught by H)
* consistent renaming of local variables (alpha-normalisation)
"""

from __future__ import annotations

import ast
import copy
import difflib
from dataclasses import dataclass
from dataclasses import field
from typing import Dict
from typing import List
from typing import Optional
from typing import Tuple

ASYNC_SUFFIX = "_async"


def _strip_suffix(name: str) -> str:
    if name.endswith(ASYNC_SUFFIX) and len(name) > len(ASYNC_SUFFIX):
        return name[: -len(ASYNC_SUFFIX)]
    return name


# Names under which the package's two async adapters are known (the functions are recognised by what they do, in
# whatever module they live and under whatever name they are imported):
#   list adapter:   `async def f(it): for item in it: yield item`                       f(X) iterates like X
#   chain adapter:  `async def f(*its): for it in its: async for e in it: yield e`      f(...) is itertools.chain(...)
ALIST_NAMES = {"_alist"}
ACHAIN_NAMES = {"_achain"}


def register_helpers(repo) -> None:  # type: ignore[no-untyped-def]
    alist, achain = set(), set()
    for fn in repo.functions.values():
        n = fn.node
        if not isinstance(n, ast.AsyncFunctionDef) or fn.cls is not None:
            continue
        body = [b for b in n.body if not (isinstance(b, ast.Expr) and isinstance(b.value, ast.Constant))]
        if len(body) != 1 or not isinstance(body[0], ast.For) or body[0].orelse or not isinstance(body[0].target, ast.Name):
            continue
        loop = body[0]
        a = n.args
        if (len(a.args) == 1 and not a.vararg and isinstance(loop.iter, ast.Name) and loop.iter.id == a.args[0].arg and len(loop.body) == 1
                and isinstance(loop.body[0], ast.Expr) and isinstance(loop.body[0].value, ast.Yield)
                and isinstance(loop.body[0].value.value, ast.Name) and loop.body[0].value.value.id == loop.target.id):
            alist.add(fn.qualname)
        if (not a.args and a.vararg is not None and isinstance(loop.iter, ast.Name) and loop.iter.id == a.vararg.arg and len(loop.body) == 1
                and isinstance(loop.body[0], ast.AsyncFor) and not loop.body[0].orelse and isinstance(loop.body[0].iter, ast.Name)
                and loop.body[0].iter.id == loop.target.id and isinstance(loop.body[0].target, ast.Name) and len(loop.body[0].body) == 1
                and isinstance(loop.body[0].body[0], ast.Expr) and isinstance(loop.body[0].body[0].value, ast.Yield)
                and isinstance(loop.body[0].body[0].value.value, ast.Name) and loop.body[0].body[0].value.value.id == loop.body[0].target.id):
            achain.add(fn.qualname)
    # the chain adapter with a fixed number of parameters: one `async for x in P: yield x` per parameter, in order
    for fn in repo.functions.values():
        n = fn.node
        if not isinstance(n, ast.AsyncFunctionDef) or fn.cls is not None or n.args.vararg or n.args.kwonlyargs or len(n.args.args) < 2:  # noqa: PLR2004
            continue
        body = [b for b in n.body if not (isinstance(b, ast.Expr) and isinstance(b.value, ast.Constant))]
        params = [a.arg for a in n.args.args]
        if len(body) == len(params) and all(
                isinstance(b, ast.AsyncFor) and not b.orelse and isinstance(b.iter, ast.Name) and b.iter.id == p_ and isinstance(b.target, ast.Name)
                and len(b.body) == 1 and isinstance(b.body[0], ast.Expr) and isinstance(b.body[0].value, ast.Yield)
                and isinstance(b.body[0].value.value, ast.Name) and b.body[0].value.value.id == b.target.id
                for b, p_ in zip(body, params)):
            achain.add(fn.qualname)
    names_l, names_c = set(), set()
    for q in alist:
        names_l.add(q.split(".")[-1])
    for q in achain:
        names_c.add(q.split(".")[-1])
    for mod in repo.modules.values():
        for st in ast.walk(mod.tree) if hasattr(mod, "tree") else []:
            if isinstance(st, ast.ImportFrom):
                for al in st.names:
                    if al.name in {q.split(".")[-1] for q in alist}:
                        names_l.add(al.asname or al.name)
                    if al.name in {q.split(".")[-1] for q in achain}:
                        names_c.add(al.asname or al.name)
    # (the normaliser strips the `_async` suffix from names before it looks at calls)
    names_l |= {_strip_suffix(n) for n in names_l}
    names_c |= {_strip_suffix(n) for n in names_c}
    if names_l:
        ALIST_NAMES.clear()
        ALIST_NAMES.update(names_l)
    if names_c:
        ACHAIN_NAMES.clear()
        ACHAIN_NAMES.update(names_c)


@dataclass

@dataclass
class NormResult:
    body: List[ast.stmt]
    obligations: List[Tuple[str, ast.AST, ast.AST]] = field(default_factory=list)
    idioms: List[str] = field(default_factory=list)

    def dump(self) -> str:
        return "\n".join(ast.dump(s) for s in self.body)

    def text(self) -> List[str]:
        out: List[str] = []
        for s in self.body:
            out.extend(ast.unparse(s).splitlines())
        return out


class _Rewriter(ast.NodeTransformer):
    def __init__(self, res: NormResult) -> None:
        self.res = res

    # --- async -> sync
    def visit_Await(self, node: ast.Await) -> ast.AST:
        return self.visit(node.value)

    def visit_AsyncFor(self, node: ast.AsyncFor) -> ast.AST:
        new = ast.For(
            target=node.target, iter=node.iter, body=node.body, orelse=node.orelse,
            type_comment=None,
        )
        return self.visit_For(ast.copy_location(new, node))

    def visit_AsyncWith(self, node: ast.AsyncWith) -> ast.AST:
        new = ast.With(items=node.items, body=node.body, type_comment=None)
        return self.generic_visit(ast.copy_location(new, node))

    def visit_AsyncFunctionDef(self, node: ast.AsyncFunctionDef) -> ast.AST:
        new = ast.FunctionDef(
            name=node.name, args=node.args, body=node.body,
            decorator_list=node.decorator_list, returns=None, type_comment=None,
            type_params=[],
        )
        return self.visit_FunctionDef(ast.copy_location(new, node))

    def visit_FunctionDef(self, node: ast.FunctionDef) -> ast.AST:
        node.returns = None
        node.name = _strip_suffix(node.name)
        for a in node.args.args + node.args.kwonlyargs + node.args.posonlyargs:
            a.annotation = None
        if node.args.vararg:
            node.args.vararg.annotation = None
        if node.args.kwarg:
            node.args.kwarg.annotation = None
        node.body = _strip_docstring(node.body)
        return self.generic_visit(node)

    def visit_comprehension(self, node: ast.comprehension) -> ast.AST:
        node.is_async = 0
        return self.generic_visit(node)

    # --- names
    def visit_Attribute(self, node: ast.Attribute) -> ast.AST:
        self.generic_visit(node)
        node.attr = _strip_suffix(node.attr)
        # self.env.match_class -> JSONPathMatch
        if (
            node.attr == "match_class"
            and isinstance(node.value, ast.Attribute)
            and node.value.attr == "env"
        ):
            return ast.copy_location(ast.Name(id="JSONPathMatch", ctx=ast.Load()), node)
        return node

    def visit_Name(self, node: ast.Name) -> ast.AST:
        node.id = _strip_suffix(node.id)
        return node

    def visit_ExceptHandler(self, node: ast.ExceptHandler) -> ast.AST:
        if node.name:
            node.name = _strip_suffix(node.name)
        return self.generic_visit(node)

    # --- annotations / asserts
    def visit_AnnAssign(self, node: ast.AnnAssign) -> ast.AST:
        if node.value is None:
            return ast.copy_location(ast.Pass(), node)
        new = ast.Assign(targets=[node.target], value=node.value, type_comment=None)
        return self.generic_visit(ast.copy_location(new, node))

    def visit_Assert(self, node: ast.Assert) -> ast.AST:
        node.msg = None
        return self.generic_visit(node)

    # --- helper equivalences
    def visit_Call(self, node: ast.Call) -> ast.AST:
        self.generic_visit(node)
        f = node.func
        if isinstance(f, ast.Name) and f.id in ALIST_NAMES and len(node.args) == 1 and not node.keywords:
            self.res.idioms.append("_alist(X) == X")
            return node.args[0]
        if isinstance(f, ast.Name) and f.id in ACHAIN_NAMES:
            self.res.idioms.append("_achain == itertools.chain")
            node.func = ast.Attribute(
                value=ast.Name(id="itertools", ctx=ast.Load()), attr="chain", ctx=ast.Load()
            )
            return node
        return node

    def visit_ListComp(self, node: ast.ListComp) -> ast.AST:
        self.generic_visit(node)
        if len(node.generators) == 1:
            g = node.generators[0]
            if (
                not g.ifs
                and isinstance(g.target, ast.Name)
                and isinstance(node.elt, ast.Name)
                and node.elt.id == g.target.id
            ):
                self.res.idioms.append("[m for m in E] == E")
                return g.iter
        return node

    def visit_For(self, node: ast.For) -> ast.AST:
        self.generic_visit(node)
        # for v in E: yield v   ->   yield from E
        if (
            not node.orelse
            and len(node.body) == 1
            and isinstance(node.body[0], ast.Expr)
            and isinstance(node.body[0].value, ast.Yield)
            and isinstance(node.body[0].value.value, ast.Name)
            and isinstance(node.target, ast.Name)
            and node.body[0].value.value.id == node.target.id
        ):
            self.res.idioms.append("for v in E: yield v == yield from E")
            return ast.copy_location(
                ast.Expr(value=ast.YieldFrom(value=node.iter)), node
            )
        return node

    def visit_Try(self, node: ast.Try) -> ast.AST:
        self.generic_visit(node)
        # try: if C: B   except H   ->   try: r = C  except H ; if r: B
        if (
            len(node.body) == 1
            and isinstance(node.body[0], ast.If)
            and not node.body[0].orelse
            and not node.orelse
            and not node.finalbody
        ):
            inner = node.body[0]
            self.res.obligations.append(("try-narrowing", node, inner))
            assign = ast.Assign(
                targets=[ast.Name(id="__narrow", ctx=ast.Store())],
                value=inner.test,
                type_comment=None,
            )
            new_try = ast.Try(body=[assign], handlers=node.handlers, orelse=[], finalbody=[])
            new_if = ast.If(test=ast.Name(id="__narrow", ctx=ast.Load()), body=inner.body, orelse=[])
            self.res.idioms.append("try-narrowing")
            return [ast.copy_location(new_try, node), ast.copy_location(new_if, node)]  # type: ignore[return-value]
        return node


def _strip_docstring(body: List[ast.stmt]) -> List[ast.stmt]:
    if (
        body
        and isinstance(body[0], ast.Expr)
        and isinstance(body[0].value, ast.Constant)
        and isinstance(body[0].value.value, str)
    ):
        rest = body[1:]
        return rest or [ast.Pass()]
    return body


# one-yield generator functions of the package (`async def _aonce(x): yield x`): name -> (parameters, value);
# filled by the rule that runs the normaliser (the normaliser itself sees one function at a time)
ONE_YIELD: Dict[str, Tuple[List[str], ast.expr]] = {}


def register_one_yield(functions) -> None:  # type: ignore[no-untyped-def]
    ONE_YIELD.clear()
    for fn in functions:
        node = fn.node
        body = _strip_docstring(node.body)
        if len(body) == 1 and isinstance(body[0], ast.Expr) and isinstance(body[0].value, ast.Yield) and body[0].value.value is not None:
            a = node.args
            if a.vararg or a.kwarg or a.kwonlyargs or a.defaults:
                continue
            params = [x.arg for x in a.args if x.arg not in ("self", "cls")]
            ONE_YIELD[_strip_suffix(fn.name)] = (params, body[0].value.value)


class _Param(ast.NodeTransformer):
    def __init__(self, m: Dict[str, ast.expr]) -> None:
        self.m = m

    def visit_Name(self, node: ast.Name) -> ast.AST:
        if node.id in self.m and isinstance(node.ctx, ast.Load):
            return copy.deepcopy(self.m[node.id])
        return node


def _inline_one_yield_generators(body: List[ast.stmt], res: NormResult) -> List[ast.stmt]:
    """def g(): yield X ... v = g()  ->  v = [X]."""
    gens: Dict[str, ast.expr] = {}
    out: List[ast.stmt] = []
    if ONE_YIELD:
        class Inl0(ast.NodeTransformer):
            def visit_Call(self, node: ast.Call) -> ast.AST:
                self.generic_visit(node)
                name = node.func.id if isinstance(node.func, ast.Name) else (node.func.attr if isinstance(node.func, ast.Attribute) else None)
                if name in ONE_YIELD and not node.keywords and len(node.args) == len(ONE_YIELD[name][0]):
                    params, value = ONE_YIELD[name]
                    res.idioms.append("one-yield generator function == one-element list")
                    return ast.List(elts=[_Param(dict(zip(params, node.args))).visit(copy.deepcopy(value))], ctx=ast.Load())
                return node

        body = [Inl0().visit(s) for s in body]
    gen_params: Dict[str, List[str]] = {}
    for s in body:
        a_ = s.args if isinstance(s, ast.FunctionDef) else None
        if (isinstance(s, ast.FunctionDef) and len(s.body) == 1 and a_ is not None
                and not (a_.vararg or a_.kwarg or a_.kwonlyargs or a_.defaults or a_.posonlyargs)):
            b = s.body[0]
            if isinstance(b, ast.Expr) and isinstance(b.value, ast.Yield) and b.value.value is not None:
                gens[s.name] = b.value.value
                gen_params[s.name] = [x.arg for x in a_.args]  # `def just(root): yield root` ... `just(node)`
                continue
        out.append(s)
    if not gens:
        return body

    class Inl(ast.NodeTransformer):
        def visit_Call(self, node: ast.Call) -> ast.AST:
            self.generic_visit(node)
            if (isinstance(node.func, ast.Name) and node.func.id in gens and not node.keywords
                    and len(node.args) == len(gen_params[node.func.id]) and not any(isinstance(x, ast.Starred) for x in node.args)):
                res.idioms.append("one-yield local generator == one-element list")
                value = _Param(dict(zip(gen_params[node.func.id], node.args))).visit(copy.deepcopy(gens[node.func.id]))
                return ast.List(elts=[value], ctx=ast.Load())
            return node

    return [Inl().visit(s) for s in out]


def _normalise_narrow_name(body: List[ast.stmt]) -> None:
    """The narrowed-try temporary may be spelled by the author (`result`)."""
    # Handled by alpha renaming: `__narrow` is a local like any other.


class _Alpha(ast.NodeTransformer):
    """Rename locals in order of first binding occurrence."""

    def __init__(self, keep: set) -> None:
        self.map: Dict[str, str] = {}
        self.keep = keep

    def _name(self, n: str) -> str:
        if n in self.keep:
            return n
        if n not in self.map:
            self.map[n] = f"v{len(self.map)}"
        return self.map[n]

    def collect(self, body: List[ast.stmt], params: List[str]) -> None:
        for p in params:
            self._name(p)
        for s in body:
            for node in ast.walk(s):
                if isinstance(node, ast.Name) and isinstance(node.ctx, (ast.Store, ast.Del)):
                    self._name(node.id)
                elif isinstance(node, ast.ExceptHandler) and node.name:
                    self._name(node.name)
                elif isinstance(node, ast.arg):
                    self._name(node.arg)

    def visit_Name(self, node: ast.Name) -> ast.AST:
        if node.id in self.map:
            node.id = self.map[node.id]
        return node

    def visit_ExceptHandler(self, node: ast.ExceptHandler) -> ast.AST:
        if node.name and node.name in self.map:
            node.name = self.map[node.name]
        return self.generic_visit(node)

    def visit_arg(self, node: ast.arg) -> ast.AST:
        if node.arg in self.map:
            node.arg = self.map[node.arg]
        return node


class _Versioner(ast.NodeTransformer):
    """Alpha-normalisation by definition: every binding occurrence of a local starts a new canonical name
    and a use refers to the latest binding in evaluation order.  Two bodies that differ only in which
    locals they reuse (`err` in both branches here, `err` / `err2` there) get the same text."""

    def __init__(self, keep: set, params: List[str]) -> None:
        self.keep = keep
        self.cur: Dict[str, str] = {}
        self.count = 0
        for p in params:
            self.cur[p] = self._new()

    def _new(self) -> str:
        n = f"v{self.count}"
        self.count += 1
        return n

    def visit_Name(self, node: ast.Name) -> ast.AST:
        if node.id in self.keep:
            return node
        if isinstance(node.ctx, (ast.Store, ast.Del)):
            self.cur[node.id] = self._new()
            node.id = self.cur[node.id]
        elif node.id in self.cur:
            node.id = self.cur[node.id]
        return node

    def visit_Assign(self, node: ast.Assign) -> ast.AST:
        node.value = self.visit(node.value)
        node.targets = [self.visit(t) for t in node.targets]
        return node

    def visit_AugAssign(self, node: ast.AugAssign) -> ast.AST:
        node.value = self.visit(node.value)
        if isinstance(node.target, ast.Name) and node.target.id in self.cur:
            node.target.id = self.cur[node.target.id]  # updates the current binding in place
        else:
            node.target = self.visit(node.target)
        return node

    def visit_AnnAssign(self, node: ast.AnnAssign) -> ast.AST:
        if node.value is not None:
            node.value = self.visit(node.value)
        node.target = self.visit(node.target)
        return node

    def visit_For(self, node: ast.For) -> ast.AST:
        node.iter = self.visit(node.iter)
        node.target = self.visit(node.target)
        node.body = [self.visit(s) for s in node.body]
        node.orelse = [self.visit(s) for s in node.orelse]
        return node

    def _comp(self, node):  # type: ignore[no-untyped-def]
        for g in node.generators:
            g.iter = self.visit(g.iter)
            g.target = self.visit(g.target)
            g.ifs = [self.visit(c) for c in g.ifs]
        if isinstance(node, ast.DictComp):
            node.key = self.visit(node.key)
            node.value = self.visit(node.value)
        else:
            node.elt = self.visit(node.elt)
        return node

    visit_ListComp = _comp
    visit_SetComp = _comp
    visit_GeneratorExp = _comp
    visit_DictComp = _comp

    def visit_ExceptHandler(self, node: ast.ExceptHandler) -> ast.AST:
        if node.type is not None:
            node.type = self.visit(node.type)
        if node.name:
            self.cur[node.name] = self._new()
            node.name = self.cur[node.name]
        node.body = [self.visit(s) for s in node.body]
        return node

    def visit_arg(self, node: ast.arg) -> ast.AST:
        if node.arg not in self.keep:
            self.cur[node.arg] = self._new()
            node.arg = self.cur[node.arg]
        return node

    def visit_FunctionDef(self, node: ast.FunctionDef) -> ast.AST:
        self.cur[node.name] = self._new()
        node.name = self.cur[node.name]
        return self.generic_visit(node)


def _binding_order(body: List[ast.stmt], params: List[str]) -> List[str]:
    """Locals in the order of their first binding occurrence in source order."""
    order: List[str] = list(params)

    class V(ast.NodeVisitor):
        def visit_Name(self, node: ast.Name) -> None:
            if isinstance(node.ctx, (ast.Store, ast.Del)) and node.id not in order:
                order.append(node.id)

        def visit_ExceptHandler(self, node: ast.ExceptHandler) -> None:
            if node.name and node.name not in order:
                order.append(node.name)
            self.generic_visit(node)

        def visit_arg(self, node: ast.arg) -> None:
            if node.arg not in order:
                order.append(node.arg)

        def visit_ListComp(self, node: ast.ListComp) -> None:
            for g in node.generators:
                self.visit(g)
            self.visit(node.elt)

        visit_SetComp = visit_ListComp
        visit_GeneratorExp = visit_ListComp

        def visit_DictComp(self, node: ast.DictComp) -> None:
            for g in node.generators:
                self.visit(g)
            self.visit(node.key)
            self.visit(node.value)

    v = V()
    for s in body:
        v.visit(s)
    return order


def normalise(fn_node: ast.AST, alpha: bool = True) -> NormResult:
    node = copy.deepcopy(fn_node)
    res = NormResult(body=[])
    assert isinstance(node, (ast.FunctionDef, ast.AsyncFunctionDef))
    params = [a.arg for a in node.args.posonlyargs + node.args.args + node.args.kwonlyargs]
    if node.args.vararg:
        params.append(node.args.vararg.arg)
    if node.args.kwarg:
        params.append(node.args.kwarg.arg)
    body = _strip_docstring(node.body)
    rw = _Rewriter(res)
    new_body: List[ast.stmt] = []
    for s in body:
        r = rw.visit(s)
        if isinstance(r, list):
            new_body.extend(r)
        elif r is not None:
            new_body.append(r)
    new_body = _flatten(new_body)
    new_body = _inline_one_yield_generators(new_body, res)
    new_body = [s for s in new_body if not isinstance(s, ast.Pass)] or [ast.Pass()]
    # the rewrites above leave non-canonical shapes behind (narrowed `try`, inlined generators)
    from . import canon as _canon

    if _canon.ENABLED:
        shell = ast.FunctionDef(name="_twin", args=node.args, body=new_body, decorator_list=[], returns=None,
                                type_comment=None, type_params=[])
        ast.fix_missing_locations(shell)
        _canon.Canon(_canon.DEFAULT_MUTABLE_ATTRS).function(shell)
        new_body = shell.body or [ast.Pass()]
    if alpha:
        keep = {"self", "cls"}
        ver = _Versioner(keep, [p for p in params if p not in keep])
        new_body = [ver.visit(s) for s in new_body]
    for s in new_body:
        ast.fix_missing_locations(s)
    res.body = new_body
    return res


def _flatten(body: List[ast.stmt]) -> List[ast.stmt]:
    """NodeTransformer may return lists for statements nested in blocks: it
    splices them itself; only the top level needs care (done by caller)."""
    return body


def diff_text(a: NormResult, b: NormResult, la: str, lb: str) -> str:
    return "\n".join(
        difflib.unified_diff(a.text(), b.text(), fromfile=la, tofile=lb, lineterm="", n=1)
    )


def first_diff(a: NormResult, b: NormResult) -> Tuple[Optional[str], Optional[str]]:
    ta, tb = a.text(), b.text()
    sm = difflib.SequenceMatcher(a=ta, b=tb, autojunk=False)
    for tag, i1, i2, j1, j2 in sm.get_opcodes():
        if tag != "equal":
            return (" / ".join(x.strip() for x in ta[i1:i2]) or None,
                    " / ".join(x.strip() for x in tb[j1:j2]) or None)
    return None, None


def equal(a: NormResult, b: NormResult) -> bool:
    return a.dump() == b.dump()
