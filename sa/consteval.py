"""Constant folding over the analysed source.

A small evaluator for the *constant* sub-language the package uses to build its
tables (operator maps, token spellings, lexer rule list, regular expressions,
argparse options).  It never imports the analysed package: names are resolved
through the loader's import tables and folded recursively.  Only a whitelist of
pure standard-library functions is applied to folded values.
"""

from __future__ import annotations

import ast
import re
import sys
from dataclasses import dataclass
from dataclasses import field
from typing import Any
from typing import Callable
from typing import Dict
from typing import List
from typing import Optional

from .loader import ClassInfo
from .loader import FuncInfo
from .loader import Module
from .loader import Repo


class NotConst(Exception):
    """The expression cannot be folded."""


@dataclass(frozen=True)
class RegexConst:
    pattern: str
    flags: int = 0


@dataclass(frozen=True)
class ClassRef:
    cls: ClassInfo


@dataclass(frozen=True)
class FuncRef:
    func: FuncInfo


@dataclass(frozen=True)
class ExtRef:
    name: str


@dataclass(frozen=True)
class BoundMethod:
    cls: ClassInfo
    name: str


@dataclass(frozen=True)
class PartialMethod(BoundMethod):
    """`functools.partial(obj.method, a, k=b)`: the method, with the arguments already given."""

    args: tuple = ()  # type: ignore[type-arg]
    kwargs: tuple = ()  # type: ignore[type-arg]


@dataclass(frozen=True)
class EnumMember:
    cls: ClassInfo
    name: str
    value: Any = None

    def __repr__(self) -> str:
        return f"{self.cls.name}.{self.name}"


@dataclass(eq=False)
class Instance:
    cls: ClassInfo
    overrides: Dict[str, Any] = field(default_factory=dict)

    def __repr__(self) -> str:
        return f"<instance {self.cls.name}>"


@dataclass(eq=False)
class Closure:
    node: ast.Lambda
    scope: "Scope"


class Scope:
    def __init__(
        self,
        folder: "Folder",
        module: Module,
        cls: Optional[ClassInfo] = None,
        locals_: Optional[Dict[str, Any]] = None,
        parent: Optional["Scope"] = None,
    ) -> None:
        self.folder = folder
        self.module = module
        self.cls = cls
        self.locals = dict(locals_ or {})
        self.parent = parent

    def child(self, extra: Dict[str, Any]) -> "Scope":
        return Scope(self.folder, self.module, self.cls, extra, parent=self)

    def lookup(self, name: str) -> Any:
        s: Optional[Scope] = self
        while s is not None:
            if name in s.locals:
                return s.locals[name]
            s = s.parent
        if self.cls is not None and name in self.cls.assigns and self.in_class_body:
            rhs = self.cls.assigns[name]
            if isinstance(rhs, ast.Name) and rhs.id == name:
                # `RE_FLAG_MAP = RE_FLAG_MAP` in a class body: the right-hand side is the module's name
                return self.folder.global_value(self.module, name)
            return self.folder.eval(
                rhs, Scope(self.folder, self.module, self.cls)
            )
        return self.folder.global_value(self.module, name)

    @property
    def in_class_body(self) -> bool:
        # A scope with `self` bound belongs to a method: class-body names are not
        # visible there without `self.`.
        s: Optional[Scope] = self
        while s is not None:
            if "self" in s.locals:
                return False
            s = s.parent
        return True


_ENUM_BASES = {"Enum", "IntEnum", "Flag", "IntFlag"}

_PURE_BUILTINS: Dict[str, Callable[..., Any]] = {
    "len": len,
    "str": str,
    "int": int,
    "float": float,
    "bool": bool,
    "repr": repr,
    "tuple": tuple,
    "list": list,
    "set": set,
    "frozenset": frozenset,
    "dict": dict,
    "range": range,
    "abs": abs,
    "min": min,
    "max": max,
    "enumerate": enumerate,
    "zip": zip,
    "any": any,
    "all": all,
    "reversed": reversed,
    "sum": sum,
    "ord": ord,
    "chr": chr,
}

_PURE_STR_METHODS = {
    "join",
    "lower",
    "upper",
    "strip",
    "lstrip",
    "rstrip",
    "replace",
    "format",
    "split",
    "startswith",
    "endswith",
}


class Folder:
    def __init__(self, repo: Repo) -> None:
        self.repo = repo
        self._global_cache: Dict[tuple, Any] = {}
        self._in_progress: set = set()

    # ---------------------------------------------------------------- names
    def global_value(self, mod: Module, name: str) -> Any:
        key = (mod.name, name)
        if key in self._global_cache:
            return self._global_cache[key]
        if key in self._in_progress:
            raise NotConst(f"cyclic constant {name}")
        self._in_progress.add(key)
        try:
            val = self._global_value(mod, name)
        finally:
            self._in_progress.discard(key)
        self._global_cache[key] = val
        return val

    def _global_value(self, mod: Module, name: str) -> Any:
        if name in ("True", "False", "None"):
            return {"True": True, "False": False, "None": None}[name]
        kind, val = self.repo.resolve_global(mod, name)
        if kind == "class":
            return ClassRef(val)  # type: ignore[arg-type]
        if kind == "func":
            return FuncRef(val)  # type: ignore[arg-type]
        if kind == "const":
            m, expr = val  # type: ignore[misc]
            if m is not mod:
                # a constant imported from another module is the same object there (`UNDEFINED` is one sentinel
                # whichever module names it): folded once, under the module that defines it
                home = next((k for k, v in m.assigns.items() if v is expr), None)
                if home is not None:
                    return self.global_value(m, home)
            return self.eval(expr, Scope(self, m))
        if kind == "module":
            return val
        if kind == "classattr":
            cls, attr = val  # type: ignore[misc]
            return self.class_attr(cls, attr)
        if kind == "ext":
            return ExtRef(str(val))
        raise NotConst(name)

    def class_attr(self, cls: ClassInfo, attr: str) -> Any:
        head, _, rest = attr.partition(".")
        # enum member?
        if any(b.split(".")[-1] in _ENUM_BASES for b in cls.base_names):
            if head in cls.assigns:
                try:
                    v = self.eval(cls.assigns[head], Scope(self, cls.module, cls))
                except NotConst:
                    v = None
                res: Any = EnumMember(cls, head, v)
                if rest:
                    raise NotConst(attr)
                return res
        hit = self.repo.class_attr(cls, head)
        if hit is not None:
            owner, expr = hit
            v = self.eval(expr, Scope(self, owner.module, owner))
            if rest:
                return self.getattr(v, rest)
            return v
        m = self.repo.find_method(cls, head)
        if m is not None and not rest:
            return FuncRef(m)
        raise NotConst(f"{cls.name}.{attr}")

    def instance_attr(self, inst: Instance, attr: str) -> Any:
        if attr in inst.overrides:
            return inst.overrides[attr]
        cls = inst.cls
        # fields assigned in __init__
        for q in self.repo.mro(cls):
            info = self.repo.classes.get(q)
            if info is None:
                continue
            init = info.methods.get("__init__")
            if init is not None:
                found = self._init_field(inst, init, attr)
                if found is not _MISSING:
                    return found
            if attr in info.assigns:
                return self.eval(info.assigns[attr], Scope(self, info.module, info))
            if attr in info.methods:
                return BoundMethod(cls, attr)
        raise NotConst(f"{cls.name}().{attr}")

    def _init_field(self, inst: Instance, init: FuncInfo, attr: str) -> Any:
        values = []
        for node in ast.walk(init.node):
            targets: List[ast.expr] = []
            value: Optional[ast.expr] = None
            if isinstance(node, ast.Assign):
                targets, value = node.targets, node.value
            elif isinstance(node, ast.AnnAssign) and node.value is not None:
                targets, value = [node.target], node.value
            for t in targets:
                if (
                    isinstance(t, ast.Attribute)
                    and isinstance(t.value, ast.Name)
                    and t.value.id == "self"
                    and t.attr == attr
                ):
                    values.append(value)
        if not values:
            return _MISSING
        if len(values) > 1:
            raise NotConst(f"field {attr} assigned more than once in __init__")
        value = values[0]
        assert value is not None
        # parameter with a class annotation -> an opaque instance of that class
        if isinstance(value, ast.Name):
            for a in init.node.args.args + init.node.args.kwonlyargs:
                if a.arg == value.id and a.annotation is not None:
                    cls = self.annotation_class(init.module, a.annotation)
                    if cls is not None:
                        return Instance(cls)
                    raise NotConst(f"field {attr} comes from parameter {a.arg}")
        scope = Scope(self, init.module, init.cls, {"self": inst})
        return self.eval(value, scope)

    def annotation_class(self, mod: Module, ann: ast.expr) -> Optional[ClassInfo]:
        if isinstance(ann, ast.Constant) and isinstance(ann.value, str):
            try:
                ann = ast.parse(ann.value, mode="eval").body
            except SyntaxError:
                return None
        d = self.repo.dotted(ann)
        if d is None:
            return None
        kind, val = self.repo.resolve_global(mod, d)
        if kind == "class":
            return val  # type: ignore[return-value]
        return None

    def getattr(self, v: Any, attr: str) -> Any:
        head, _, rest = attr.partition(".")
        if isinstance(v, Instance):
            r = self.instance_attr(v, head)
        elif isinstance(v, ClassRef):
            r = self.class_attr(v.cls, head)
        elif isinstance(v, Module):
            r = self.global_value(v, head)
        elif isinstance(v, ExtRef):
            r = self._ext_attr(v, head)
        elif isinstance(v, EnumMember) and head == "value":
            r = v.value
        elif isinstance(v, EnumMember) and head == "name":
            r = v.name
        elif isinstance(v, RegexConst) and head in ("pattern", "flags"):
            r = getattr(v, head)
        else:
            raise NotConst(f"attribute {attr} of {type(v).__name__}")
        return self.getattr(r, rest) if rest else r

    def _ext_attr(self, v: ExtRef, attr: str) -> Any:
        full = f"{v.name}.{attr}"
        if v.name == "re" and attr.isupper() and hasattr(re, attr):
            return getattr(re, attr)
        if full in ("math.inf", "math.nan", "math.pi", "math.e", "math.tau"):
            import math

            return getattr(math, attr)  # the float constants of the standard library
        if full in ("sys.stdin", "sys.stdout", "sys.stderr"):
            return ExtRef(full)
        return ExtRef(full)

    # ----------------------------------------------------------------- eval
    def eval_in(self, expr: ast.expr, mod: Module, cls: Optional[ClassInfo] = None,
                locals_: Optional[Dict[str, Any]] = None) -> Any:
        return self.eval(expr, Scope(self, mod, cls, locals_))

    def try_eval(self, expr: ast.expr, scope: Scope, default: Any = None) -> Any:
        try:
            return self.eval(expr, scope)
        except NotConst:
            return default

    def eval(self, e: ast.expr, scope: Scope) -> Any:
        try:
            return self._eval(e, scope)
        except NotConst:
            raise
        except RecursionError:
            raise
        except Exception as err:  # noqa: BLE001 - anything else means "not a constant"
            raise NotConst(f"{type(err).__name__}: {err}") from err

    def _eval(self, e: ast.expr, scope: Scope) -> Any:  # noqa: PLR0911, PLR0912
        if isinstance(e, ast.Constant):
            return e.value
        if isinstance(e, ast.Name):
            return scope.lookup(e.id)
        if isinstance(e, ast.Attribute):
            base = self.eval(e.value, scope)
            return self.getattr(base, e.attr)
        if isinstance(e, ast.JoinedStr):
            out = []
            for part in e.values:
                if isinstance(part, ast.Constant):
                    out.append(str(part.value))
                elif isinstance(part, ast.FormattedValue):
                    v = self.eval(part.value, scope)
                    if not isinstance(v, (str, int, float, bool)):
                        raise NotConst("f-string part")
                    if part.conversion == ord("r"):
                        v = repr(v)
                    elif part.conversion == ord("s"):
                        v = str(v)
                    if part.format_spec is not None:
                        spec = self.eval(part.format_spec, scope)
                        v = format(v, spec)
                    out.append(str(v))
            return "".join(out)
        if isinstance(e, ast.Tuple):
            return tuple(self._elts(e.elts, scope))
        if isinstance(e, ast.List):
            return list(self._elts(e.elts, scope))
        if isinstance(e, ast.Set):
            return set(self._elts(e.elts, scope))
        if isinstance(e, ast.Dict):
            d = {}
            for k, v in zip(e.keys, e.values):
                if k is None:
                    d.update(self.eval(v, scope))
                else:
                    d[self._hashable(self.eval(k, scope))] = self.eval(v, scope)
            return d
        if isinstance(e, ast.BinOp):
            left = self.eval(e.left, scope)
            right = self.eval(e.right, scope)
            return self._binop(e.op, left, right)
        if isinstance(e, ast.UnaryOp):
            v = self.eval(e.operand, scope)
            if isinstance(e.op, ast.USub):
                return -v
            if isinstance(e.op, ast.UAdd):
                return +v
            if isinstance(e.op, ast.Not):
                return not v
            if isinstance(e.op, ast.Invert):
                return ~v
        if isinstance(e, ast.BoolOp):
            vals = [self.eval(v, scope) for v in e.values]
            if isinstance(e.op, ast.And):
                r = True
                for v in vals:
                    r = v
                    if not v:
                        return v
                return r
            r = False
            for v in vals:
                r = v
                if v:
                    return v
            return r
        if isinstance(e, ast.Compare):
            left = self.eval(e.left, scope)
            for op, comp in zip(e.ops, e.comparators):
                right = self.eval(comp, scope)
                if not self._cmp(op, left, right):
                    return False
                left = right
            return True
        if isinstance(e, ast.IfExp):
            return self.eval(e.body if self.eval(e.test, scope) else e.orelse, scope)
        if isinstance(e, ast.Subscript):
            base = self.eval(e.value, scope)
            if isinstance(e.slice, ast.Slice):
                lo = self.eval(e.slice.lower, scope) if e.slice.lower else None
                hi = self.eval(e.slice.upper, scope) if e.slice.upper else None
                st = self.eval(e.slice.step, scope) if e.slice.step else None
                return base[lo:hi:st]
            idx = self.eval(e.slice, scope)
            try:
                return base[idx]
            except Exception as err:
                raise NotConst(f"subscript: {err}") from err
        if isinstance(e, ast.Lambda):
            return Closure(e, scope)
        if isinstance(e, (ast.ListComp, ast.GeneratorExp, ast.SetComp)):
            items = list(self._comp(e.generators, scope, lambda s: self.eval(e.elt, s)))
            if isinstance(e, ast.SetComp):
                return set(items)
            return items
        if isinstance(e, ast.DictComp):
            pairs = list(
                self._comp(
                    e.generators,
                    scope,
                    lambda s: (self._hashable(self.eval(e.key, s)), self.eval(e.value, s)),
                )
            )
            return dict(pairs)
        if isinstance(e, ast.Starred):
            raise NotConst("bare starred")
        if isinstance(e, ast.Call):
            return self._call(e, scope)
        raise NotConst(type(e).__name__)

    def _hashable(self, v: Any) -> Any:
        try:
            hash(v)
        except TypeError as err:
            raise NotConst("unhashable key") from err
        return v

    def _elts(self, elts: List[ast.expr], scope: Scope) -> List[Any]:
        out: List[Any] = []
        for x in elts:
            if isinstance(x, ast.Starred):
                out.extend(self.eval(x.value, scope))
            else:
                out.append(self.eval(x, scope))
        return out

    def _comp(self, gens: List[ast.comprehension], scope: Scope, fn: Callable[[Scope], Any]):
        def rec(i: int, s: Scope):
            if i == len(gens):
                yield fn(s)
                return
            g = gens[i]
            it = self.eval(g.iter, s)
            if isinstance(it, dict):
                it = list(it)
            for item in it:
                inner = s.child({})
                self._bind(g.target, item, inner)
                if all(self.eval(c, inner) for c in g.ifs):
                    yield from rec(i + 1, inner)

        yield from rec(0, scope)

    def _bind(self, target: ast.expr, value: Any, scope: Scope) -> None:
        if isinstance(target, ast.Name):
            scope.locals[target.id] = value
        elif isinstance(target, (ast.Tuple, ast.List)):
            vals = list(value)
            if len(vals) != len(target.elts):
                raise NotConst("unpack")
            for t, v in zip(target.elts, vals):
                self._bind(t, v, scope)
        else:
            raise NotConst("bind target")

    def _binop(self, op: ast.operator, a: Any, b: Any) -> Any:
        try:
            if isinstance(op, ast.Add):
                return a + b
            if isinstance(op, ast.Sub):
                return a - b
            if isinstance(op, ast.Mult):
                return a * b
            if isinstance(op, ast.Pow):
                return a**b
            if isinstance(op, ast.Mod):
                return a % b
            if isinstance(op, ast.BitOr):
                return a | b
            if isinstance(op, ast.BitAnd):
                return a & b
            if isinstance(op, ast.FloorDiv):
                return a // b
        except Exception as err:
            raise NotConst(f"binop: {err}") from err
        raise NotConst("binop")

    def _cmp(self, op: ast.cmpop, a: Any, b: Any) -> bool:
        try:
            if isinstance(op, ast.Eq):
                return a == b
            if isinstance(op, ast.NotEq):
                return a != b
            if isinstance(op, ast.Lt):
                return a < b
            if isinstance(op, ast.LtE):
                return a <= b
            if isinstance(op, ast.Gt):
                return a > b
            if isinstance(op, ast.GtE):
                return a >= b
            if isinstance(op, ast.In):
                return a in b
            if isinstance(op, ast.NotIn):
                return a not in b
            if isinstance(op, ast.Is):
                return a is b
            if isinstance(op, ast.IsNot):
                return a is not b
        except Exception as err:
            raise NotConst(f"compare: {err}") from err
        raise NotConst("compare")

    def call_closure(self, c: Closure, *args: Any) -> Any:
        params = [a.arg for a in c.node.args.args]
        if len(params) != len(args):
            raise NotConst("lambda arity")
        return self.eval(c.node.body, c.scope.child(dict(zip(params, args))))

    def _call(self, e: ast.Call, scope: Scope) -> Any:  # noqa: PLR0911, PLR0912
        # method call on a folded value?
        if isinstance(e.func, ast.Attribute):
            try:
                recv = self.eval(e.func.value, scope)
            except NotConst:
                recv = _MISSING
            meth = e.func.attr
            if isinstance(recv, str) and meth in _PURE_STR_METHODS:
                args = self._elts(e.args, scope)
                if meth == "join":
                    args = [list(args[0])]
                return getattr(recv, meth)(*args)
            if isinstance(recv, dict) and meth in ("items", "keys", "values", "get"):
                args = self._elts(e.args, scope)
                r = getattr(recv, meth)(*args)
                return list(r) if meth != "get" else r
            if isinstance(recv, (set, frozenset)) and meth in ("union", "intersection"):
                return getattr(recv, meth)(*self._elts(e.args, scope))
            if isinstance(recv, ExtRef) and recv.name == "str" and meth == "maketrans":
                return str.maketrans(*self._elts(e.args, scope))
            if isinstance(recv, ExtRef):
                full = f"{recv.name}.{meth}"
                args = self._elts(e.args, scope)
                kwargs = {k.arg: self.eval(k.value, scope) for k in e.keywords if k.arg}
                if full == "sys.intern":
                    return sys.intern(args[0])
                if full == "re.escape":
                    return re.escape(args[0])
                if full == "re.compile":
                    flags = args[1] if len(args) > 1 else kwargs.get("flags", 0)
                    if not isinstance(args[0], str):
                        raise NotConst("re.compile of non-constant")
                    return RegexConst(args[0], int(flags))
                raise NotConst(f"call {full}")
        func = self.eval(e.func, scope)
        args = self._elts(e.args, scope)
        kwargs = {}
        for k in e.keywords:
            if k.arg is None:
                raise NotConst("**kwargs")
            kwargs[k.arg] = self.eval(k.value, scope)
        if isinstance(func, ExtRef):
            name = func.name
            if name in _PURE_BUILTINS:
                fn = _PURE_BUILTINS[name]
                if name in ("any", "all", "sum", "min", "max", "tuple", "list", "set",
                            "frozenset", "enumerate", "reversed"):
                    args = [list(a) if not isinstance(a, (str, dict)) else a for a in args]
                try:
                    r = fn(*args, **kwargs)
                except Exception as err:
                    raise NotConst(f"{name}: {err}") from err
                if name in ("range", "enumerate", "zip", "reversed"):
                    r = list(r)
                return r
            if name == "next" and args and isinstance(args[0], list) and isinstance(e.args[0], ast.GeneratorExp):
                # first element of a folded generator expression
                if args[0]:
                    return args[0][0]
                if len(args) > 1:
                    return args[1]
                raise NotConst("next() of an empty generator")
            if name == "sorted":
                key = kwargs.get("key")
                rev = bool(kwargs.get("reverse", False))
                seq = list(args[0])
                if isinstance(key, Closure):
                    return sorted(seq, key=lambda x: self.call_closure(key, x), reverse=rev)
                if key is None:
                    return sorted(seq, reverse=rev)
                if isinstance(key, ExtRef) and key.name == "len":
                    return sorted(seq, key=len, reverse=rev)
                raise NotConst("sorted key")
            if name == "sys.intern":
                return sys.intern(args[0])
            if name == "re.escape":
                return re.escape(args[0])
            if name == "re.compile":
                flags = args[1] if len(args) > 1 else kwargs.get("flags", 0)
                return RegexConst(args[0], int(flags))
            if name in ("functools.partial", "partial") and args and isinstance(args[0], BoundMethod) and not isinstance(args[0], PartialMethod):
                def _key(v: Any) -> Any:
                    return v if isinstance(v, (str, int, float, bool, type(None), ClassRef, ExtRef, EnumMember)) else repr(v)

                return PartialMethod(args[0].cls, args[0].name, tuple(_key(a) for a in args[1:]), tuple(sorted((k, _key(v)) for k, v in kwargs.items())))
            raise NotConst(f"call of external {name}")
        if isinstance(func, ClassRef):
            return Instance(func.cls, {})
        if isinstance(func, Closure):
            return self.call_closure(func, *args)
        if isinstance(func, FuncRef) and func.func.cls is None and not getattr(func.func.node, "decorator_list", None) \
                and isinstance(func.func.node, ast.FunctionDef):
            # a plain module-level helper with a straight-line body: its parameters bound, its return value folded
            fa = func.func.node.args
            if fa.vararg or fa.kwarg or fa.posonlyargs:
                raise NotConst(f"call of {func.func.qualname}: parameter list")
            params = [a.arg for a in fa.args]
            if len(args) > len(params):
                raise NotConst(f"call of {func.func.qualname}: too many arguments")
            bound: Dict[str, Any] = dict(zip(params, args))
            defaults = dict(zip(params[len(params) - len(fa.defaults):], fa.defaults))
            for a, d in zip(fa.kwonlyargs, fa.kw_defaults):
                if d is not None:
                    defaults[a.arg] = d
            names = set(params) | {a.arg for a in fa.kwonlyargs}
            for k_, v_ in kwargs.items():
                if k_ not in names or k_ in bound:
                    raise NotConst(f"call of {func.func.qualname}: keyword {k_}")
                bound[k_] = v_
            for n_ in names - set(bound):
                if n_ not in defaults:
                    raise NotConst(f"call of {func.func.qualname}: missing argument {n_}")
                bound[n_] = self.eval(defaults[n_], Scope(self, func.func.module))
            depth = getattr(self, "_call_depth", 0)
            if depth > 8:  # noqa: PLR2004
                raise NotConst(f"call of {func.func.qualname}: too deep")
            self._call_depth = depth + 1
            try:
                return self.eval_function_return(func.func, bound)
            finally:
                self._call_depth = depth
        raise NotConst(f"call of {type(func).__name__}")

    # ------------------------------------------------- straight-line bodies
    def eval_function_return(
        self, fn: FuncInfo, locals_: Optional[Dict[str, Any]] = None
    ) -> Any:
        """Fold the return value of a straight-line function body."""
        scope = Scope(self, fn.module, fn.cls, dict(locals_ or {}))
        for stmt in fn.node.body:
            if isinstance(stmt, ast.Expr) and isinstance(stmt.value, ast.Constant):
                continue  # docstring
            if isinstance(stmt, ast.Assign) and len(stmt.targets) == 1:
                self._bind(stmt.targets[0], self.eval(stmt.value, scope), scope)
            elif isinstance(stmt, ast.AnnAssign) and stmt.value is not None:
                self._bind(stmt.target, self.eval(stmt.value, scope), scope)
            elif isinstance(stmt, ast.Return) and stmt.value is not None:
                return self.eval(stmt.value, scope)
            elif (
                isinstance(stmt, ast.Expr) and isinstance(stmt.value, ast.Call) and isinstance(stmt.value.func, ast.Attribute)
                and isinstance(stmt.value.func.value, ast.Name) and isinstance(scope.locals.get(stmt.value.func.value.id), list)
                and stmt.value.func.attr in ("sort", "append", "extend", "reverse", "insert")
            ):
                # in-place list methods on a local list that was folded
                c = stmt.value
                lst = scope.locals[c.func.value.id]  # type: ignore[union-attr]
                args = [self.eval(a, scope) for a in c.args]
                kws = {k.arg: self.eval(k.value, scope) for k in c.keywords}
                if c.func.attr == "sort":  # type: ignore[union-attr]
                    key = kws.get("key")
                    if isinstance(key, Closure):
                        kf = lambda v, key=key: self.call_closure(key, v)  # noqa: E731
                    elif key is None:
                        kf = None
                    else:
                        raise NotConst("sort key is not a lambda")
                    lst.sort(key=kf, reverse=bool(kws.get("reverse", False)))
                elif not kws:
                    getattr(lst, c.func.attr)(*args)  # type: ignore[union-attr]
                else:
                    raise NotConst("keyword arguments of a list method")
            else:
                raise NotConst(f"statement {type(stmt).__name__} in {fn.qualname}")
        raise NotConst(f"no return in {fn.qualname}")


_MISSING = object()
