"""Helpers the rules have never seen are transparent.

The rules are anchored in the functions of the tree they were written against; their names are frozen
in `known_functions.txt`.  A function that is *not* in that list is a helper somebody extracted later
(`WildSelector._child`, `Parser._parse_index_selector`, ...).  Such a helper has no meaning of its own
for any rule, and analysing it in isolation is wrong in both directions: the guards that make it safe
live in its callers, and the callers no longer contain the construct the rule looks for.  So, before
indexing, every call of a new helper is replaced by the helper's body (parameters substituted, locals
renamed on clashes, `return` turned into the statement the call site needs), and a helper all of
whose calls were replaced is removed.  The rules then see the program as it was before the extraction.

A helper is inlined only when that is unambiguous and behaviour-preserving: its name is defined once in
the package, it is only ever called (never passed around, no decorators other than staticmethod), it is
neither recursive nor a generator, every call passes plain positional / keyword arguments, and its
`return`s sit in if/else trees (not inside loops, `try` or `with`).  Otherwise it stays, and the rules
treat it like any other function.
"""

from __future__ import annotations

import ast
import copy
from pathlib import Path
from typing import Dict
from typing import List
from typing import Optional
from typing import Set
from typing import Tuple

from .canon import FuncNode
from .canon import NameFacts
from .canon import _loc
from .canon import _own_nodes
from .canon import jumps

KNOWN_FILE = Path(__file__).resolve().parent / "known_functions.txt"


def known_functions() -> Set[str]:
    if not KNOWN_FILE.exists():
        return set()
    return {l.strip() for l in KNOWN_FILE.read_text().splitlines() if l.strip() and not l.startswith("#")}


def function_table(trees: Dict[str, ast.Module]) -> List[Tuple[str, Optional[ast.ClassDef], ast.AST, List[ast.stmt]]]:
    """(key, class, function node, the body list that contains it) for module- and class-level functions and
    for functions defined directly in the body of one of those (`outer.<locals>.inner`, class None)."""
    out = []

    def nested(prefix: str, fn: ast.AST) -> None:
        for s in fn.body:  # type: ignore[attr-defined]
            if isinstance(s, FuncNode):
                out.append((f"{prefix}.<locals>.{s.name}", None, s, fn.body))  # type: ignore[attr-defined]

    for modname, tree in trees.items():
        for n in tree.body:
            if isinstance(n, FuncNode):
                out.append((f"{modname}.{n.name}", None, n, tree.body))
                nested(f"{modname}.{n.name}", n)
            elif isinstance(n, ast.ClassDef):
                for m in n.body:
                    if isinstance(m, FuncNode):
                        out.append((f"{modname}.{n.name}.{m.name}", n, m, n.body))
                        nested(f"{modname}.{n.name}.{m.name}", m)
    return out


def _strip_doc(body: List[ast.stmt]) -> List[ast.stmt]:
    if body and isinstance(body[0], ast.Expr) and isinstance(body[0].value, ast.Constant) and isinstance(body[0].value.value, str):
        return body[1:]
    return body


def _simple(e: ast.expr) -> bool:
    while isinstance(e, ast.Attribute):
        e = e.value
    return isinstance(e, (ast.Name, ast.Constant))


class _Rename(ast.NodeTransformer):
    def __init__(self, names: Dict[str, str], subst: Dict[str, ast.expr]) -> None:
        self.names = names
        self.subst = subst

    def visit_Name(self, node: ast.Name) -> ast.AST:
        if node.id in self.subst and isinstance(node.ctx, ast.Load):
            return _loc(copy.deepcopy(self.subst[node.id]), node)
        if node.id in self.names:
            node.id = self.names[node.id]
        return node

    def visit_ExceptHandler(self, node: ast.ExceptHandler) -> ast.AST:
        if node.name and node.name in self.names:
            node.name = self.names[node.name]
        return self.generic_visit(node)


class Helper:
    def __init__(self, key: str, cls: Optional[ast.ClassDef], node: ast.AST, container: List[ast.stmt]) -> None:
        self.key = key
        self.cls = cls
        self.node = node
        self.container = container
        self.name: str = node.name  # type: ignore[attr-defined]
        self.local = ".<locals>." in key
        self.receiver: Optional[str] = None  # "self" / "super": only calls through that receiver (class-resolved hooks)
        decos = [ast.unparse(d) for d in node.decorator_list]  # type: ignore[attr-defined]
        self.static = decos == ["staticmethod"]
        self.plain = decos in ([], ["staticmethod"])
        a = node.args  # type: ignore[attr-defined]
        # `*args` that the body only ever spreads into calls (`f(*args)`) is bound to the tuple of the extra arguments
        self.vararg: Optional[str] = None
        if a.vararg is not None and not a.kwarg and not a.posonlyargs and not a.kwonlyargs:
            va = a.vararg.arg
            uses = [n for n in ast.walk(node) if isinstance(n, ast.Name) and n.id == va]
            spread = [n for n in ast.walk(node) if isinstance(n, ast.Starred) and isinstance(n.value, ast.Name) and n.value.id == va
                      and isinstance(n.ctx, ast.Load)]
            if uses and len(uses) == len(spread) and all(isinstance(n.ctx, ast.Load) for n in uses):
                self.vararg = va
        self.simple_sig = not (a.kwarg or a.posonlyargs) and (a.vararg is None or self.vararg is not None)
        self.params = [x.arg for x in a.args + a.kwonlyargs]
        n_pos_defaults = len(a.defaults)
        self.defaults: Dict[str, ast.expr] = {}
        for p, d in zip(a.args[len(a.args) - n_pos_defaults:], a.defaults):
            self.defaults[p.arg] = d
        for p, d in zip(a.kwonlyargs, a.kw_defaults):
            if d is not None:
                self.defaults[p.arg] = d
        self.n_positional = len(a.args)
        self.is_method = cls is not None and not self.static
        self.is_async = isinstance(node, ast.AsyncFunctionDef)
        own = list(_own_nodes(node))
        self.is_gen = any(isinstance(n, (ast.Yield, ast.YieldFrom)) for n in own)
        self.recursive = any(
            isinstance(n, ast.Call) and ((isinstance(n.func, ast.Name) and n.func.id == self.name)
                                         or (isinstance(n.func, ast.Attribute) and n.func.attr == self.name))
            for n in ast.walk(node))
        self.has_nested = any(isinstance(n, (*FuncNode, ast.ClassDef)) for n in own)
        self.body = _strip_doc(node.body)  # type: ignore[attr-defined]
        self.tail_only = False  # only `return helper(...)` sites can take the body
        self.same_class_only = False  # call sites outside the defining class are left alone
        self.same_module_only = False  # a module-level function whose name other modules use for their own

    def gen_ok(self) -> bool:
        """A generator whose every `yield` is a statement and that never returns early."""
        if not self.is_gen:
            return False
        stmts = {id(n.value) for n in ast.walk(self.node) if isinstance(n, ast.Expr)}
        for n in _own_nodes(self.node):
            if isinstance(n, ast.YieldFrom):
                return False
            if isinstance(n, ast.Return) and n.value is not None:
                return False
            if isinstance(n, ast.Yield) and (id(n) not in stmts or n.value is None):
                return False
        # a bare `return` ends the generator: expressible only in the if/else trees of the top-level block
        return self.returns_ok()

    def returns_ok(self) -> bool:
        """`return` only in if/else trees of the top-level block."""
        def ok(stmts: List[ast.stmt]) -> bool:
            for s in stmts:
                if isinstance(s, ast.If):
                    if not ok(s.body) or not ok(s.orelse):
                        return False
                elif isinstance(s, ast.Return):
                    continue
                elif any(isinstance(n, ast.Return) for n in ast.walk(s)):
                    return False
            return True
        return ok(self.body)


def _bind(h: Helper, call: ast.Call) -> Optional[Dict[str, ast.expr]]:
    if any(isinstance(a, ast.Starred) for a in call.args) or any(k.arg is None for k in call.keywords):
        return None
    params = list(h.params)
    binding: Dict[str, ast.expr] = {}
    npos = h.n_positional
    if h.is_method:
        if not isinstance(call.func, ast.Attribute):
            return None
        recv = call.func.value
        if isinstance(recv, ast.Call) and isinstance(recv.func, ast.Name) and recv.func.id == "super":
            recv = ast.Name(id="self", ctx=ast.Load())
        binding[params[0]] = recv
        pos_params = params[1:npos]
    else:
        pos_params = params[:npos]
    if len(call.args) > len(pos_params):
        extras = call.args[len(pos_params):]
        if h.vararg is None or not all(_simple(x) for x in extras):
            return None
        binding[h.vararg] = ast.Tuple(elts=list(extras), ctx=ast.Load())
    elif h.vararg is not None:
        binding[h.vararg] = ast.Tuple(elts=[], ctx=ast.Load())
    for p, a in zip(pos_params, call.args):
        binding[p] = a
    for k in call.keywords:
        if k.arg not in params or k.arg in binding:
            return None
        binding[k.arg] = k.value  # type: ignore[index]
    for p in params:
        if p not in binding:
            if p in h.defaults:
                binding[p] = h.defaults[p]
            else:
                return None
    return binding


def _expr_form(stmts: List[ast.stmt]) -> Optional[ast.expr]:
    if len(stmts) == 1 and isinstance(stmts[0], ast.Return) and stmts[0].value is not None:
        return stmts[0].value
    if stmts and isinstance(stmts[0], ast.If) and not stmts[0].orelse and jumps(stmts[0].body):
        a = _expr_form(stmts[0].body)
        b = _expr_form(stmts[1:])
        if a is not None and b is not None:
            return _loc(ast.IfExp(test=stmts[0].test, body=a, orelse=b), stmts[0])
    if len(stmts) == 1 and isinstance(stmts[0], ast.If) and stmts[0].orelse:
        a = _expr_form(stmts[0].body)
        b = _expr_form(stmts[0].orelse)
        if a is not None and b is not None:
            return _loc(ast.IfExp(test=stmts[0].test, body=a, orelse=b), stmts[0])
    return None


def _count_loads(e: ast.AST, name: str) -> int:
    return sum(1 for n in ast.walk(e) if isinstance(n, ast.Name) and n.id == name and isinstance(n.ctx, ast.Load))


def _single_exit(stmts: List[ast.stmt], emit) -> Optional[List[ast.stmt]]:  # type: ignore[no-untyped-def]
    """Replace `return v` by emit(v); code after an if that may return moves into the branches that fall through."""
    out: List[ast.stmt] = []
    for i, s in enumerate(stmts):
        if isinstance(s, ast.Return):
            out.extend(emit(s.value, s))
            return out
        if isinstance(s, ast.If) and any(isinstance(n, ast.Return) for n in ast.walk(s)):
            rest = stmts[i + 1:]
            body = _single_exit(s.body + ([] if jumps(s.body) else copy.deepcopy(rest)), emit)
            orelse = _single_exit(s.orelse + ([] if (s.orelse and jumps(s.orelse)) else copy.deepcopy(rest)), emit)
            if body is None or orelse is None:
                return None
            out.append(_loc(ast.If(test=s.test, body=body or [_loc(ast.Pass(), s)], orelse=orelse), s))
            return out
        if any(isinstance(n, ast.Return) for n in ast.walk(s)):
            return None
        out.append(s)
    # control falls off the end: the helper returns None
    if stmts and jumps(stmts):
        return out
    out.extend(emit(None, stmts[-1] if stmts else None))
    return out


class Inliner:
    def __init__(self, trees: Dict[str, ast.Module], known: Set[str]) -> None:
        self.trees = trees
        self.known = known
        self.log: List[str] = []

    def candidates(self) -> List[Helper]:
        table = function_table(self.trees)
        counts: Dict[str, int] = {}
        for tree in self.trees.values():
            for n in ast.walk(tree):
                if isinstance(n, FuncNode):
                    counts[n.name] = counts.get(n.name, 0) + 1
        out = []
        for key, cls, node, container in table:
            name = node.name  # type: ignore[attr-defined]
            if key in self.known or (name.startswith("__") and name.endswith("__")):
                continue
            h = Helper(key, cls, node, container)
            ambiguous = counts.get(name, 0) != 1
            if ambiguous and h.local and sum(1 for x in container if isinstance(x, FuncNode) and x.name == name) == 1:
                ambiguous = False  # a nested function is called by its bare name in the function that defines it
            if ambiguous and not h.is_method and not h.local and cls is None:
                # module-level functions of the same name in *other* modules: a bare call inside this module means
                # this one (call sites in other modules are left alone: `tree is home` below)
                here = next((t for t in self.trees.values() if any(x is node for x in t.body)), None)
                if here is not None and sum(1 for x in here.body if isinstance(x, FuncNode) and x.name == name) == 1 and not any(
                        isinstance(x, (ast.Import, ast.ImportFrom)) and any((a.asname or a.name) == name for a in x.names) for x in ast.walk(here)):
                    others_nested = any(isinstance(x, FuncNode) and x.name == name and x is not node and not any(x is y for y in here.body)
                                        for x in ast.walk(here))
                    if not others_nested:
                        ambiguous = False
                        h.same_module_only = True
            if ambiguous and h.is_method and cls is not None and self._unrelated_namesakes(cls, name):
                # the same name is used by methods of unrelated classes only: `self.name(...)` inside this
                # class can mean this method alone
                ambiguous = False
                h.receiver = "self"
                h.same_class_only = True
            if ambiguous or not h.plain or not h.simple_sig or h.recursive or h.has_nested or (h.is_gen and not h.gen_ok()):
                self.log.append(f"{key}: new, not inlinable (ambiguous name, decorator, signature, generator shape or recursion)")
                continue
            if not h.is_gen and not h.returns_ok():
                # a `return` inside a loop / try / with: the body can still replace a `return helper(...)`
                # statement as it stands (its returns become the caller's)
                h.tail_only = True
            out.append(h)
        return out

    def _unrelated_namesakes(self, cls: ast.ClassDef, name: str) -> bool:
        """Every other function called `name` in the package is a method of a class that is neither an
        ancestor nor a descendant of `cls` (by the base names written in the package)."""
        classes = self._classes()

        def ancestors(c: ast.ClassDef) -> Set[str]:
            out: Set[str] = set()
            work = [c]
            while work:
                cur = work.pop()
                for b in cur.bases:
                    bn = b.id if isinstance(b, ast.Name) else (b.attr if isinstance(b, ast.Attribute) else None)
                    if bn and bn not in out:
                        out.add(bn)
                        if bn in classes:
                            work.append(classes[bn][1])
            return out

        mine = ancestors(cls) | {cls.name}
        for tree in self.trees.values():
            for top in tree.body:
                if isinstance(top, FuncNode) and top.name == name:
                    return False  # a module-level function of that name
                if isinstance(top, ast.ClassDef) and top is not cls:
                    if any(isinstance(m, FuncNode) and m.name == name for m in top.body):
                        if top.name in mine or cls.name in ancestors(top):
                            return False
            for n in ast.walk(tree):
                if isinstance(n, FuncNode) and n.name == name:
                    # nested definitions of that name are not resolved
                    if not any(n in getattr(c, "body", []) for c in ast.walk(tree) if isinstance(c, ast.ClassDef)):
                        return False
        return True

    def _value_uses(self, h: Helper) -> bool:
        """Is the helper mentioned other than as the callee of a call?"""
        for tree in self.trees.values():
            callees = {id(n.func) for n in ast.walk(tree) if isinstance(n, ast.Call)}
            for n in ast.walk(tree):
                if isinstance(n, ast.Attribute) and n.attr == h.name and id(n) not in callees:
                    return True
                if isinstance(n, ast.Name) and n.id == h.name and id(n) not in callees and isinstance(n.ctx, ast.Load) and not h.is_method:
                    # (a method is reached through an attribute; a bare name of the same spelling is a local)
                    stored_locally = any(isinstance(x, ast.Name) and x.id == h.name and isinstance(x.ctx, ast.Store) for x in ast.walk(tree))
                    if not stored_locally:
                        return True
                if isinstance(n, ast.alias) and n.name == h.name:
                    # imported by name: calls through the import are still found by name
                    continue
        return False

    # ------------------------------------------------------------ class hierarchies
    def _classes(self) -> Dict[str, Tuple[str, ast.ClassDef]]:
        out: Dict[str, Tuple[str, ast.ClassDef]] = {}
        for mod, tree in self.trees.items():
            for n in tree.body:
                if isinstance(n, ast.ClassDef):
                    out.setdefault(n.name, (mod, n))
        return out

    def _mro(self, classes: Dict[str, Tuple[str, ast.ClassDef]], c: ast.ClassDef) -> List[Tuple[str, ast.ClassDef]]:
        """Single-inheritance chain inside the package (enough for template-method hierarchies)."""
        out: List[Tuple[str, ast.ClassDef]] = []
        cur: Optional[ast.ClassDef] = c
        seen = set()
        while cur is not None and cur.name not in seen:
            seen.add(cur.name)
            out.append((classes[cur.name][0], cur))
            nxt = None
            for b in cur.bases:
                bn = b.id if isinstance(b, ast.Name) else (b.attr if isinstance(b, ast.Attribute) else None)
                if bn in classes and bn not in seen:
                    nxt = classes[bn][1]
                    break
            cur = nxt
        return out

    @staticmethod
    def _methods(c: ast.ClassDef) -> Dict[str, ast.AST]:
        return {m.name: m for m in c.body if isinstance(m, FuncNode)}

    def devirtualise(self) -> int:
        """Template methods: a known method that a subclass now inherits from a base whose version calls
        hook methods the rules have never seen is copied into the subclass, and every `self.hook(...)` /
        `super().hook(...)` of a never-seen hook is replaced by the body that the class's own hierarchy
        selects.  The subclass then reads as it did before the hooks were introduced."""
        classes = self._classes()
        n = 0
        new_hooks: Dict[str, List[Tuple[str, ast.ClassDef, ast.AST]]] = {}
        for cname, (mod, c) in classes.items():
            for mname, m in self._methods(c).items():
                if f"{mod}.{cname}.{mname}" not in self.known and not (mname.startswith("__") and mname.endswith("__")):
                    new_hooks.setdefault(mname, []).append((mod, c, m))
        hook_names = {k for k, v in new_hooks.items() if len(v) >= 2 or any(
            isinstance(x, ast.Call) and isinstance(x.func, ast.Attribute) and x.func.attr == k and isinstance(x.func.value, ast.Call)
            for _m, _c, f in v for x in ast.walk(f))}
        if not hook_names:
            return 0
        # 1. copy inherited known methods that use hooks into the subclasses that used to define them
        for key in sorted(self.known):
            parts = key.split(".")
            if "<locals>" in key or len(parts) < 3:
                continue
            mod, cname, mname = ".".join(parts[:-2]), parts[-2], parts[-1]
            if cname not in classes or classes[cname][0] != mod:
                continue
            c = classes[cname][1]
            if mname in self._methods(c):
                continue
            for _bm, b in self._mro(classes, c)[1:]:
                bm = self._methods(b).get(mname)
                if bm is None:
                    continue
                uses = any(
                    isinstance(x, ast.Call) and isinstance(x.func, ast.Attribute) and x.func.attr in hook_names
                    and isinstance(x.func.value, ast.Name) and x.func.value.id == "self" for x in ast.walk(bm))
                if uses:
                    c.body.append(copy.deepcopy(bm))
                    self.log.append(f"{key}: inherited template method copied into the subclass")
                    n += 1
                break
        # 2. resolve and inline hook calls class by class
        for _round in range(4):
            did = 0
            for cname, (mod, c) in classes.items():
                chain = self._mro(classes, c)
                for mname, m in list(self._methods(c).items()):
                    for kind, start in (("self", 0), ("super", 1)):
                        for hook in sorted(hook_names):
                            target = None
                            for bmod, b in chain[start:]:
                                t = self._methods(b).get(hook)
                                if t is not None:
                                    target = (bmod, b, t)
                                    break
                            if target is None or target[2] is m:
                                continue
                            h = Helper(f"{target[0]}.{target[1].name}.{hook}", target[1], target[2], target[1].body)
                            if not h.plain or not h.simple_sig or h.is_gen or h.has_nested or not h.returns_ok():
                                continue
                            h.receiver = kind
                            for _ in range(20):
                                if self._inline_one(m, h) is None:
                                    break
                                did += 1
            n += did
            if not did:
                break
        # 3. hooks nobody calls any more disappear
        for hook in sorted(hook_names):
            still = any(isinstance(x, ast.Attribute) and x.attr == hook for tree in self.trees.values() for x in ast.walk(tree))
            if not still:
                for _mod, c, f in new_hooks[hook]:
                    if f in c.body:
                        c.body.remove(f)
                self.log.append(f"hook `{hook}`: resolved per class and removed")
        return n

    def delegations(self) -> int:
        """An async method that delegates to its own sync twin (`for m in self.resolve((match,)): yield m`
        inside `resolve_async`) reads as if the twin's body were written there: the sync half awaits nothing,
        so this is what runs.  The twin itself stays."""
        n = 0
        for mod, tree in self.trees.items():
            for c in [x for x in tree.body if isinstance(x, ast.ClassDef)]:
                methods = self._methods(c)
                for name, m in methods.items():
                    twin = methods.get(name + "_async")
                    if twin is None or isinstance(m, ast.AsyncFunctionDef):
                        continue
                    if not any(isinstance(x, ast.Call) and isinstance(x.func, ast.Attribute) and x.func.attr == name
                               and isinstance(x.func.value, ast.Name) and x.func.value.id == "self" for x in _own_nodes(twin)):
                        continue
                    h = Helper(f"{mod}.{c.name}.{name}", c, m, c.body)
                    h.receiver = "self"
                    if not h.plain or not h.simple_sig or h.recursive or h.has_nested or (h.is_gen and not h.gen_ok()):
                        continue
                    if not h.is_gen and not h.returns_ok():
                        h.tail_only = True
                    for _ in range(8):
                        if self._inline_one(twin, h) is None:
                            break
                        n += 1
                        self.log.append(f"{h.key}: body written into its async twin, which delegated to it")
        return n

    def run(self) -> int:
        total = self.devirtualise()
        total += self.delegations()
        for _round in range(4):
            n = 0
            for h in self.candidates():
                if self._value_uses(h):
                    self.log.append(f"{h.key}: new, kept (used as a value)")
                    continue
                # calls inside this helper may have been replaced since `candidates` looked at it
                h.body = _strip_doc(h.node.body)  # type: ignore[attr-defined]
                if not h.is_gen and not h.returns_ok():
                    h.tail_only = True
                done, left = self._inline_everywhere(h)
                if done and not left:
                    h.container.remove(h.node)  # type: ignore[arg-type]
                    self.log.append(f"{h.key}: inlined into {done} call site(s) and removed")
                    n += done
                elif done:
                    self.log.append(f"{h.key}: inlined into {done} call site(s), {left} left")
                    n += done
                else:
                    self.log.append(f"{h.key}: new, kept ({left} call site(s) cannot be inlined)")
            total += n
            if n == 0:
                break
        return total

    # ------------------------------------------------------------------ sites
    def _is_call_of(self, n: ast.AST, h: Helper) -> bool:
        if not isinstance(n, ast.Call):
            return False
        if isinstance(n.func, ast.Name):
            if n.func.id in getattr(self, "_aliases", ()) and not h.is_method and n.func.id != h.name:
                return True  # the helper under the name this module imported it as (`from ._array import array_index as _array_index`)
            return n.func.id == h.name and not h.is_method
        if isinstance(n.func, ast.Attribute):
            if n.func.attr != h.name or h.local or h.same_module_only:
                return False
            if h.receiver == "self":
                return isinstance(n.func.value, ast.Name) and n.func.value.id == "self"
            if h.receiver == "super":
                v = n.func.value
                return isinstance(v, ast.Call) and isinstance(v.func, ast.Name) and v.func.id == "super" and not v.args
            return True
        return False

    def _inline_everywhere(self, h: Helper) -> Tuple[int, int]:
        done = left = 0
        home = next((t for t in self.trees.values() if any(n is h.node for n in ast.walk(t))), None)
        hf = NameFacts(h.node)
        h_locals = set(hf.stores) | hf.special | set(h.params)
        free = {n.id for n in _own_nodes(h.node) if isinstance(n, ast.Name) and isinstance(n.ctx, ast.Load)} - h_locals
        home_name_ = next((k for k, t in self.trees.items() if t is home), None)
        for tree in self.trees.values():
            self._aliases = set()
            if tree is not home and home_name_ is not None and h.cls is None and not h.local:
                self._aliases = {local for local, b in self._module_bindings(tree).items() if b == ("from", home_name_, h.name) and local != h.name}
            for fn in [n for n in ast.walk(tree) if isinstance(n, FuncNode) and n is not h.node]:
                if h.local and h.container is not fn.body:
                    continue  # a local function is only visible in the function that defines it
                if h.same_class_only and (h.cls is None or not any(fn is m for m in h.cls.body)):
                    if any(self._is_call_of(n, h) for n in _own_nodes(fn)):
                        left += 0  # `self.name(...)` in another class is that class's method
                    continue
                if not any(self._is_call_of(n, h) for n in _own_nodes(fn)):
                    continue
                # the helper's global names must mean the same at the call site: same module, and no local of
                # the caller shadows one of them
                cf = NameFacts(fn)
                foreign = tree is not home and not (home is not None and self._same_globals(h, free, home, tree))
                if foreign or (free & (set(cf.stores) | cf.special)) and not h.local:
                    left += sum(1 for n in _own_nodes(fn) if self._is_call_of(n, h))
                    continue
                if not any(self._is_call_of(n, h) for n in _own_nodes(fn)):
                    continue
                for _ in range(40):
                    r = self._inline_one(fn, h)
                    if r is None:
                        break
                    done += 1
                left += sum(1 for n in _own_nodes(fn) if self._is_call_of(n, h))
            # calls at module / class level are not touched
            for n in ast.walk(tree):
                pass
        self._aliases = set()
        return done, left

    def _module_bindings(self, tree: ast.Module) -> Dict[str, object]:
        """What each name bound at module level means: ("import", module) / ("from", module, name) for imports
        (relative ones resolved against the module's own name), ("def", id) for anything defined here."""
        cache = self.__dict__.setdefault("_bindings_cache", {})
        if id(tree) in cache:
            return cache[id(tree)]  # type: ignore[no-any-return]
        me = next((k for k, t in self.trees.items() if t is tree), "")
        out: Dict[str, object] = {}
        for st in ast.walk(tree):
            if isinstance(st, ast.Import):
                for a in st.names:
                    out[a.asname or a.name.split(".")[0]] = ("import", a.name if a.asname else a.name.split(".")[0])
            elif isinstance(st, ast.ImportFrom):
                base = st.module or ""
                if st.level:
                    parts = me.split(".")
                    # a module `pkg.sub.mod`: level 1 is `pkg.sub`
                    anchor = parts[: len(parts) - st.level] if len(parts) >= st.level else []
                    base = ".".join(anchor + ([st.module] if st.module else []))
                for a in st.names:
                    out[a.asname or a.name] = ("from", base, a.name)
        for st in tree.body:
            if isinstance(st, (ast.FunctionDef, ast.AsyncFunctionDef, ast.ClassDef)):
                out[st.name] = ("def", id(st))
            elif isinstance(st, (ast.Assign, ast.AnnAssign, ast.AugAssign)):
                for n in ast.walk(st):
                    if isinstance(n, ast.Name) and isinstance(n.ctx, ast.Store):
                        out[n.id] = ("def", id(st))
        cache[id(tree)] = out
        return out

    def _same_globals(self, h: Helper, free: Set[str], home: ast.Module, tree: ast.Module) -> bool:
        """A call in another module may take the helper's body when (a) that module imports the helper by name from
        its home module and (b) every global name the body reads means the same thing there: an identical import
        in both modules, or a builtin neither module rebinds."""
        if h.local or h.same_module_only or h.same_class_only or h.receiver is not None:
            return False
        home_name = next((k for k, t in self.trees.items() if t is home), None)
        here = self._module_bindings(tree)
        there = self._module_bindings(home)
        if h.cls is None and here.get(h.name) != ("from", home_name, h.name) and not any(b == ("from", home_name, h.name) for b in here.values()):
            return False
        # (a member of a class is reached through an object; its name is the only one of that spelling in the
        # package - `candidates` - so the attribute call can mean no other function of the package)
        # (names read by the body; the annotations of the signature are not evaluated at the call site)
        in_body = {n.id for st in h.node.body for n in ast.walk(st) if isinstance(n, ast.Name) and isinstance(n.ctx, ast.Load)}  # type: ignore[attr-defined]
        for name in free & in_body:
            a, b = there.get(name), here.get(name)
            if a is None and b is None:
                continue  # a builtin in both
            if a is not None and a[0] == "def" and b == ("from", home_name, name):  # type: ignore[index]
                # defined once in the helper's module and imported from there, under the same name, by the caller's
                stores = sum(1 for n in ast.walk(home) if isinstance(n, ast.Name) and n.id == name and isinstance(n.ctx, (ast.Store, ast.Del)))
                defs = sum(1 for n in ast.walk(home) if isinstance(n, (ast.FunctionDef, ast.AsyncFunctionDef, ast.ClassDef)) and n.name == name)
                globals_ = any(isinstance(n, ast.Global) and name in n.names for n in ast.walk(home))
                if stores + defs == 1 and not globals_:
                    continue
            if a is None or b is None or a != b or a[0] == "def":  # type: ignore[index]
                return False
        return True

    def _fresh(self, fn: ast.AST, h: Helper, binding: Dict[str, ast.expr]) -> Tuple[Dict[str, str], Dict[str, ast.expr], List[ast.stmt]]:
        """Renames for the helper's locals, substitutions for its parameters, and parameter bindings that
        need a statement (`p = <complex argument>`)."""
        hfacts = NameFacts(h.node)
        cfacts = NameFacts(fn)
        caller_names = set(cfacts.stores) | set(cfacts.loads) | cfacts.special
        locals_ = (set(hfacts.stores) | {n for n in hfacts.special}) - set(h.params)
        names: Dict[str, str] = {}
        for n in sorted(locals_):
            if n in caller_names:
                k = 1
                while f"{n}_{h.name.strip('_')}{k if k > 1 else ''}" in caller_names:
                    k += 1
                names[n] = f"{n}_{h.name.strip('_')}{k if k > 1 else ''}"
        subst: Dict[str, ast.expr] = {}
        pre: List[ast.stmt] = []
        for p, arg in binding.items():
            stored = hfacts.stores.get(p, 0) > 0
            uses = sum(_count_loads(s, p) for s in h.body)
            if not stored and (_simple(arg) or uses == 0 or _accessor(arg) or p == h.vararg):
                # a complex argument is bound to a local first: substituting it at its use could move its
                # evaluation into a `try`, a branch or a loop of the helper (S9 inlines it again where that is safe)
                subst[p] = arg
            else:
                new = p
                if new in caller_names:
                    new = f"{p}_{h.name.strip('_')}"
                names[p] = new
                pre.append(_loc(ast.Assign(targets=[ast.Name(id=new, ctx=ast.Store())], value=copy.deepcopy(arg)), arg))
        return names, subst, pre

    def _inline_generator(self, fn: ast.AST, h: Helper) -> Optional[bool]:
        """`for T in H(args): BODY`  ->  H's body with every `yield v` replaced by `T = v` ; BODY.
        A list comprehension over H(...) that is the whole value of an assignment / return is first
        written as a loop."""
        for blk in _stmt_lists(fn):
            for i, s in enumerate(blk):
                # comprehension -> loop
                comp = None
                if isinstance(s, (ast.Assign, ast.Return)) and isinstance(s.value, ast.ListComp) and len(s.value.generators) == 1:
                    g = s.value.generators[0]
                    if self._is_call_of(g.iter, h) and bool(g.is_async) == h.is_async:
                        comp = s.value
                if comp is not None:
                    cf = NameFacts(fn)
                    used = set(cf.stores) | set(cf.loads) | cf.special
                    if isinstance(s, ast.Assign) and len(s.targets) == 1 and isinstance(s.targets[0], ast.Name):
                        acc = s.targets[0].id
                        tail: List[ast.stmt] = []
                    else:
                        k = 1
                        while f"_collected{k if k > 1 else ''}" in used:
                            k += 1
                        acc = f"_collected{k if k > 1 else ''}"
                        if not isinstance(s, ast.Return):
                            continue
                        tail = [_loc(ast.Return(value=ast.Name(id=acc, ctx=ast.Load())), s)]
                    g = comp.generators[0]
                    app: ast.stmt = _loc(ast.Expr(value=ast.Call(func=ast.Attribute(value=ast.Name(id=acc, ctx=ast.Load()), attr="append", ctx=ast.Load()),
                                                                  args=[comp.elt], keywords=[])), s)
                    for c in reversed(g.ifs):
                        app = _loc(ast.If(test=c, body=[app], orelse=[]), s)
                    loop_cls = ast.AsyncFor if g.is_async else ast.For
                    tgt = copy.deepcopy(g.target)
                    for n in ast.walk(tgt):
                        if hasattr(n, "ctx"):
                            n.ctx = ast.Store()
                    loop = _loc(loop_cls(target=tgt, iter=g.iter, body=[app], orelse=[], type_comment=None), s)
                    init = _loc(ast.Assign(targets=[ast.Name(id=acc, ctx=ast.Store())], value=ast.List(elts=[], ctx=ast.Load())), s)
                    blk[i:i + 1] = [init, loop] + tail
                    return True
                if (
                    isinstance(s, ast.Expr) and isinstance(s.value, ast.YieldFrom) and self._is_call_of(s.value.value, h) and not h.is_async
                ):
                    cf = NameFacts(fn)
                    used = set(cf.stores) | set(cf.loads) | cf.special
                    k = 1
                    while f"_each{k if k > 1 else ''}" in used:
                        k += 1
                    v = f"_each{k if k > 1 else ''}"
                    y = _loc(ast.Expr(value=ast.Yield(value=ast.Name(id=v, ctx=ast.Load()))), s)
                    blk[i] = _loc(ast.For(target=ast.Name(id=v, ctx=ast.Store()), iter=s.value.value, body=[y], orelse=[], type_comment=None), s)
                    return True
                if not isinstance(s, (ast.For, ast.AsyncFor)) or not self._is_call_of(s.iter, h) or s.orelse:
                    continue
                if isinstance(s, ast.AsyncFor) != h.is_async:
                    continue
                binding = _bind(h, s.iter)  # type: ignore[arg-type]
                if binding is None:
                    continue
                # a `break` of this loop cannot be expressed once the body sits in the helper's own loops
                def own_break(stmts: List[ast.stmt]) -> bool:
                    for st in stmts:
                        if isinstance(st, ast.Break):
                            return True
                        if isinstance(st, (ast.For, ast.AsyncFor, ast.While)):
                            if own_break(st.orelse):
                                return True
                            continue
                        for f in ("body", "orelse", "finalbody"):
                            if own_break(getattr(st, f, []) or []):
                                return True
                        if isinstance(st, ast.Try) and any(own_break(hd.body) for hd in st.handlers):
                            return True
                    return False
                if own_break(s.body):
                    continue
                names, subst, pre = self._fresh(fn, h, binding)
                body = [_Rename(names, subst).visit(copy.deepcopy(x)) for x in h.body]
                if any(isinstance(n, ast.Return) for b in body for n in ast.walk(b)):
                    nb = _single_exit(body, lambda value, at: [])
                    if nb is None:
                        continue
                    body = nb or [_loc(ast.Pass(), s)]
                target, loop_body = s.target, s.body

                class _Y(ast.NodeTransformer):
                    def visit_Expr(self, node: ast.Expr) -> object:
                        if isinstance(node.value, ast.Yield):
                            bind = _loc(ast.Assign(targets=[copy.deepcopy(target)], value=node.value.value), node)
                            return [bind] + [copy.deepcopy(b) for b in loop_body]
                        return node

                    def visit_FunctionDef(self, node: ast.FunctionDef) -> ast.AST:
                        return node

                    visit_AsyncFunctionDef = visit_FunctionDef  # type: ignore[assignment]
                    visit_Lambda = visit_FunctionDef  # type: ignore[assignment]

                new_body: List[ast.stmt] = []
                for b in body:
                    r = _Y().visit(b)
                    new_body.extend(r if isinstance(r, list) else [r])
                blk[i:i + 1] = pre + new_body
                return True
        return None

    def _inline_one(self, fn: ast.AST, h: Helper) -> Optional[bool]:
        if h.is_gen:
            return self._inline_generator(fn, h)
        # 1. expression form anywhere
        ef = None if h.tail_only else _expr_form(h.body)
        for blk in _stmt_lists(fn):
            for i, s in enumerate(blk):
                for call in [n for n in _shallow(s) if self._is_call_of(n, h)]:
                    binding = _bind(h, call)
                    if binding is None:
                        continue
                    awaited = _parent_await(s, call)
                    if h.is_async and awaited is None:
                        continue
                    if not h.is_async:
                        awaited = None  # `await helper(...)` with a plain helper: its value is what is awaited
                    target = awaited if awaited is not None else call
                    if ef is not None:
                        # an argument is substituted if it is simple, or a constant accessor object
                        # (operator.attrgetter("x") ...), or used exactly once at a position that is evaluated
                        # once and first; names bound inside the expression must not capture anything
                        bound = {n.id for n in ast.walk(ef) if isinstance(n, ast.Name) and isinstance(n.ctx, ast.Store)}
                        from .canon import _unconditional_loads

                        def substitutable(p: str, a: ast.expr) -> bool:
                            if any(isinstance(n, ast.Name) and n.id in bound for n in ast.walk(a)):
                                return False
                            if _simple(a) or _accessor(a):
                                return True
                            if not (_count_loads(ef, p) == 1 and _unconditional_loads(ef, p) == 1 and not bound):
                                return False
                            # an argument that calls something is evaluated before the helper's body: it may only
                            # move to a place before which the body calls nothing
                            return not _has_call(a) or not _call_before(ef, p)

                        effectful = [p for p, a in binding.items() if not (_simple(a) or _accessor(a)) and _has_call(a)]
                        if len(effectful) <= 1 and all(substitutable(p, a) for p, a in binding.items()):
                            new = _Rename({}, binding).visit(copy.deepcopy(ef))
                            if _replace_expr(s, target, new):
                                return True
                    # 2. statement form: the call is the whole value of the statement
                    site = _site_kind(s, target)
                    if site is None and isinstance(s, (ast.Assign, ast.Return)) and isinstance(s.value, ast.IfExp) and any(
                        n is target for br in (s.value.body, s.value.orelse) for n in ast.walk(br)
                    ):
                        # the call sits in one arm of a conditional value: write the conditional as a statement
                        # (the canonicaliser folds it back once the body is in place)
                        ie = s.value
                        if isinstance(s, ast.Return):
                            a_: ast.stmt = _loc(ast.Return(value=ie.body), s)
                            b_: ast.stmt = _loc(ast.Return(value=ie.orelse), s)
                        else:
                            a_ = _loc(ast.Assign(targets=copy.deepcopy(s.targets), value=ie.body), s)
                            b_ = _loc(ast.Assign(targets=copy.deepcopy(s.targets), value=ie.orelse), s)
                        blk[i] = _loc(ast.If(test=ie.test, body=[a_], orelse=[b_]), s)
                        return True
                    if h.tail_only and site != "return":
                        continue
                    if site is None:
                        # nested in a larger expression: bind it to a temporary first (S9 undoes this
                        # once the body is in place), if nothing with effects is evaluated before it
                        if isinstance(s, ast.While) or not _hoistable(s, target):
                            continue
                        tmp_name = f"_{h.name.strip('_')}_result"
                        cf = NameFacts(fn)
                        k = 1
                        while (tmp_name if k == 1 else f"{tmp_name}{k}") in (set(cf.stores) | set(cf.loads) | cf.special):
                            k += 1
                        tmp_name = tmp_name if k == 1 else f"{tmp_name}{k}"
                        _replace_expr(s, target, _loc(ast.Name(id=tmp_name, ctx=ast.Load()), target))
                        blk.insert(i, _loc(ast.Assign(targets=[ast.Name(id=tmp_name, ctx=ast.Store())], value=target), s))
                        return True
                    names, subst, pre = self._fresh(fn, h, binding)
                    body = [_Rename(names, subst).visit(copy.deepcopy(x)) for x in h.body]
                    emit = _emitter(s, site)
                    if site == "return":
                        new_body = body + ([] if jumps(body) else [_loc(ast.Return(value=None), s)])
                    else:
                        nb = _single_exit(body, emit)
                        if nb is None:
                            continue
                        new_body = nb
                    blk[i:i + 1] = pre + new_body
                    return True
        return None


def _has_call(e: ast.AST) -> bool:
    return any(isinstance(n, (ast.Call, ast.Await, ast.Yield, ast.YieldFrom, ast.NamedExpr)) for n in ast.walk(e))


def _call_before(e: ast.expr, name: str) -> bool:
    """Is a call completed before the (first) load of `name`, in evaluation order?  Children are evaluated in
    field order and a node after its children, which is Python's order for every expression form but the
    interleaving of a dict display's keys and values (taken as: some call comes first)."""
    state = {"calls": 0, "found": None}

    def walk(n: ast.AST) -> None:
        if state["found"] is not None:
            return
        if isinstance(n, ast.Name) and n.id == name and isinstance(n.ctx, ast.Load):
            state["found"] = state["calls"]
            return
        if isinstance(n, (ast.Dict, ast.ListComp, ast.SetComp, ast.DictComp, ast.GeneratorExp, ast.Lambda)) and _has_call(n):
            state["calls"] += 1
        for c in ast.iter_child_nodes(n):
            walk(c)
            if state["found"] is not None:
                return
        if isinstance(n, (ast.Call, ast.Await, ast.Yield, ast.YieldFrom, ast.NamedExpr)):
            state["calls"] += 1

    walk(e)
    return bool(state["found"])


def _accessor(a: ast.expr) -> bool:
    """operator.attrgetter("x") / itemgetter(0) / methodcaller("m"): a constant, effect-free callable."""
    if not (isinstance(a, ast.Call) and not a.keywords and a.args and all(isinstance(x, ast.Constant) for x in a.args)):
        return False
    f = a.func
    name = f.attr if isinstance(f, ast.Attribute) and isinstance(f.value, ast.Name) and f.value.id == "operator" else (
        f.id if isinstance(f, ast.Name) else None)
    return name in ("attrgetter", "itemgetter", "methodcaller")


def _stmt_lists(fn: ast.AST) -> List[List[ast.stmt]]:
    out = [fn.body]  # type: ignore[attr-defined]
    for n in _own_nodes(fn):
        for f in ("body", "orelse", "finalbody"):
            b = getattr(n, f, None)
            if isinstance(b, list) and b and isinstance(b[0], ast.stmt) and not isinstance(n, (*FuncNode, ast.ClassDef)):
                out.append(b)
    return out


def _shallow(s: ast.stmt) -> List[ast.AST]:
    """Nodes of the statement's own expressions (not of nested statements)."""
    out: List[ast.AST] = []
    stack: List[ast.AST] = []
    for f, v in ast.iter_fields(s):
        if f in ("body", "orelse", "finalbody", "handlers"):
            continue
        if isinstance(v, ast.AST):
            stack.append(v)
        elif isinstance(v, list):
            stack.extend(x for x in v if isinstance(x, ast.AST))
    while stack:
        n = stack.pop()
        out.append(n)
        if isinstance(n, (ast.Lambda, *FuncNode)):
            continue
        stack.extend(ast.iter_child_nodes(n))
    return out


def _parent_await(s: ast.stmt, call: ast.Call) -> Optional[ast.Await]:
    for n in _shallow(s):
        if isinstance(n, ast.Await) and n.value is call:
            return n
    return None


def _replace_expr(s: ast.stmt, old: ast.AST, new: ast.expr) -> bool:
    for n in [s] + _shallow(s):
        for f, v in ast.iter_fields(n):
            if v is old:
                setattr(n, f, new)
                return True
            if isinstance(v, list):
                for k, x in enumerate(v):
                    if x is old:
                        v[k] = new
                        return True
    return False


def _hoistable(s: ast.stmt, target: ast.AST) -> bool:
    """Is `target` evaluated unconditionally, exactly once, and before any other call of `s`?"""
    state = {"effect": False, "found": False, "ok": False}

    def walk(n: ast.AST, cond: bool) -> None:
        if state["found"]:
            return
        if n is target:
            state["found"] = True
            state["ok"] = not cond and not state["effect"]
            return
        if isinstance(n, (ast.Lambda, *FuncNode)):
            return
        if isinstance(n, ast.BoolOp):
            for k, v in enumerate(n.values):
                walk(v, cond or k > 0)
            return
        if isinstance(n, ast.IfExp):
            walk(n.test, cond)
            walk(n.body, True)
            walk(n.orelse, True)
            return
        if isinstance(n, (ast.ListComp, ast.SetComp, ast.GeneratorExp, ast.DictComp)):
            walk(n.generators[0].iter, cond)
            for c in ast.iter_child_nodes(n):
                if c is not n.generators[0]:
                    walk(c, True)
            for g in n.generators:
                for c in ast.iter_child_nodes(g):
                    if not (g is n.generators[0] and c is g.iter):
                        walk(c, True)
            return
        for c in ast.iter_child_nodes(n):
            if isinstance(c, ast.stmt) or isinstance(c, ast.ExceptHandler):
                continue
            walk(c, cond)
            if state["found"]:
                return
        if isinstance(n, (ast.Call, ast.Await)):
            state["effect"] = True

    for f, v in ast.iter_fields(s):
        if f in ("body", "orelse", "finalbody", "handlers"):
            continue
        for x in (v if isinstance(v, list) else [v]):
            if isinstance(x, ast.AST):
                walk(x, False)
    return bool(state["found"] and state["ok"])


def _site_kind(s: ast.stmt, target: ast.AST) -> Optional[str]:
    if isinstance(s, ast.Return) and s.value is target:
        return "return"
    if isinstance(s, ast.Expr) and s.value is target:
        return "expr"
    if isinstance(s, ast.Expr) and isinstance(s.value, ast.Yield) and s.value.value is target:
        return "yield"
    if isinstance(s, ast.Assign) and s.value is target:
        return "assign"
    if isinstance(s, ast.AnnAssign) and s.value is target and isinstance(s.target, ast.Name):
        return "annassign"
    return None


def _emitter(s: ast.stmt, site: str):  # type: ignore[no-untyped-def]
    def emit(value: Optional[ast.expr], at: Optional[ast.AST]) -> List[ast.stmt]:
        v = value if value is not None else ast.Constant(value=None)
        where = at or s
        if site == "expr":
            if value is None or not any(isinstance(n, (ast.Call, ast.Await)) for n in ast.walk(value)):
                return []
            return [_loc(ast.Expr(value=v), where)]
        if site == "yield":
            return [_loc(ast.Expr(value=ast.Yield(value=v)), where)]
        if site == "assign":
            return [_loc(ast.Assign(targets=copy.deepcopy(s.targets), value=v), where)]  # type: ignore[attr-defined]
        if site == "annassign":
            return [_loc(ast.Assign(targets=[copy.deepcopy(s.target)], value=v), where)]  # type: ignore[attr-defined]
        raise AssertionError(site)
    return emit
