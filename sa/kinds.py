"""Flow-sensitive abstract interpretation over a finite lattice of value kinds.

A *kind* is one of the JSON value kinds or one of the few extra kinds that the
filter evaluator handles.  The state maps an access path (`match.obj`, `val`,
`left` ...) to the set of kinds the value may have at that point.  Kind sets are
narrowed only by the tests Python itself would execute: `isinstance`, `is None`,
`is UNDEFINED`, `type(x) is T`, with the *real* subclass facts of Python
(`bool` is an `int`, `str` is a `Sequence`, `NodeList` is a `list`).
"""

from __future__ import annotations

import ast
from typing import Dict
from typing import FrozenSet
from typing import Iterable
from typing import List
from typing import Optional
from typing import Set
from typing import Tuple

from .flow import Domain
from .flow import Flow

OBJECT, ARRAY, STRING, INT, FLOAT, DECIMAL, BOOLEAN, NULL = (
    "object",
    "array",
    "string",
    "int",
    "float",
    "decimal",
    "boolean",
    "null",
)
NODELIST, UNDEFINED, PATTERN, OTHER = "nodelist", "undefined", "pattern", "other"

JSON_KINDS: FrozenSet[str] = frozenset(
    {OBJECT, ARRAY, STRING, INT, FLOAT, BOOLEAN, NULL}
)
NUMBER_KINDS: FrozenSet[str] = frozenset({INT, FLOAT, DECIMAL})
ALL_KINDS: FrozenSet[str] = JSON_KINDS | {DECIMAL, NODELIST, UNDEFINED, PATTERN, OTHER}

# Which kinds are instances of which class.  Exact for the value universe above.
CLASS_KINDS: Dict[str, FrozenSet[str]] = {
    "Mapping": frozenset({OBJECT}),
    "MutableMapping": frozenset({OBJECT}),
    "dict": frozenset({OBJECT}),
    "Dict": frozenset({OBJECT}),
    "Sequence": frozenset({ARRAY, STRING, NODELIST}),
    "MutableSequence": frozenset({ARRAY, NODELIST}),
    "list": frozenset({ARRAY, NODELIST}),
    "List": frozenset({ARRAY, NODELIST}),
    "tuple": frozenset(),  # JSON arrays are lists in this universe
    "str": frozenset({STRING}),
    "bool": frozenset({BOOLEAN}),
    "int": frozenset({INT, BOOLEAN}),
    "float": frozenset({FLOAT}),
    "Decimal": frozenset({DECIMAL}),
    "NodeList": frozenset({NODELIST}),
    "Pattern": frozenset({PATTERN}),
    "Sized": frozenset({OBJECT, ARRAY, STRING, NODELIST}),
    "Iterable": frozenset({OBJECT, ARRAY, STRING, NODELIST}),
    "Collection": frozenset({OBJECT, ARRAY, STRING, NODELIST}),
    "_Undefined": frozenset({UNDEFINED}),
}


def path_of(e: ast.AST) -> Optional[str]:
    """Access path of a Name / Attribute chain (`match.obj`), else None."""
    parts: List[str] = []
    cur = e
    while isinstance(cur, ast.Attribute):
        parts.append(cur.attr)
        cur = cur.value
    if isinstance(cur, ast.Name):
        parts.append(cur.id)
        return ".".join(reversed(parts))
    return None


def class_names(e: ast.expr) -> Optional[List[str]]:
    """Names in the second argument of isinstance (a class or a tuple of them)."""
    if isinstance(e, ast.Tuple):
        out: List[str] = []
        for x in e.elts:
            sub = class_names(x)
            if sub is None:
                return None
            out.extend(sub)
        return out
    if isinstance(e, ast.Name):
        return [e.id]
    if isinstance(e, ast.Attribute):
        return [e.attr]
    return None


class KState:
    """Immutable mapping path -> kind set (+ a set of paths whose narrowing
    passed through a condition the analysis did not understand)."""

    __slots__ = ("kinds", "murky")

    def __init__(self, kinds: Dict[str, FrozenSet[str]], murky: FrozenSet[str] = frozenset()):
        self.kinds = kinds
        self.murky = murky

    def get(self, path: str, default: FrozenSet[str] = ALL_KINDS) -> FrozenSet[str]:
        return self.kinds.get(path, default)

    def set(self, path: str, kinds: FrozenSet[str]) -> "KState":
        d = dict(self.kinds)
        d[path] = kinds
        return KState(d, self.murky)

    def drop_prefix(self, path: str) -> "KState":
        d = {k: v for k, v in self.kinds.items() if not (k == path or k.startswith(path + "."))}
        m = frozenset(p for p in self.murky if not (p == path or p.startswith(path + ".")))
        return KState(d, m)

    def mark_murky(self, paths: Iterable[str]) -> "KState":
        return KState(self.kinds, self.murky | frozenset(paths))

    def __eq__(self, other: object) -> bool:
        return (
            isinstance(other, KState)
            and self.kinds == other.kinds
            and self.murky == other.murky
        )

    def __repr__(self) -> str:  # pragma: no cover
        return f"K({ {k: sorted(v) for k, v in self.kinds.items()} })"


class KindDomain(Domain):
    """May-analysis of value kinds.

    `defaults` gives the initial kind set of chosen paths (e.g. `match.obj` ->
    JSON kinds); paths not mentioned are unconstrained (ALL_KINDS).
    `undefined_names` are the global names that denote the Nothing singleton.
    `helpers` maps a helper predicate name to (param name, body test) for
    single-return boolean helpers that are inlined.
    """

    def __init__(
        self,
        defaults: Optional[Dict[str, FrozenSet[str]]] = None,
        undefined_names: Iterable[str] = ("UNDEFINED",),
        elem_default: FrozenSet[str] = ALL_KINDS,
        helpers: Optional[Dict[str, Tuple[List[str], ast.expr]]] = None,
    ) -> None:
        self.defaults = dict(defaults or {})
        self.undefined_names = set(undefined_names)
        self.elem_default = elem_default
        self.helpers = helpers or {}

    # lattice
    def initial(self, func: ast.AST) -> KState:
        return KState(dict(self.defaults))

    def join(self, a: KState, b: KState) -> KState:
        keys = set(a.kinds) | set(b.kinds)
        out: Dict[str, FrozenSet[str]] = {}
        for k in keys:
            da = a.kinds.get(k, self.defaults.get(k, ALL_KINDS))
            db = b.kinds.get(k, self.defaults.get(k, ALL_KINDS))
            out[k] = da | db
        return KState(out, a.murky | b.murky)

    def lookup(self, state: KState, path: str) -> FrozenSet[str]:
        if path in state.kinds:
            return state.kinds[path]
        return self.defaults.get(path, ALL_KINDS)

    # expression kinds
    def kinds_of(self, e: ast.expr, state: KState) -> FrozenSet[str]:  # noqa: PLR0911
        p = path_of(e)
        if p is not None:
            if isinstance(e, ast.Name) and e.id in self.undefined_names:
                return frozenset({UNDEFINED})
            return self.lookup(state, p)
        if isinstance(e, ast.Constant):
            v = e.value
            if v is None:
                return frozenset({NULL})
            if isinstance(v, bool):
                return frozenset({BOOLEAN})
            if isinstance(v, int):
                return frozenset({INT})
            if isinstance(v, float):
                return frozenset({FLOAT})
            if isinstance(v, str):
                return frozenset({STRING})
            return frozenset({OTHER})
        if isinstance(e, (ast.JoinedStr,)):
            return frozenset({STRING})
        if isinstance(e, (ast.List, ast.ListComp)):
            return frozenset({ARRAY})
        if isinstance(e, (ast.Dict, ast.DictComp)):
            return frozenset({OBJECT})
        if isinstance(e, ast.Tuple):
            return frozenset({OTHER})
        if isinstance(e, ast.IfExp):
            return self.kinds_of(e.body, state) | self.kinds_of(e.orelse, state)
        if isinstance(e, ast.Call):
            f = e.func
            name = f.id if isinstance(f, ast.Name) else getattr(f, "attr", None)
            if name == "NodeList":
                return frozenset({NODELIST})
            if name in ("str", "repr", "canonical_string"):
                return frozenset({STRING})
            if name in ("len", "int"):
                return frozenset({INT})
            if name == "float":
                return frozenset({FLOAT})
            if name in ("bool", "isinstance"):
                return frozenset({BOOLEAN})
            if name in ("list", "sorted"):
                return frozenset({ARRAY})
            if name == "dict":
                return frozenset({OBJECT})
        if isinstance(e, ast.Compare) or (
            isinstance(e, ast.UnaryOp) and isinstance(e.op, ast.Not)
        ):
            return frozenset({BOOLEAN})
        if isinstance(e, ast.Subscript) and isinstance(e.slice, ast.Slice):
            # a slice of a string is a string, of an array an array (`key[1:]`)
            base = self.kinds_of(e.value, state)
            if base and base <= {STRING, ARRAY}:
                return base
        if isinstance(e, ast.Call) and isinstance(e.func, ast.Attribute) and e.func.attr in (
                "removeprefix", "removesuffix", "strip", "lstrip", "rstrip", "lower", "upper", "replace", "format", "join", "decode"):
            # (only strings have these methods; anything else has raised AttributeError before a value exists)
            return frozenset({STRING})
        if isinstance(e, ast.NamedExpr):
            return self.kinds_of(e.value, state)
        return ALL_KINDS

    # transfer
    def transfer(self, stmt: ast.stmt, state: KState, flow: Flow) -> KState:
        if isinstance(stmt, ast.Assign):
            value = stmt.value
            for t in stmt.targets:
                state = self._assign(t, value, state)
            return state
        if isinstance(stmt, ast.AnnAssign) and stmt.value is not None:
            return self._assign(stmt.target, stmt.value, state)
        if isinstance(stmt, ast.AugAssign):
            p = path_of(stmt.target)
            if p:
                state = state.drop_prefix(p)
            return state
        if isinstance(stmt, (ast.FunctionDef, ast.AsyncFunctionDef, ast.ClassDef)):
            return state.drop_prefix(stmt.name)
        return state

    def _assign(self, target: ast.expr, value: ast.expr, state: KState) -> KState:
        if isinstance(target, (ast.Tuple, ast.List)):
            if isinstance(value, (ast.Tuple, ast.List)) and len(value.elts) == len(target.elts):
                # simultaneous assignment (covers the swap idiom)
                vals = [self.kinds_of(v, state) for v in value.elts]
                murk = [
                    (path_of(v) in state.murky) if path_of(v) else False
                    for v in value.elts
                ]
                for t, k, m in zip(target.elts, vals, murk):
                    p = path_of(t)
                    if p:
                        state = state.drop_prefix(p).set(p, k)
                        if m:
                            state = state.mark_murky([p])
                return state
            for t in target.elts:
                p = path_of(t)
                if p:
                    state = state.drop_prefix(p)
            return state
        p = path_of(target)
        if p is None:
            return state
        k = self.kinds_of(value, state)
        vp = path_of(value)
        state = state.drop_prefix(p).set(p, k)
        if vp and vp in state.murky:
            state = state.mark_murky([p])
        return state

    def bind(self, target: ast.expr, iter_: ast.expr, state: KState, flow: Flow) -> KState:
        names: List[Tuple[str, FrozenSet[str]]] = []
        it = iter_
        # enumerate(X) / X.items() / X.keys() / X.values() / zip(...)
        if isinstance(it, ast.Call):
            f = it.func
            fname = f.id if isinstance(f, ast.Name) else getattr(f, "attr", None)
            if fname == "enumerate" and isinstance(target, ast.Tuple) and len(target.elts) == 2:
                names = [(path_of(target.elts[0]) or "", frozenset({INT})),
                         (path_of(target.elts[1]) or "", self.elem_default)]
            elif fname == "items" and isinstance(target, ast.Tuple) and len(target.elts) == 2:
                names = [(path_of(target.elts[0]) or "", frozenset({STRING})),
                         (path_of(target.elts[1]) or "", self.elem_default)]
            elif fname == "keys" and not isinstance(target, ast.Tuple):
                names = [(path_of(target) or "", frozenset({STRING}))]
            elif fname == "range" and not isinstance(target, ast.Tuple):
                names = [(path_of(target) or "", frozenset({INT}))]
            elif fname == "zip" and isinstance(target, ast.Tuple) and len(target.elts) == len(it.args):
                for tg, a in zip(target.elts, it.args):
                    an = a.func.id if isinstance(a, ast.Call) and isinstance(a.func, ast.Name) else None
                    names.append((path_of(tg) or "", frozenset({INT}) if an == "range" else self.elem_default))
        if not names:
            targets = target.elts if isinstance(target, (ast.Tuple, ast.List)) else [target]
            stack = list(targets)
            while stack:
                t = stack.pop()
                if isinstance(t, (ast.Tuple, ast.List)):
                    stack.extend(t.elts)
                    continue
                p = path_of(t)
                if p:
                    names.append((p, ALL_KINDS))
        for p, k in names:
            if p:
                state = state.drop_prefix(p).set(p, k)
        return state

    # refinement
    def refine(self, test: ast.expr, branch: bool, state: KState, flow: Flow) -> Optional[KState]:  # noqa: PLR0911, PLR0912
        # isinstance(x, T)
        if isinstance(test, ast.Call) and isinstance(test.func, ast.Name):
            if test.func.id == "isinstance" and len(test.args) == 2:
                p = path_of(test.args[0])
                names = class_names(test.args[1])
                if p is not None and names is not None:
                    if all(n in CLASS_KINDS for n in names):
                        ks: Set[str] = set()
                        for n in names:
                            ks |= CLASS_KINDS[n]
                        cur = self.lookup(state, p)
                        new = cur & ks if branch else cur - ks
                        if not new:
                            return None
                        return state.set(p, frozenset(new))
                    # a repo class we do not model: other/unknown
                    return state.mark_murky([p])
            if test.func.id in self.helpers:
                params, body = self.helpers[test.func.id]
                if len(params) == len(test.args):
                    sub = _Substitute(dict(zip(params, test.args))).visit(
                        ast.parse(ast.unparse(body), mode="eval").body
                    )
                    t, f = flow.cond(sub, state)
                    return t if branch else f
        if isinstance(test, ast.Compare) and len(test.ops) == 1:
            op = test.ops[0]
            left, right = test.left, test.comparators[0]
            if isinstance(op, (ast.Is, ast.IsNot)):
                pos = branch if isinstance(op, ast.Is) else not branch
                p = path_of(left)
                single: Optional[FrozenSet[str]] = None
                if isinstance(right, ast.Constant) and right.value is None:
                    single = frozenset({NULL})
                elif isinstance(right, ast.Name) and right.id in self.undefined_names:
                    single = frozenset({UNDEFINED})
                elif (
                    isinstance(right, ast.Attribute)
                    and right.attr in self.undefined_names
                ):
                    single = frozenset({UNDEFINED})
                if p is not None and single is not None:
                    cur = self.lookup(state, p)
                    new = cur & single if pos else cur - single
                    if not new:
                        return None
                    return state.set(p, frozenset(new))
                # type(x) is T
                if (
                    isinstance(left, ast.Call)
                    and isinstance(left.func, ast.Name)
                    and left.func.id == "type"
                    and len(left.args) == 1
                ):
                    p2 = path_of(left.args[0])
                    names = class_names(right)
                    if p2 and names and all(n in CLASS_KINDS for n in names):
                        exact = {
                            "bool": {BOOLEAN}, "int": {INT}, "float": {FLOAT},
                            "str": {STRING}, "list": {ARRAY}, "dict": {OBJECT},
                        }
                        ks2: Set[str] = set()
                        ok = True
                        for n in names:
                            if n in exact:
                                ks2 |= exact[n]
                            else:
                                ok = False
                        if ok:
                            cur = self.lookup(state, p2)
                            new = cur & ks2 if pos else cur - ks2
                            if not new:
                                return None
                            return state.set(p2, frozenset(new))
                return state
            if isinstance(op, (ast.Eq, ast.NotEq)):
                pos = branch if isinstance(op, ast.Eq) else not branch
                # x == "-"  etc: when true, x has the kind of the constant
                p = path_of(left)
                if p and isinstance(right, ast.Constant) and pos:
                    k = self.kinds_of(right, state)
                    cur = self.lookup(state, p)
                    # equality with a str constant can only hold for strings;
                    # with numbers Python identifies bool/int/float
                    if k == frozenset({STRING}):
                        new = cur & k
                        if not new:
                            return None
                        return state.set(p, frozenset(new))
                return state
            return state
        # `if x:` truthiness - does not change kinds except it excludes null
        p = path_of(test)
        if p is not None:
            if branch:
                cur = self.lookup(state, p)
                new = cur - {NULL}
                if not new:
                    return None
                return state.set(p, frozenset(new))
            return state
        # anything else that mentions tracked paths but is not understood
        mentioned = {path_of(n) for n in ast.walk(test) if isinstance(n, (ast.Name, ast.Attribute))}
        mentioned.discard(None)
        if self._neutral(test):
            return state
        return state.mark_murky(p for p in mentioned if p)

    def _neutral(self, test: ast.expr) -> bool:
        """Condition forms that cannot narrow the *kind* of a value."""
        if isinstance(test, ast.Call):
            f = test.func
            if isinstance(f, ast.Attribute):  # method call, e.g. x.startswith(...)
                return True
            if isinstance(f, ast.Name) and f.id in ("len", "hasattr", "callable", "any", "all", "bool"):
                return True
        if isinstance(test, ast.Compare):
            return True
        if isinstance(test, (ast.Subscript, ast.Attribute, ast.Name, ast.Await)):
            return True
        return False


class _Substitute(ast.NodeTransformer):
    def __init__(self, mapping: Dict[str, ast.expr]) -> None:
        self.mapping = mapping

    def visit_Name(self, node: ast.Name) -> ast.AST:
        if node.id in self.mapping:
            return self.mapping[node.id]
        return node


def analyse_kinds(
    func: ast.AST,
    defaults: Optional[Dict[str, FrozenSet[str]]] = None,
    **kw: object,
) -> Tuple[Flow, KindDomain]:
    dom = KindDomain(defaults=defaults, **kw)  # type: ignore[arg-type]
    return Flow(func, dom), dom
