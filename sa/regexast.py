"""Structural facts about regular expressions found (folded) in the source.

Uses the standard library's own regex parser (`re._parser`) to obtain the AST of
a pattern string; nothing of the analysed package is executed.
"""

from __future__ import annotations

import re
from typing import Any
from typing import Set
from typing import Dict
from typing import Iterator
from typing import List
from typing import Optional
from typing import Tuple

try:  # Python >= 3.11
    import re._constants as sre_c
    import re._parser as sre_parse
except ImportError:  # pragma: no cover
    import sre_constants as sre_c  # type: ignore[no-redef]
    import sre_parse  # type: ignore[no-redef]

from .loader import AnalysisError

MAXREPEAT = sre_c.MAXREPEAT


def parse(pattern: str, flags: int = 0) -> Any:
    try:
        return sre_parse.parse(pattern, flags)
    except re.error as err:
        raise AnalysisError(f"pattern {pattern!r} does not parse: {err}") from err


def group_index(tree: Any, name: str) -> Optional[int]:
    return tree.state.groupdict.get(name)


def walk(seq: Any) -> Iterator[Tuple[Any, Any]]:
    """Yield every (op, arg) in a parsed pattern, depth first."""
    for op, av in seq:
        yield op, av
        if op is sre_c.SUBPATTERN:
            yield from walk(av[3])
        elif op in (sre_c.MAX_REPEAT, sre_c.MIN_REPEAT, getattr(sre_c, "POSSESSIVE_REPEAT", None)):
            yield from walk(av[2])
        elif op is sre_c.BRANCH:
            for alt in av[1]:
                yield from walk(alt)
        elif op in (sre_c.ASSERT, sre_c.ASSERT_NOT):
            yield from walk(av[1])
        elif op is getattr(sre_c, "ATOMIC_GROUP", None):
            yield from walk(av)
        elif op is sre_c.GROUPREF_EXISTS:
            yield from walk(av[1])
            if av[2] is not None:
                yield from walk(av[2])


def find_group(seq: Any, gid: int) -> Optional[Any]:
    """The sub-pattern sequence of capture group number `gid`."""
    for op, av in walk(seq):
        if op is sre_c.SUBPATTERN and av[0] == gid:
            return av[3]
    return None


def named_group(pattern: str, name: str, flags: int = 0) -> Any:
    tree = parse(pattern, flags)
    gid = group_index(tree, name)
    if gid is None:
        raise AnalysisError(f"group {name!r} not found in pattern {pattern!r}")
    g = find_group(tree, gid)
    if g is None:
        raise AnalysisError(f"group {name!r} not found in pattern {pattern!r}")
    return g


def group_is_optional(pattern: str, name: str, flags: int = 0) -> bool:
    """True if the named group sits under a repeat with minimum 0."""
    tree = parse(pattern, flags)
    gid = group_index(tree, name)
    if gid is None:
        raise AnalysisError(f"group {name!r} not found")

    def rec(seq: Any, optional: bool) -> Optional[bool]:
        for op, av in seq:
            if op is sre_c.SUBPATTERN:
                if av[0] == gid:
                    return optional
                r = rec(av[3], optional)
                if r is not None:
                    return r
            elif op in (sre_c.MAX_REPEAT, sre_c.MIN_REPEAT):
                r = rec(av[2], optional or av[0] == 0)
                if r is not None:
                    return r
            elif op is sre_c.BRANCH:
                for alt in av[1]:
                    r = rec(alt, True)
                    if r is not None:
                        return r
        return None

    r = rec(tree, False)
    if r is None:
        raise AnalysisError(f"group {name!r} not found")
    return r


def single_repeat(seq: Any) -> Optional[Tuple[int, int, Any]]:
    """If the sequence is exactly one repeat, return (min, max, body)."""
    items = list(seq)
    if len(items) == 1 and items[0][0] in (sre_c.MAX_REPEAT, sre_c.MIN_REPEAT):
        lo, hi, body = items[0][1]
        return int(lo), int(hi), body
    return None


def char_set(item: Tuple[Any, Any]) -> Optional[Tuple[bool, set]]:
    """(negated, characters/categories) of a one-character matcher, else None."""
    op, av = item
    if op is sre_c.LITERAL:
        return False, {chr(av)}
    if op is sre_c.NOT_LITERAL:
        return True, {chr(av)}
    if op is sre_c.ANY:
        return True, set()
    if op is sre_c.IN:
        neg = False
        chars: set = set()
        for o, a in av:
            if o is sre_c.NEGATE:
                neg = True
            elif o is sre_c.LITERAL:
                chars.add(chr(a))
            elif o is sre_c.RANGE:
                lo, hi = a
                if hi - lo > 512:
                    chars.add(("range", lo, hi))
                else:
                    chars.update(chr(c) for c in range(lo, hi + 1))
            elif o is sre_c.CATEGORY:
                chars.add(str(a))
        return neg, chars
    return None


def finite_language(seq: Any, cap: int = 64) -> Optional[set]:
    """Every string the sequence can match, when there are at most `cap` of them: literals, small positive
    character classes, alternations, groups and small bounded repeats.  None when the language is not known to
    be that small (an unbounded repeat, a negated class, a category, a look-around...)."""
    out = {""}
    for op, av in seq:
        if op in (sre_c.LITERAL, sre_c.IN):
            cs = char_set((op, av))
            if cs is None or cs[0] or not cs[1] or not all(isinstance(c, str) and len(c) == 1 for c in cs[1]):
                return None
            alts: Optional[set] = set(cs[1])
        elif op is sre_c.SUBPATTERN:
            if av[1] or av[2]:
                return None  # inline flags
            alts = finite_language(av[3], cap)
        elif op is sre_c.BRANCH:
            alts = set()
            for alt in av[1]:
                la = finite_language(alt, cap)
                if la is None:
                    return None
                alts |= la
        elif op in (sre_c.MAX_REPEAT, sre_c.MIN_REPEAT):
            lo, hi, body = av
            if hi is MAXREPEAT or int(hi) > 3:  # noqa: PLR2004
                return None
            lb = finite_language(body, cap)
            if lb is None:
                return None
            alts = set()
            for k in range(int(lo), int(hi) + 1):
                cur = {""}
                for _ in range(k):
                    cur = {a + b for a in cur for b in lb}
                    if len(cur) > cap:
                        return None
                alts |= cur
        else:
            return None
        if alts is None:
            return None
        out = {a + b for a in out for b in alts}
        if len(out) > cap:
            return None
    return out


def is_digit_class(item: Tuple[Any, Any]) -> bool:
    cs = char_set(item)
    if cs is None:
        return False
    neg, chars = cs
    if neg:
        return False
    return chars == {"CATEGORY_DIGIT"} or chars == set("0123456789")


def minimal_strings(seq: Any, limit: int = 64) -> List[str]:
    """Strings matched when every repeat takes its minimum (finite set, capped).

    Character classes contribute one representative per literal member.
    """
    results = [""]
    for op, av in seq:
        opts: List[str]
        if op is sre_c.LITERAL:
            opts = [chr(av)]
        elif op is sre_c.IN:
            cs = char_set((op, av))
            assert cs is not None
            neg, chars = cs
            if neg:
                opts = ["\u0000"]
            else:
                opts = sorted(c for c in chars if isinstance(c, str) and len(c) == 1)[:8] or ["0"]
                if "CATEGORY_DIGIT" in chars:
                    opts = ["0"]
        elif op is sre_c.ANY or op is sre_c.NOT_LITERAL:
            opts = ["x"]
        elif op is sre_c.SUBPATTERN:
            opts = minimal_strings(av[3], limit)
        elif op in (sre_c.MAX_REPEAT, sre_c.MIN_REPEAT):
            lo, _hi, body = av
            if lo == 0:
                opts = [""]
            else:
                base = minimal_strings(body, limit)
                opts = [b * lo for b in base]
        elif op is sre_c.BRANCH:
            opts = []
            for alt in av[1]:
                opts.extend(minimal_strings(alt, limit))
        elif op in (sre_c.ASSERT, sre_c.ASSERT_NOT, sre_c.AT):
            opts = [""]
        else:
            opts = [""]
        results = [r + o for r in results for o in opts][:limit]
    return results


def lookbehind_single_backslash(seq: Any) -> bool:
    """Does the pattern decide "is this quote escaped" by a one-character
    negative look-behind for a backslash?  (`(?<!\\\\)`)"""
    for op, av in walk(seq):
        if op is sre_c.ASSERT_NOT and av[0] == -1:
            inner = list(av[1])
            if len(inner) == 1 and inner[0][0] is sre_c.LITERAL and inner[0][1] == ord("\\"):
                return True
    return False


def consumes_escape_pairs(seq: Any, quote: str) -> bool:
    """Is the sequence `(A|B)*` (or a character-level equivalent) where one
    alternative is "any character except the quote and the backslash" and the
    other is "a backslash followed by any one character"?"""
    rep = single_repeat(seq)
    if rep is None:
        return False
    lo, hi, body = rep
    if lo != 0 or hi != MAXREPEAT:
        return False
    items = list(body)
    # unwrap a non-capturing group
    while len(items) == 1 and items[0][0] is sre_c.SUBPATTERN:
        items = list(items[0][1][3])
    if len(items) != 1 or items[0][0] is not sre_c.BRANCH:
        return False
    alts = [list(a) for a in items[0][1][1]]
    plain = escaped = False
    for alt in alts:
        flat = alt
        # allow a repeat of the plain class: [^"\\]+
        if len(flat) == 1 and flat[0][0] in (sre_c.MAX_REPEAT, sre_c.MIN_REPEAT):
            inner = list(flat[0][1][2])
            if len(inner) == 1:
                flat = inner
        if len(flat) == 1:
            cs = char_set(flat[0])
            if cs and cs[0] and {quote, "\\"} <= cs[1]:
                plain = True
                continue
        if len(flat) == 2 and flat[0][0] is sre_c.LITERAL and flat[0][1] == ord("\\"):
            cs = char_set(flat[1])
            if flat[1][0] is sre_c.ANY or (cs and cs[0]):
                escaped = True
                continue
        return False
    return plain and escaped


def _class_reps(av: Any) -> List[str]:
    """Representative members of a character class."""
    neg = False
    reps: List[str] = []
    for o, a in av:
        if o is sre_c.NEGATE:
            neg = True
        elif o is sre_c.LITERAL:
            reps.append(chr(a))
        elif o is sre_c.RANGE:
            lo, hi = a
            reps.append(chr(lo))
            if hi != lo:
                reps.append(chr(hi))
        elif o is sre_c.CATEGORY:
            name = str(a)
            if "NOT" in name:
                reps.append("x")
            elif "DIGIT" in name:
                # \d also matches non-ASCII decimal digits (no re.ASCII flag in this package)
                reps.extend(["0", "7", "\u0663"])
            elif "SPACE" in name:
                reps.append(" ")
            elif "WORD" in name:
                reps.extend(["a", "0", "_"])
    if neg:
        for c in "xX0 ":
            if c not in reps:
                return [c]
        return ["é"]
    # de-duplicate, keep order, cap
    out: List[str] = []
    for r in reps:
        if r not in out:
            out.append(r)
    return out[:8] or ["x"]


def shapes(seq: Any, cap: int = 600) -> List[str]:
    """A finite set of strings covering every *shape* of the pattern's language:
    each optional part present/absent, each repeat at its minimum, one more and
    (if allowed) two more, each alternative, and representative members of each
    character class.  Look-around and anchors are ignored (superset)."""
    results = [""]
    for op, av in seq:
        opts: List[str]
        if op is sre_c.LITERAL:
            opts = [chr(av)]
        elif op is sre_c.NOT_LITERAL:
            opts = ["x" if chr(av) != "x" else "y"]
        elif op is sre_c.ANY:
            opts = ["x"]
        elif op is sre_c.IN:
            opts = _class_reps(av)
        elif op is sre_c.SUBPATTERN:
            opts = shapes(av[3], cap)
        elif op in (sre_c.MAX_REPEAT, sre_c.MIN_REPEAT):
            lo, hi, body = av
            base = shapes(body, cap)
            counts = [lo]
            if hi > lo:
                counts.append(lo + 1)
            if hi > lo + 1:
                counts.append(lo + 2)
            opts = []
            for n in counts:
                if n == 0:
                    opts.append("")
                elif n == 1:
                    opts.extend(base)
                else:
                    # vary the first element, repeat the first representative
                    opts.extend(b + base[0] * (n - 1) for b in base)
                    if len(base) > 1:
                        opts.append(base[0] + base[1] * (n - 1))
        elif op is sre_c.BRANCH:
            opts = []
            for alt in av[1]:
                opts.extend(shapes(alt, cap))
        else:  # AT, ASSERT, ASSERT_NOT, GROUPREF ...
            opts = [""]
        seen = []
        for o in opts:
            if o not in seen:
                seen.append(o)
        results = [r + o for r in results for o in seen]
        if len(results) > cap:
            # keep a spread over all prefixes rather than the first `cap` products
            step = len(results) / cap
            results = [results[int(i * step)] for i in range(cap)]
    return results


# ------------------------------------------------------------------ ambiguity of repetitions
_ALPHABET: List[str] = [chr(i) for i in range(128)] + ["é", " ", "☃", "퟿", "", "\U0001f600"]
_CATEGORY_RE = {
    "CATEGORY_DIGIT": r"\d", "CATEGORY_NOT_DIGIT": r"\D", "CATEGORY_SPACE": r"\s", "CATEGORY_NOT_SPACE": r"\S",
    "CATEGORY_WORD": r"\w", "CATEGORY_NOT_WORD": r"\W",
}


def _one_char(item: Tuple[Any, Any]) -> Optional[set]:
    """The characters of the representative alphabet a one-character matcher accepts (None: not such a matcher)."""
    op, av = item
    if op is sre_c.LITERAL:
        return {chr(av)} & set(_ALPHABET) or {chr(av)}
    if op is sre_c.NOT_LITERAL:
        return {c for c in _ALPHABET if c != chr(av)}
    if op is sre_c.ANY:
        return set(_ALPHABET)
    if op is sre_c.IN:
        neg = False
        acc: set = set()
        for o, a in av:
            if o is sre_c.NEGATE:
                neg = True
            elif o is sre_c.LITERAL:
                acc.add(chr(a))
            elif o is sre_c.RANGE:
                acc |= {c for c in _ALPHABET if a[0] <= ord(c) <= a[1]}
            elif o is sre_c.CATEGORY:
                cre = _CATEGORY_RE.get(str(a))
                if cre is None:
                    return set(_ALPHABET)
                acc |= {c for c in _ALPHABET if re.fullmatch(cre, c)}
        return {c for c in _ALPHABET if c not in acc} if neg else acc
    return None


def first_chars(seq: Any) -> Tuple[set, bool]:
    """(characters of the representative alphabet a match of `seq` can begin with, can it match the empty text)."""
    out: set = set()
    for op, av in seq:
        one = _one_char((op, av))
        if one is not None:
            return out | one, False
        if op is sre_c.SUBPATTERN:
            f, nul = first_chars(av[3])
        elif op is sre_c.BRANCH:
            f, nul = set(), False
            for alt in av[1]:
                fa, na = first_chars(alt)
                f |= fa
                nul = nul or na
        elif op in (sre_c.MAX_REPEAT, sre_c.MIN_REPEAT, getattr(sre_c, "POSSESSIVE_REPEAT", None)):
            f, nul = first_chars(av[2])
            nul = nul or int(av[0]) == 0
        elif op in (sre_c.AT, sre_c.ASSERT, sre_c.ASSERT_NOT):
            continue  # matches no character
        elif op is getattr(sre_c, "ATOMIC_GROUP", None):
            f, nul = first_chars(av)
        else:
            return set(_ALPHABET), True  # back-references and the like: anything
        out |= f
        if not nul:
            return out, False
    return out, True


def ambiguous_repeats(seq: Any) -> List[str]:
    """Unbounded repetitions that can match one text in more than one way - the shape behind exponential
    backtracking on a text that finally does not match: `(A|B)*` whose alternatives can begin with the same
    character or can be empty, and `(X+)+`.  (Alternatives with disjoint first characters, none of them empty,
    leave one way to go at every step.)"""
    found: List[str] = []

    def unwrap(body: Any) -> Any:
        items = list(body)
        while len(items) == 1 and items[0][0] is sre_c.SUBPATTERN:
            items = list(items[0][1][3])
        return items

    def visit(s: Any) -> None:
        for op, av in s:
            if op in (sre_c.MAX_REPEAT, sre_c.MIN_REPEAT):
                lo, hi, body = av
                if hi is MAXREPEAT or int(hi) > 64:  # noqa: PLR2004
                    items = unwrap(body)
                    if len(items) == 1 and items[0][0] is sre_c.BRANCH:
                        alts = items[0][1][1]
                        firsts = [first_chars(a) for a in alts]
                        for i, (fa, na) in enumerate(firsts):
                            if na:
                                found.append(f"an alternative of a repeated group can be empty (alternative {i + 1})")
                            for j in range(i + 1, len(firsts)):
                                common = fa & firsts[j][0]
                                if common:
                                    shown = sorted(common)[:3]
                                    found.append(f"alternatives {i + 1} and {j + 1} of a repeated group can both begin with {shown!r}")
                    elif len(items) == 1 and items[0][0] in (sre_c.MAX_REPEAT, sre_c.MIN_REPEAT):
                        ilo, ihi, _b = items[0][1]
                        if ihi is MAXREPEAT and int(ilo) >= 1:
                            found.append("a repetition of a repetition (`(x+)+`)")
                    # `(X+|Y)*`: a round that ends in an unbounded run of X, followed by a round that can begin with
                    # an X, splits one run of X in as many ways as it has characters
                    alts2 = items[0][1][1] if (len(items) == 1 and items[0][0] is sre_c.BRANCH) else [items]
                    begin: Set[str] = set()
                    for a in alts2:
                        begin |= first_chars(a)[0]
                    for i, a in enumerate(alts2):
                        tail = unwrap(a)
                        while tail and tail[-1][0] is sre_c.SUBPATTERN:
                            tail = unwrap(tail[-1][1][3])
                        if not tail or tail[-1][0] not in (sre_c.MAX_REPEAT, sre_c.MIN_REPEAT):
                            continue
                        _tlo, thi, tbody = tail[-1][1]
                        if thi is not MAXREPEAT:
                            continue
                        if len(alts2) == 1 and len(unwrap(a)) == 1:
                            continue  # `(x+)+`, reported above
                        common2 = first_chars(tbody)[0] & begin
                        if common2:
                            found.append(f"a round of a repeated group can end in an unbounded run (alternative {i + 1}) that the next round can continue "
                                         f"with {sorted(common2)[:3]!r}")
                visit(body)
            elif op is sre_c.SUBPATTERN:
                visit(av[3])
            elif op is sre_c.BRANCH:
                for alt in av[1]:
                    visit(alt)
            elif op in (sre_c.ASSERT, sre_c.ASSERT_NOT):
                visit(av[1])
            elif op is getattr(sre_c, "ATOMIC_GROUP", None):
                visit(av)

    visit(seq)
    return found


def mandatory_groups(seq: Any) -> Set[int]:
    """Numbers of the groups that have taken part in every match of `seq` (a group under `?` / `*`, or in only one
    alternative of a branch, may not have)."""
    out: Set[int] = set()
    for op, av in seq:
        if op is sre_c.SUBPATTERN:
            if av[0] is not None:
                out.add(av[0])
            out |= mandatory_groups(av[3])
        elif op in (sre_c.MAX_REPEAT, sre_c.MIN_REPEAT):
            if int(av[0]) >= 1:
                out |= mandatory_groups(av[2])
        elif op is sre_c.BRANCH:
            alts = [mandatory_groups(a) for a in av[1]]
            if alts:
                common = set(alts[0])
                for a in alts[1:]:
                    common &= a
                out |= common
        elif op is getattr(sre_c, "ATOMIC_GROUP", None):
            out |= mandatory_groups(av)
    return out
