"""The closed table of *partial built-in operations* (DESIGN.md R6.2).

For every function the sites of the table are enumerated; each site is either
discharged by a computed fact (static type from annotations, kind analysis,
dominating guard, token-shape enumeration, key-set inclusion) or contributes an
implicit exception class to the escape analysis, where an enclosing handler may
still catch it.

classes
  CONV    int(x) / float(x) on a value that is not statically numeric
  REGEX   re.compile / fullmatch / search / match / sub with a non-constant pattern
  PATARG  <pattern>.fullmatch/search/match(x) with x not provably a str
  CODEC   codecs.decode, bytes.decode, str.encode (strict), json.loads
  MEMBER  a in b / a not in b where b may be a str or a mapping and a may not fit
  ORDER   < <= > >= on operands not both numbers or both strings
  SIZED   len(x) on a value not provably sized
  ITEM    operator.getitem / env.getitem(obj, key) on JSON values
  LAST    x[c] / del x[c] with constant index on a named local list/tuple
  MAPKEY  m[k] / del m[k] on a value that is a mapping at that point
  TABLE   T[k] on a folded constant dict
  MEMO    a call of a function wrapped by functools.lru_cache / cache with an argument that may be unhashable
"""

from __future__ import annotations

import re

import ast
from dataclasses import dataclass
from dataclasses import field
from typing import Any
from typing import Dict
from typing import FrozenSet
from typing import List
from typing import Optional
from typing import Set
from typing import Tuple

from . import regexast
from .callgraph import CallGraph
from .consteval import Folder
from .consteval import Instance
from .consteval import NotConst
from .consteval import Scope
from .flow import Flow
from .kinds import ALL_KINDS
from .kinds import ARRAY
from .kinds import BOOLEAN
from .kinds import DECIMAL
from .kinds import FLOAT
from .kinds import INT
from .kinds import JSON_KINDS
from .kinds import KindDomain
from .kinds import NODELIST
from .kinds import OBJECT
from .kinds import PATTERN
from .kinds import STRING
from .kinds import path_of
from .loader import AnalysisError
from .loader import FuncInfo
from .loader import Repo
from .loader import short
from .tokens import LexerModel
from .tokflow import ParserTokenFlow
from .types import Ty

NUMERIC_TYPES = {"int", "float", "bool"}
SIZED_TYPES = {"list", "tuple", "dict", "str", "Sequence", "Mapping", "set", "frozenset", "deque", "bytes"}
HASHABLE_TYPES = {"str", "int", "float", "bool", "None", "tuple", "bytes"}
EQ_CONTAINER_TYPES = {"list", "tuple", "Sequence", "deque"}
HASH_CONTAINER_TYPES = {"dict", "Mapping", "set", "frozenset"}
SIZED_KINDS = frozenset({OBJECT, ARRAY, STRING, NODELIST})
NUMBER_KINDS = frozenset({INT, FLOAT, DECIMAL, BOOLEAN})
LENIENT_ERRORS = {"ignore", "replace", "backslashreplace", "surrogatepass", "surrogateescape", "xmlcharrefreplace", "namereplace"}


def _plain(v: object) -> bool:
    from .consteval import RegexConst

    if v is None or isinstance(v, (str, int, float, bool, bytes, RegexConst)):
        return True
    if isinstance(v, (list, tuple, set, frozenset)):
        return all(_plain(x) for x in v)
    if isinstance(v, dict):
        return all(_plain(k) for k in v)  # values may be bound methods etc.
    import enum
    import re as _re

    return isinstance(v, (enum.Enum, _re.RegexFlag))


@dataclass
class PSite:
    fn: FuncInfo
    node: ast.AST
    cls: str  # CONV, REGEX...
    raises: List[str]
    discharged: Optional[str] = None  # reason, when no implicit raise remains
    note: str = ""

    def label(self) -> str:
        return f"{self.cls} {short(self.node, 70)}"


class PartialOps:
    def __init__(self, repo: Repo, cg: CallGraph, folder: Folder) -> None:
        self.repo = repo
        self.cg = cg
        self.folder = folder
        self.types = cg.types
        self._kflows: Dict[str, Tuple[Flow, KindDomain]] = {}
        self._mflows: Dict[str, Flow] = {}
        self._lexer: Optional[LexerModel] = None
        self._tokflow: Optional[ParserTokenFlow] = None
        self._sites: Dict[str, List[PSite]] = {}
        self._parent_maps: Dict[str, Dict[int, ast.AST]] = {}
        self.getitem_wrappers = self._find_getitem_wrappers()
        self.int_recognisers = self._find_int_recognisers()

    # ------------------------------------------------------------ lazies
    @property
    def lexer(self) -> LexerModel:
        if self._lexer is None:
            self._lexer = LexerModel(self.repo, self.folder)
        return self._lexer

    @property
    def tokflow(self) -> ParserTokenFlow:
        if self._tokflow is None:
            self._tokflow = ParserTokenFlow(self.repo, self.folder)
        return self._tokflow

    def kflow(self, fn: FuncInfo) -> Tuple[Flow, KindDomain]:
        if fn.qualname not in self._kflows:
            defaults: Dict[str, FrozenSet[str]] = {}
            for n in ast.walk(fn.node):
                if isinstance(n, ast.Attribute) and n.attr == "obj":
                    p = path_of(n)
                    if p:
                        defaults[p] = JSON_KINDS
            dom = KindDomain(defaults=defaults)
            self._kflows[fn.qualname] = (Flow(fn.node, dom), dom)
        return self._kflows[fn.qualname]

    def mflow(self, fn: FuncInfo) -> Flow:
        if fn.qualname not in self._mflows:
            from .must import MustDomain

            dom = MustDomain(refine_events=self._guard_events, stmt_events=self._stmt_events)
            self._mflows[fn.qualname] = Flow(fn.node, dom)
        return self._mflows[fn.qualname]

    # -------------------------------------------------- helper recognition
    def _find_getitem_wrappers(self) -> Set[str]:
        """Functions that are `return getitem(<p1>, <p2>)` on their own
        parameters (optionally behind an async-hook `if`)."""
        out: Set[str] = set()
        for fn in self.repo.functions.values():
            body = [s for s in fn.node.body if not (isinstance(s, ast.Expr) and isinstance(s.value, ast.Constant))]
            if body and isinstance(body[0], ast.If) and len(body) == 2:
                t = body[0].test
                if isinstance(t, ast.Call) and isinstance(t.func, ast.Name) and t.func.id == "hasattr":
                    body = body[1:]
            if len(body) == 1 and isinstance(body[0], ast.Return):
                c = body[0].value
                if (
                    isinstance(c, ast.Call)
                    and isinstance(c.func, ast.Name)
                    and c.func.id == "getitem"
                    and len(c.args) == 2
                    and all(isinstance(a, ast.Name) for a in c.args)
                ):
                    params = [a.arg for a in fn.node.args.args]
                    if all(a.id in params for a in c.args):  # type: ignore[union-attr]
                        out.add(fn.qualname)
        return out

    def _find_int_recognisers(self) -> Set[str]:
        """Single-parameter predicates that return True only for an int or for something `int()` accepted:
        partial evaluation of the body with `isinstance(x, int)` false - every way out that returns True
        must have passed a completed `int(x)` (a path through the ValueError handler has not)."""
        from .peval import Explorer

        out: Set[str] = set()
        for fn in self.repo.functions.values():
            params = [a.arg for a in fn.node.args.args if a.arg != "self"]
            if len(params) != 1 or fn.parent is not None:
                continue
            x = params[0]
            if not any(isinstance(c, ast.Call) and isinstance(c.func, ast.Name) and c.func.id == "int" and len(c.args) == 1
                       and path_of(c.args[0]) == x for c in ast.walk(fn.node)):
                continue
            handlers_ok = all(
                h.type is not None and "ValueError" in ast.unparse(h.type)
                for t in ast.walk(fn.node) if isinstance(t, ast.Try) for h in t.handlers
            )
            if not handlers_ok:
                continue

            def oracle(t: ast.expr, env: dict) -> Optional[bool]:  # type: ignore[type-arg]
                if isinstance(t, ast.Call) and isinstance(t.func, ast.Name) and t.func.id == "isinstance" and len(t.args) == 2 \
                        and path_of(t.args[0]) == x and ast.unparse(t.args[1]) == "int":
                    return False
                return None

            def on_call(c: ast.Call, args, env):  # type: ignore[no-untyped-def]
                if isinstance(c.func, ast.Name) and c.func.id == "int" and len(c.args) == 1 and path_of(c.args[0]) == x:
                    env["$converted"] = True
                return None

            try:
                ex = Explorer(self.folder, fn, oracle, on_call, enter_with=any(isinstance(w, ast.With) for w in ast.walk(fn.node)))
                ex.split_conditionals = True
                outs = ex.run({})
            except AnalysisError:
                continue
            trues = [(o, e) for o, e in zip(outs, ex.envs) if o[0] == "return" and o[2] is True]
            others = [o for o in outs if not (o[0] == "return" and isinstance(o[2], bool))]
            if trues and not others and all(e.get("$converted") and not e.get("$handlers") for _o, e in trues):
                out.add(fn.name)
        # a predicate that only hands its argument to a recogniser is one (`def _int_like(self, obj): return int_like(obj)`)
        grew = True
        while grew:
            grew = False
            for fn in self.repo.functions.values():
                params = [a.arg for a in fn.node.args.args if a.arg not in ("self", "cls")]
                if len(params) != 1 or fn.parent is not None or fn.name in out:
                    continue
                body = [b for b in fn.node.body if not (isinstance(b, ast.Expr) and isinstance(b.value, ast.Constant))]
                if len(body) == 1 and isinstance(body[0], ast.Return) and isinstance(body[0].value, ast.Call):
                    c = body[0].value
                    callee = c.func.id if isinstance(c.func, ast.Name) else (c.func.attr if isinstance(c.func, ast.Attribute) and path_of(c.func.value) in ("self", "cls") else None)
                    if callee in out and callee != fn.name and len(c.args) == 1 and not c.keywords and path_of(c.args[0]) == params[0]:
                        out.add(fn.name)
                        grew = True
        return out

    # ------------------------------------------------------ must-fact events
    def _guard_events(self, test: ast.expr, branch: bool) -> List[str]:
        ev: List[str] = []
        # truthiness of X: `if not X: ...` -> nonempty@X on the false side
        p = path_of(test)
        if p is not None and branch:
            ev.append("nonempty@" + p)
        if (branch and isinstance(test, ast.Call) and isinstance(test.func, ast.Attribute) and test.func.attr == "group" and len(test.args) == 1
                and not test.keywords and isinstance(test.args[0], ast.Constant) and isinstance(test.args[0].value, str) and isinstance(test.func.value, ast.Name)):
            # `if m.group("G"):` - the group took part in the match (and matched something)
            ev.append(f"group:{test.func.value.id}:{test.args[0].value}")
        if isinstance(test, ast.Compare) and len(test.ops) == 1:
            left, op, right = test.left, test.ops[0], test.comparators[0]
            # len(X) == c / len(X) >= c / len(X) > c
            if (
                isinstance(left, ast.Call)
                and isinstance(left.func, ast.Name)
                and left.func.id == "len"
                and left.args
                and isinstance(right, ast.Constant)
                and isinstance(right.value, int)
            ):
                xp = path_of(left.args[0])
                c = right.value
                if xp:
                    if isinstance(op, (ast.Eq, ast.GtE)) and branch and c >= 1:
                        ev.append(f"minlen:{c}@" + xp)
                    if isinstance(op, ast.Gt) and branch and c >= 0:
                        ev.append(f"minlen:{c + 1}@" + xp)
                    if isinstance(op, ast.Eq) and branch and c >= 1:
                        ev.append("nonempty@" + xp)
                    if isinstance(op, (ast.GtE,)) and branch and c >= 1:
                        ev.append("nonempty@" + xp)
                    if isinstance(op, ast.Gt) and branch and c >= 0:
                        ev.append("nonempty@" + xp)
                    if isinstance(op, ast.Eq) and not branch and c == 0:
                        ev.append("nonempty@" + xp)
                    if isinstance(op, ast.NotEq) and branch and c == 0:
                        ev.append("nonempty@" + xp)
                    if isinstance(op, ast.Lt) and not branch and c >= 1:
                        ev.append("nonempty@" + xp)
                    if isinstance(op, ast.NotEq) and not branch and c >= 1:
                        ev.append(f"minlen:{c}@" + xp)
                        ev.append("nonempty@" + xp)
                    if isinstance(op, ast.Lt) and not branch and c >= 1:
                        ev.append(f"minlen:{c}@" + xp)
                    if isinstance(op, ast.LtE) and not branch and c >= 0:
                        ev.append(f"minlen:{c + 1}@" + xp)
                        ev.append("nonempty@" + xp)
            # X is not None
            if isinstance(right, ast.Constant) and right.value is None and isinstance(op, (ast.Is, ast.IsNot)):
                xp0 = path_of(left)
                if xp0 and (isinstance(op, ast.IsNot)) == branch:
                    ev.append("notnone@" + xp0)
            # k in T
            if isinstance(op, ast.In) and branch or isinstance(op, ast.NotIn) and not branch:
                kp = path_of(left)
                tp = path_of(right)
                if kp and tp:
                    ev.append(f"in:{tp}@{kp}")
        # P.fullmatch(s) is None / is not None
        if (
            isinstance(test, ast.Compare)
            and len(test.ops) == 1
            and isinstance(test.ops[0], (ast.Is, ast.IsNot))
            and isinstance(test.comparators[0], ast.Constant)
            and test.comparators[0].value is None
            and isinstance(test.left, ast.Call)
            and isinstance(test.left.func, ast.Attribute)
            and test.left.func.attr in ("fullmatch", "match")
            and len(test.left.args) == 1
        ):
            matched = (isinstance(test.ops[0], ast.IsNot) and branch) or (isinstance(test.ops[0], ast.Is) and not branch)
            sp = path_of(test.left.args[0])
            if matched and sp:
                ev.append(f"rematch:{ast.unparse(test.left.func.value)}:{test.left.func.attr}@{sp}")
        if isinstance(test, ast.Call):
            f = test.func
            # recogniser predicate: self._int_like(E)
            name = f.id if isinstance(f, ast.Name) else getattr(f, "attr", None)
            if name in self.int_recognisers and len(test.args) == 1 and branch:
                ev.append("intlike@" + ast.unparse(test.args[0]))
            # P.fullmatch(s) / P.match(s) with P a folded pattern inside dom(int)
            if isinstance(f, ast.Attribute) and f.attr in ("fullmatch", "match") and len(test.args) == 1 and branch:
                sp = path_of(test.args[0])
                if sp:
                    ev.append(f"rematch:{ast.unparse(f.value)}:{f.attr}@{sp}")
            if isinstance(f, ast.Name) and f.id == "isinstance" and len(test.args) == 2 and branch:
                sp = path_of(test.args[0])
                if sp:
                    ev.append(f"isinstance:{ast.unparse(test.args[1])}@{sp}")
        return ev

    def _stmt_events(self, stmt: ast.stmt) -> List[str]:
        return []

    # ------------------------------------------------------------ utilities
    def _ty(self, fn: FuncInfo, e: ast.expr) -> Optional[Ty]:
        return self.types.expr_type(fn, e)

    def _tynames(self, fn: FuncInfo, e: ast.expr, site: Optional[ast.AST] = None) -> Optional[Set[str]]:
        t = self._ty(fn, e)
        if t is None and isinstance(e, ast.Attribute) and site is not None:
            # receiver narrowed by a dominating isinstance(<recv>, RepoClass)
            bp = path_of(e.value)
            if bp:
                for ev in self._facts(fn, site):
                    if ev.startswith("isinstance:") and ev.endswith("@" + bp):
                        cname = ev[len("isinstance:"):-len("@" + bp)]
                        cls = self.repo.get_class(cname)
                        if cls is not None:
                            t = self.types.field_type(cls, e.attr)
                            if t is not None:
                                break
        if t is None:
            return None
        out = set()
        for n in t.names:
            cls = self.repo.classes.get(n)
            if cls is not None:
                # repo subclass of list (NodeList) counts as list
                mro = self.repo.mro(cls)
                if "list" in mro:
                    out.add("list")
                    continue
            out.add(n)
        return out

    def _kinds(self, fn: FuncInfo, site: ast.AST, e: ast.expr) -> Optional[FrozenSet[str]]:
        if isinstance(e, ast.Subscript) and isinstance(e.slice, ast.Slice):
            e = e.value  # a slice of a str/list has the kind of the sliced value
        p = path_of(e)
        if p is None:
            if isinstance(e, ast.Constant):
                fl, dom = self.kflow(fn)
                return dom.kinds_of(e, dom.initial(fn.node))
            return None
        fl, dom = self.kflow(fn)
        st = fl.at.get(id(site))
        if st is None:
            return None
        return dom.lookup(st, p)

    def _facts(self, fn: FuncInfo, site: ast.AST) -> FrozenSet[str]:
        fl = self.mflow(fn)
        st = fl.at.get(id(site))
        return st if st is not None else frozenset()

    def _fold(self, fn: FuncInfo, e: ast.expr):  # type: ignore[no-untyped-def]
        scope_locals = {}
        if fn.cls is not None:
            scope_locals["self"] = Instance(fn.cls)
        v = self.folder.eval(e, Scope(self.folder, fn.module, fn.cls, scope_locals))
        if not _plain(v):
            raise NotConst("not a plain constant")
        return v

    # ---------------------------------------------------------------- sites
    def sites(self, fn: FuncInfo) -> List[PSite]:
        if fn.qualname in self._sites:
            return self._sites[fn.qualname]
        out: List[PSite] = []
        self._sites[fn.qualname] = out
        from .callgraph import _own_nodes

        for node in _own_nodes(fn.node):
            try:
                self._visit(fn, node, out)
            except NotConst:
                pass
        return out

    def undischarged(self, fn: FuncInfo) -> List[Tuple[ast.AST, List[str], str]]:
        return [(s.node, s.raises, s.label()) for s in self.sites(fn) if s.discharged is None and s.raises]

    def _visit(self, fn: FuncInfo, node: ast.AST, out: List[PSite]) -> None:  # noqa: PLR0912
        if isinstance(node, ast.Call):
            f = node.func
            name = f.id if isinstance(f, ast.Name) else None
            site = self.cg.by_node.get(id(node))
            ext = site.ext if site is not None else None
            if name in ("int", "float") and len(node.args) >= 1 and not node.keywords:
                self._conv(fn, node, out)
            elif ext in ("re.compile", "re.fullmatch", "re.search", "re.match", "re.sub", "re.split", "re.findall", "re.finditer"):
                self._regex(fn, node, out)
            elif isinstance(f, ast.Attribute) and f.attr in ("fullmatch", "search", "match") and len(node.args) >= 1:
                self._patarg(fn, node, out)
            elif ext in ("codecs.decode", "json.loads", "json.load") or (
                isinstance(f, ast.Attribute) and f.attr in ("decode", "encode") and ext is None
            ) or (isinstance(f, ast.Attribute) and f.attr in ("decode", "encode")):
                self._codec(fn, node, out, ext)
            elif name == "len" and len(node.args) == 1:
                self._sized(fn, node, out)
            elif site is not None and site.callees and any(self._memoised(c) for c in site.callees):
                self._memo(fn, node, out)
            elif (name == "getitem" and len(node.args) == 2) or (
                site is not None and site.callees and all(c.qualname in self.getitem_wrappers for c in site.callees)
                and len(node.args) == 2
            ):
                if fn.qualname not in self.getitem_wrappers:
                    self._item(fn, node, out)
        elif isinstance(node, ast.Compare):
            for i, op in enumerate(node.ops):
                left = node.left if i == 0 else node.comparators[i - 1]
                right = node.comparators[i]
                if isinstance(op, (ast.In, ast.NotIn)):
                    self._member(fn, node, left, right, out)
                elif isinstance(op, (ast.Lt, ast.LtE, ast.Gt, ast.GtE)):
                    self._order(fn, node, left, right, out)
        elif isinstance(node, ast.Subscript):
            self._subscript(fn, node, out)

    # ----------------------------------------------------------------- MEMO
    @staticmethod
    def _memoised(callee: FuncInfo) -> bool:
        """Wrapped by functools.lru_cache / cache: the arguments are hashed before the body (and any `try` in it) runs."""
        for d in getattr(callee.node, "decorator_list", []):
            t = d.func if isinstance(d, ast.Call) else d
            nm = t.attr if isinstance(t, ast.Attribute) else (t.id if isinstance(t, ast.Name) else None)
            if nm in ("lru_cache", "cache"):
                return True
        return False

    def _memo(self, fn: FuncInfo, node: ast.Call, out: List[PSite]) -> None:
        for a in list(node.args) + [k.value for k in node.keywords]:
            if isinstance(a, ast.Starred):
                a = a.value
            if isinstance(a, ast.Constant):
                continue
            names = self._tynames(fn, a)
            if names is not None and names <= HASHABLE_TYPES - {"tuple"}:
                continue
            ks = self._kinds(fn, node, a)
            if ks is not None and ks <= {STRING, INT, FLOAT, BOOLEAN, "null"}:
                continue
            out.append(PSite(fn, node, "MEMO", ["TypeError"], note=f"`{ast.unparse(a)}` is hashed by the memoising wrapper and may be unhashable"))
            return
        out.append(PSite(fn, node, "MEMO", [], discharged="every argument of the memoised call is hashable"))

    # ----------------------------------------------------------------- CONV
    def _token_shapes(self, fn: FuncInfo, site: ast.AST, operand: ast.expr) -> Optional[Tuple[List[str], str]]:
        """Shapes of `tok.value` when the token kinds of `tok` are known."""
        p = path_of(operand)
        if p is None or not p.endswith(".value"):
            return None
        tok = p[: -len(".value")]
        kinds = self.tokflow.kinds_at(fn, site, tok)
        if kinds is None:
            return None
        shapes: List[str] = []
        for k in sorted(kinds):
            sh = self.lexer.value_shapes(k)
            if sh is None:
                return None
            for s in sh:
                if s not in shapes:
                    shapes.append(s)
        facts = self._facts(fn, site)
        if "nonempty@" + p in facts:
            shapes = [s for s in shapes if s != ""]
        return shapes, f"token kinds {sorted(kinds)}"

    def _conv(self, fn: FuncInfo, node: ast.Call, out: List[PSite]) -> None:
        fname = node.func.id  # type: ignore[union-attr]
        arg = node.args[0]
        # a local bound once to float(<text>) is read through: `n = float(t)` ; `int(n)` is `int(float(t))`
        if fname == "int" and isinstance(arg, ast.Name):
            defs = [
                a.value for a in ast.walk(fn.node)
                if isinstance(a, ast.Assign) and len(a.targets) == 1 and isinstance(a.targets[0], ast.Name) and a.targets[0].id == arg.id
            ]
            stores = sum(1 for n in ast.walk(fn.node) if isinstance(n, ast.Name) and n.id == arg.id and isinstance(n.ctx, (ast.Store, ast.Del)))
            if len(defs) == 1 and stores == 1 and isinstance(defs[0], ast.Call) and isinstance(defs[0].func, ast.Name) and defs[0].func.id == "float" \
                    and len(defs[0].args) == 1:
                arg = defs[0]
        # inner conversion of int(float(x)) is reported at the outer call
        names = self._tynames(fn, arg)
        inner_float = (
            isinstance(arg, ast.Call) and isinstance(arg.func, ast.Name) and arg.func.id == "float"
        )
        if names is not None and names <= NUMERIC_TYPES and not inner_float:
            if fname == "int" and "float" in names:
                out.append(PSite(fn, node, "CONV", ["OverflowError", "ValueError"],
                                 note="int() of a float that may be inf/nan"))
                return
            out.append(PSite(fn, node, "CONV", [], discharged=f"operand statically numeric {sorted(names)}"))
            return
        facts = self._facts(fn, node)
        if "intlike@" + ast.unparse(arg) in facts:
            out.append(PSite(fn, node, "CONV", [], discharged="dominated by an int-recogniser predicate on the same expression"))
            return
        # dominated by P.fullmatch(x) with L(P) inside dom(conversion)
        p = path_of(arg)
        if p is not None:
            for ev in facts:
                if ev.startswith("rematch:") and ev.endswith("@" + p):
                    _, pat_expr, how = ev[: -len("@" + p)].split(":", 2)
                    try:
                        pv = self._fold(fn, ast.parse(pat_expr, mode="eval").body)
                    except (NotConst, SyntaxError):
                        continue
                    pattern = getattr(pv, "pattern", None)
                    if isinstance(pattern, str):
                        bad = self._try_convert(fname, regexast.shapes(regexast.parse(pattern)), False)
                        if bad:
                            classes = sorted({c for c, _ in bad})
                            wit = "; ".join(f"{w!r} -> {c}" for c, w in bad[:3])
                            out.append(PSite(fn, node, "CONV", classes,
                                             note=f"guarded by {pat_expr}.{how}(), whose language still contains {wit}"))
                            return
                        if not bad:
                            out.append(PSite(fn, node, "CONV", [], discharged=f"dominated by {pat_expr}.{how}() whose language converts"))
                            return
                if ev == "isinstance:int@" + p:
                    out.append(PSite(fn, node, "CONV", [], discharged="isinstance(x, int)"))
                    return
        operand = arg.args[0] if inner_float and arg.args else arg  # type: ignore[union-attr]
        ts = self._token_shapes(fn, node, operand)
        if ts is not None:
            shapes, why = ts
            bad = self._try_convert(fname, shapes, inner_float)
            if not bad:
                out.append(PSite(fn, node, "CONV", [], discharged=f"every shape of the token value converts ({why}, {len(shapes)} shapes)"))
                return
            classes = sorted({c for c, _ in bad})
            wit = "; ".join(f"{w!r} -> {c}" for c, w in bad[:3])
            out.append(PSite(fn, node, "CONV", classes, note=f"{why}; witness shapes: {wit}"))
            return
        if inner_float and fname == "int":
            out.append(PSite(fn, node, "CONV", ["ValueError", "OverflowError"], note="int(float(x)) of an unconstrained string"))
            return
        if names is not None and not (names & {"str", "bytes"}) and names <= (NUMERIC_TYPES | {"None"}):
            out.append(PSite(fn, node, "CONV", ["TypeError"], note="operand may be None"))
            return
        out.append(PSite(fn, node, "CONV", ["ValueError"], note=f"operand type {sorted(names) if names else 'unknown'}"))

    def _try_convert(self, fname: str, shapes: List[str], inner_float: bool) -> List[Tuple[str, str]]:
        """Apply the *built-in* conversion to analysis-derived strings."""
        bad: List[Tuple[str, str]] = []
        extreme = []
        for s in shapes:
            # a trailing unbounded digit run can be arbitrarily long
            i = len(s)
            while i > 0 and s[i - 1].isdigit():
                i -= 1
            if i < len(s):
                # 400 digits overflow a float; more than 4300 digits exceed CPython's
                # limit for str -> int conversion (ValueError)
                extreme.append(s[:i] + "9" * 400)
                extreme.append(s[:i] + "9" * 5000)
        for s in list(shapes) + extreme[:60]:
            try:
                if inner_float:
                    int(float(s))
                elif fname == "int":
                    int(s)
                else:
                    float(s)
            except Exception as err:  # noqa: BLE001
                bad.append((type(err).__name__, s if len(s) < 30 else s[:12] + "..." + s[-4:]))
        # keep one witness per class
        seen: Set[str] = set()
        uniq = []
        for c, w in bad:
            if c not in seen:
                seen.add(c)
                uniq.append((c, w))
        return uniq

    # ---------------------------------------------------------------- REGEX
    def _regex(self, fn: FuncInfo, node: ast.Call, out: List[PSite]) -> None:
        if not node.args:
            return
        pat = node.args[0]
        try:
            v = self._fold(fn, pat)
            if isinstance(v, str):
                out.append(PSite(fn, node, "REGEX", [], discharged="constant pattern"))
                return
        except NotConst:
            pass
        # re raises OverflowError for an oversized repetition count (`a{99999999999999}`)
        out.append(PSite(fn, node, "REGEX", ["re.error", "OverflowError"], note="pattern is not a constant"))
        # string argument of re.fullmatch/search(pattern, string)
        if len(node.args) >= 2 and not (isinstance(node.func, ast.Attribute) and node.func.attr == "compile"):
            names = self._tynames(fn, node.args[1])
            ks = self._kinds(fn, node, node.args[1])
            if not ((names is not None and names <= {"str"}) and False) and not (ks is not None and ks <= {STRING}):
                # annotations on JSON-valued parameters are not trusted here:
                # the value comes from the document
                out.append(PSite(fn, node.args[1], "PATARG", ["TypeError"], note="string argument comes from the document"))

    def _patarg(self, fn: FuncInfo, node: ast.Call, out: List[PSite]) -> None:
        recv = node.func.value  # type: ignore[union-attr]
        rnames = self._tynames(fn, recv)
        rk = self._kinds(fn, node, recv)
        is_pattern = (rnames is not None and rnames <= {"re.Pattern"}) or (rk is not None and rk <= {PATTERN})
        if not is_pattern:
            # module-level call re.fullmatch handled by _regex; other receivers ignored
            return
        arg = node.args[0]
        names = self._tynames(fn, arg)
        ks = self._kinds(fn, node, arg)
        if ks is not None and ks <= {STRING}:
            out.append(PSite(fn, node, "PATARG", [], discharged="argument narrowed to str"))
        elif names is not None and names <= {"str"} and (ks is None or ks == ALL_KINDS):
            out.append(PSite(fn, node, "PATARG", [], discharged="argument statically str"))
        else:
            out.append(PSite(fn, node, "PATARG", ["TypeError"], note="argument may not be a str"))

    # ---------------------------------------------------------------- CODEC
    def _codec(self, fn: FuncInfo, node: ast.Call, out: List[PSite], ext: Optional[str]) -> None:
        f = node.func
        if ext == "codecs.decode":
            out.append(PSite(fn, node, "CODEC", ["UnicodeDecodeError"], note="codecs.decode may reject its input"))
            return
        if ext in ("json.loads", "json.load"):
            # bytes (what a file opened in binary mode gives) are decoded as UTF-8 first
            names = self._tynames(fn, node.args[0]) if node.args else None
            text_only = ext == "json.loads" and (
                (names is not None and names <= {"str"}) or isinstance(node.args[0] if node.args else None, (ast.JoinedStr, ast.Constant)))
            classes = ["json.JSONDecodeError"] if text_only else ["json.JSONDecodeError", "UnicodeDecodeError"]
            out.append(PSite(fn, node, "CODEC", classes, note="json decoding" + ("" if text_only else " of text or bytes")))
            return
        if isinstance(f, ast.Attribute) and f.attr in ("decode", "encode"):
            recv_names = self._tynames(fn, f.value)
            # only str/bytes receivers (or results of the codec chain itself)
            chain = isinstance(f.value, ast.Call)
            if not chain and not (recv_names is not None and recv_names <= {"str", "bytes"}):
                return
            errors = None
            if len(node.args) >= 2 and isinstance(node.args[1], ast.Constant):
                errors = node.args[1].value
            for k in node.keywords:
                if k.arg == "errors" and isinstance(k.value, ast.Constant):
                    errors = k.value.value
            if f.attr == "encode":
                if errors in LENIENT_ERRORS:
                    out.append(PSite(fn, node, "CODEC", [], discharged=f"encode with errors={errors!r}"))
                else:
                    out.append(PSite(fn, node, "CODEC", ["UnicodeEncodeError"], note="strict encode"))
            else:
                if errors in LENIENT_ERRORS - {"surrogatepass"}:
                    out.append(PSite(fn, node, "CODEC", [], discharged=f"decode with errors={errors!r}"))
                else:
                    out.append(PSite(fn, node, "CODEC", ["UnicodeDecodeError"], note="strict decode"))

    # ---------------------------------------------------------------- SIZED
    def _sized(self, fn: FuncInfo, node: ast.Call, out: List[PSite]) -> None:
        arg = node.args[0]
        ks = self._kinds(fn, node, arg)
        if ks is not None and ks != ALL_KINDS and not (path_of(arg) or "").endswith(".obj"):
            if ks <= SIZED_KINDS:
                out.append(PSite(fn, node, "SIZED", [], discharged=f"kinds {sorted(ks)}"))
                return
        if ks is not None and ks <= SIZED_KINDS:
            out.append(PSite(fn, node, "SIZED", [], discharged=f"kinds {sorted(ks)}"))
            return
        names = self._tynames(fn, arg, node)
        if names is not None and names <= SIZED_TYPES:
            out.append(PSite(fn, node, "SIZED", [], discharged=f"static type {sorted(names)}"))
            return
        out.append(PSite(fn, node, "SIZED", ["TypeError"], note=f"type {sorted(names) if names else 'unknown'}, kinds {sorted(ks) if ks and ks != ALL_KINDS else 'any'}"))

    # ----------------------------------------------------------------- ITEM
    def _parents(self, fn: FuncInfo) -> Dict[int, ast.AST]:
        if fn.qualname not in self._parent_maps:
            from .flow import parent_map

            self._parent_maps[fn.qualname] = parent_map(fn.node)
        return self._parent_maps[fn.qualname]

    def _in_keyerror_retry(self, fn: FuncInfo, node: ast.Call, obj: ast.expr) -> bool:
        """Is the site inside `except KeyError:` of a `try` whose body performs
        getitem on the very same object?  Only a mapping raises KeyError from
        getitem, so the object is a mapping in that handler."""
        op = path_of(obj)
        if op is None:
            return False
        parents = self._parents(fn)
        cur: Optional[ast.AST] = node
        while cur is not None:
            par = parents.get(id(cur))
            if isinstance(cur, ast.ExceptHandler) and isinstance(par, ast.Try):
                types = cur.type.elts if isinstance(cur.type, ast.Tuple) else [cur.type] if cur.type is not None else []
                if len(types) == 1 and (self.repo.dotted(types[0]) or "").split(".")[-1] == "KeyError":
                    for c in ast.walk(ast.Module(body=par.body, type_ignores=[])):
                        if (
                            isinstance(c, ast.Call)
                            and isinstance(c.func, ast.Name)
                            and c.func.id == "getitem"
                            and c.args
                            and path_of(c.args[0]) == op
                        ):
                            return True
            cur = par
        return False

    def _item(self, fn: FuncInfo, node: ast.Call, out: List[PSite]) -> None:
        obj, key = node.args[0], node.args[1]
        ks = self._kinds(fn, node, obj)
        if self._in_keyerror_retry(fn, node, obj):
            ks = frozenset({OBJECT}) if ks is None else (ks & {OBJECT}) or frozenset({OBJECT})
        keyt = self._tynames(fn, key)
        classes: Set[str] = set()
        if ks is None:
            ks = ALL_KINDS
        if OBJECT in ks:
            classes.add("KeyError")
            if not (keyt is not None and keyt <= HASHABLE_TYPES):
                kk = self._kinds(fn, node, key)
                if not (kk is not None and kk <= {STRING, INT, FLOAT, BOOLEAN}):
                    classes.add("TypeError")
        if ks & {ARRAY, STRING, NODELIST}:
            is_slice = keyt is not None and keyt <= {"slice"}
            if not is_slice:
                classes.add("IndexError")
            if not (keyt is not None and keyt <= {"int", "slice", "bool"}):
                kk2 = self._kinds(fn, node, key)
                if not (kk2 is not None and kk2 <= {INT, BOOLEAN}):
                    classes.add("TypeError")
        if ks - {OBJECT, ARRAY, STRING, NODELIST}:
            classes.add("TypeError")
        if not classes:
            out.append(PSite(fn, node, "ITEM", [], discharged=f"kinds {sorted(ks)} with key {sorted(keyt) if keyt else '?'} cannot fail"))
            return
        out.append(PSite(fn, node, "ITEM", sorted(classes), note=f"object kinds {sorted(ks) if ks != ALL_KINDS else 'any'}, key type {sorted(keyt) if keyt else 'unknown'}"))

    # --------------------------------------------------------------- MEMBER
    def _member(self, fn: FuncInfo, node: ast.Compare, left: ast.expr, right: ast.expr, out: List[PSite]) -> None:
        if isinstance(right, (ast.Tuple, ast.List)):
            return  # literal container, membership by ==
        rt = self._tynames(fn, right)
        lt = self._tynames(fn, left)
        if isinstance(right, (ast.Set, ast.Dict)):
            # a set / dict display hashes the left operand
            lk1 = self._kinds(fn, node, left)
            if (lt is not None and lt <= HASHABLE_TYPES) or (lk1 is not None and lk1 <= {STRING, INT, FLOAT, BOOLEAN, "null"}):
                out.append(PSite(fn, node, "MEMBER", [], discharged="left operand hashable"))
            else:
                out.append(PSite(fn, node, "MEMBER", ["TypeError"], note="membership in a set display hashes the left operand, which may be a list or a dict"))
            return
        # folded constant containers
        try:
            v = self._fold(fn, right)
            if isinstance(v, (dict, set, frozenset, list, tuple)):
                if lt is not None and lt <= HASHABLE_TYPES or isinstance(v, (list, tuple)):
                    return
                lk0 = self._kinds(fn, node, left)
                out.append(PSite(fn, node, "MEMBER", [], discharged="constant container")
                           if (lk0 is not None and lk0 <= {STRING, INT, FLOAT, BOOLEAN})
                           else PSite(fn, node, "MEMBER", ["TypeError"], note="left operand may be unhashable"))
                return
        except NotConst:
            pass
        rk = self._kinds(fn, node, right)
        lk = self._kinds(fn, node, left)
        if rt is not None and rt <= EQ_CONTAINER_TYPES and (rk is None or rk == ALL_KINDS or STRING not in rk):
            out.append(PSite(fn, node, "MEMBER", [], discharged=f"right is {sorted(rt)} (membership by ==)"))
            return
        if rt is not None and rt <= (HASH_CONTAINER_TYPES | EQ_CONTAINER_TYPES):
            if lt is not None and lt <= HASHABLE_TYPES:
                out.append(PSite(fn, node, "MEMBER", [], discharged=f"hashable {sorted(lt)} in {sorted(rt)}"))
                return
        if rt is not None and rt <= {"str"} and lt is not None and lt <= {"str"}:
            out.append(PSite(fn, node, "MEMBER", [], discharged="str in str"))
            return
        # kind-based
        if rk is not None and rk != ALL_KINDS:
            problems = []
            if STRING in rk and not (lk is not None and lk <= {STRING}) and not (lt is not None and lt <= {"str"}):
                problems.append("right may be a str while left may not be")
            if OBJECT in rk and not (
                (lk is not None and lk <= {STRING, INT, FLOAT, DECIMAL, BOOLEAN, "null"})
                or (lt is not None and lt <= HASHABLE_TYPES)
            ):
                problems.append("right may be a mapping while left may be unhashable")
            if rk - {STRING, OBJECT, ARRAY, NODELIST}:
                problems.append(f"right may be of kind {sorted(rk - {STRING, OBJECT, ARRAY, NODELIST})}")
            if not problems:
                out.append(PSite(fn, node, "MEMBER", [], discharged=f"kinds: right {sorted(rk)}"))
                return
            out.append(PSite(fn, node, "MEMBER", ["TypeError"], note="; ".join(problems)))
            return
        if rt is None and lt is None:
            out.append(PSite(fn, node, "MEMBER", ["TypeError"], note="operand types unknown"))
            return
        out.append(PSite(fn, node, "MEMBER", ["TypeError"], note=f"left {sorted(lt) if lt else 'unknown'} in right {sorted(rt) if rt else 'unknown'}"))

    # ---------------------------------------------------------------- ORDER
    def _order(self, fn: FuncInfo, node: ast.Compare, left: ast.expr, right: ast.expr, out: List[PSite]) -> None:
        lt, rt = self._tynames(fn, left), self._tynames(fn, right)
        if lt is not None and rt is not None:
            if lt <= NUMERIC_TYPES and rt <= NUMERIC_TYPES:
                return
            if lt <= {"str"} and rt <= {"str"}:
                return
        lk, rk = self._kinds(fn, node, left), self._kinds(fn, node, right)

        def numeric(names: Optional[Set[str]], ks: Optional[FrozenSet[str]]) -> bool:
            if names is None:
                return ks is not None and ks <= NUMBER_KINDS
            if names <= NUMERIC_TYPES:
                return True
            return (names - {"None"}) <= NUMERIC_TYPES and ks is not None and "null" not in ks

        if numeric(lt, lk) and numeric(rt, rk):
            out.append(PSite(fn, node, "ORDER", [], discharged="both operands numeric (None excluded by guard)"))
            return
        if lk is not None and rk is not None:
            if lk <= NUMBER_KINDS and rk <= NUMBER_KINDS:
                out.append(PSite(fn, node, "ORDER", [], discharged="both operands numbers"))
                return
            if lk <= {STRING} and rk <= {STRING}:
                out.append(PSite(fn, node, "ORDER", [], discharged="both operands strings"))
                return
        # one side typed numeric and the other unknown-but-annotated handled above
        if (lt is not None and lt <= NUMERIC_TYPES and rk is not None and rk <= NUMBER_KINDS) or (
            rt is not None and rt <= NUMERIC_TYPES and lk is not None and lk <= NUMBER_KINDS
        ):
            out.append(PSite(fn, node, "ORDER", [], discharged="numeric"))
            return
        out.append(PSite(fn, node, "ORDER", ["TypeError"], note=f"left {sorted(lt) if lt else sorted(lk) if lk and lk != ALL_KINDS else 'unknown'}, right {sorted(rt) if rt else sorted(rk) if rk and rk != ALL_KINDS else 'unknown'}"))

    # --------------------------------------------------------- LAST / TABLE
    def _subscript(self, fn: FuncInfo, node: ast.Subscript, out: List[PSite]) -> None:
        base = node.value
        idx = node.slice
        if isinstance(idx, ast.Slice):
            return
        # TABLE: subscript of a folded constant dict
        if isinstance(node.ctx, ast.Load):
            table = None
            try:
                v = self._fold(fn, base)
                if isinstance(v, dict) and v:
                    table = v
            except NotConst:
                table = None
            if table is not None:
                self._table(fn, node, table, out)
                return
        # MAPKEY: load / delete of a key on a value that is a mapping here
        if isinstance(node.ctx, (ast.Load, ast.Del)) and path_of(base) is not None:
            bk = self._kinds(fn, node, base)
            bt = self._tynames(fn, base)
            is_map = (bk is not None and bk <= {OBJECT}) or (
                bt is not None and bt <= {"dict", "Mapping"} and (bk is None or bk == ALL_KINDS or bk <= {OBJECT})
            )
            if is_map:
                facts = self._facts(fn, node)
                kp = path_of(idx)
                bp = path_of(base)
                if kp and f"in:{bp}@{kp}" in facts:
                    out.append(PSite(fn, node, "MAPKEY", [], discharged="dominated by a membership test of the same key"))
                else:
                    out.append(PSite(fn, node, "MAPKEY", ["KeyError"], note="key not shown to be present"))
                return
        # LAST: constant index on a *named local* list/tuple
        if not isinstance(base, ast.Name):
            return
        c = None
        if isinstance(idx, ast.Constant) and isinstance(idx.value, int):
            c = idx.value
        elif isinstance(idx, ast.UnaryOp) and isinstance(idx.op, ast.USub) and isinstance(idx.operand, ast.Constant):
            c = -idx.operand.value
        if c is None:
            return
        names = self._tynames(fn, base)
        bk2 = self._kinds(fn, node, base)
        seq_by_kind = bk2 is not None and bk2 != ALL_KINDS and bk2 <= {ARRAY, NODELIST}
        if not seq_by_kind and (names is None or not (names <= {"list", "tuple", "Sequence", "deque"})):
            return
        facts = self._facts(fn, node)
        if "nonempty@" + base.id in facts and c in (0, -1):
            out.append(PSite(fn, node, "LAST", [], discharged="dominated by a non-emptiness test"))
            return
        need = c + 1 if c >= 0 else -c
        for ev in facts:
            if ev.startswith("minlen:") and ev.endswith("@" + base.id):
                if int(ev[len("minlen:"):].split("@")[0]) >= need:
                    out.append(PSite(fn, node, "LAST", [], discharged=f"dominated by a length test ({ev.split('@')[0]})"))
                    return
        # an element of a constant table: every row is long enough
        rows = self._constant_rows(fn, base.id)
        if rows is not None and all(isinstance(r, (tuple, list, str)) and len(r) >= need for r in rows):
            out.append(PSite(fn, node, "LAST", [], discharged=f"element of a constant table whose {len(rows)} rows all have >= {need} items"))
            return
        out.append(PSite(fn, node, "LAST", ["IndexError"], note=f"`{base.id}` may be empty here"))

    def _constant_rows(self, fn: FuncInfo, name: str) -> Optional[List[Any]]:
        """The folded iterable when `name` is bound only as the variable of loops / comprehensions over one
        constant sequence."""
        iters: List[ast.expr] = []
        for n in ast.walk(fn.node):
            if isinstance(n, (ast.For, ast.AsyncFor, ast.comprehension)) and isinstance(n.target, ast.Name) and n.target.id == name:
                iters.append(n.iter)
            elif isinstance(n, ast.Name) and n.id == name and isinstance(n.ctx, ast.Store):
                pass
        stores = sum(1 for n in ast.walk(fn.node) if isinstance(n, ast.Name) and n.id == name and isinstance(n.ctx, (ast.Store, ast.Del)))
        if not iters or stores != len(iters):
            return None
        rows: List[Any] = []
        for it in iters:
            try:
                from .consteval import Instance
                from .consteval import Scope

                loc = {"self": Instance(fn.cls)} if fn.cls is not None else {}
                v = self.folder.eval(it, Scope(self.folder, fn.module, fn.cls, loc))
            except NotConst:
                return None
            if not isinstance(v, (tuple, list)):
                return None
            rows.extend(v)
        return rows

    def _table(self, fn: FuncInfo, node: ast.Subscript, table: dict, out: List[PSite]) -> None:
        key = node.slice
        try:
            kv = self._fold(fn, key)
            if kv in table:
                out.append(PSite(fn, node, "TABLE", [], discharged="constant key present"))
            else:
                out.append(PSite(fn, node, "TABLE", ["KeyError"], note=f"constant key {kv!r} missing"))
            return
        except (NotConst, TypeError):
            pass
        keys = set(table)
        # key is `<tok>.kind` with known token kinds
        kp = path_of(key)
        if kp and kp.endswith(".kind"):
            kinds = self.tokflow.kinds_at(fn, node, kp[: -len(".kind")])
            if kinds is not None:
                if set(kinds) <= keys:
                    out.append(PSite(fn, node, "TABLE", [], discharged=f"token kinds {sorted(kinds)} are keys"))
                else:
                    out.append(PSite(fn, node, "TABLE", ["KeyError"], note=f"token kinds {sorted(set(kinds) - keys)} are not keys"))
                return
        # key dominated by `k in T`
        facts = self._facts(fn, node)
        tp = path_of(node.value)
        if kp and tp and f"in:{tp}@{kp}" in facts:
            out.append(PSite(fn, node, "TABLE", [], discharged="dominated by a membership test"))
            return
        # key ranges over the characters of a token value: for flag in set(tok.value)
        if isinstance(key, ast.Name):
            src = self._loop_source(fn, key.id)
            if src is not None:
                inner = src
                if isinstance(inner, ast.Call) and isinstance(inner.func, ast.Name) and inner.func.id in ("set", "list", "sorted", "tuple") and inner.args:
                    inner = inner.args[0]
                ts = self._token_shapes(fn, self._loop_node(fn, key.id) or node, inner)
                if ts is not None:
                    shapes, why = ts
                    chars = set("".join(shapes))
                    if chars <= keys:
                        out.append(PSite(fn, node, "TABLE", [], discharged=f"characters of the token value {sorted(chars)} are keys ({why})"))
                    else:
                        out.append(PSite(fn, node, "TABLE", ["KeyError"], note=f"characters {sorted(chars - keys)} of the token value are not keys"))
                    return
        # key is a group of a match of a constant pattern, and the group can only match keys:
        # `sign = match.group("SIGN")` with `(?P<SIGN>[-+])`, looked up once `sign is not None`
        if isinstance(key, ast.Name) and (f"notnone@{key.id}" in facts or f"nonempty@{key.id}" in facts):
            lang = self._group_language(fn, key.id)
            if lang is not None:
                words, why = lang
                if words <= keys:
                    out.append(PSite(fn, node, "TABLE", [], discharged=f"the key is {why}, which matches only {sorted(words)}: all keys"))
                else:
                    out.append(PSite(fn, node, "TABLE", ["KeyError"], note=f"{why} can match {sorted(words - keys)}, which are not keys"))
                return
        # key is `M.group("G")` itself: G has a small finite language inside the keys, and G took part in the match -
        # it is a mandatory part of the pattern, or of a group H that a dominating `if M.group("H"):` found matched
        if (isinstance(key, ast.Call) and isinstance(key.func, ast.Attribute) and key.func.attr == "group" and len(key.args) == 1 and not key.keywords
                and isinstance(key.args[0], ast.Constant) and isinstance(key.args[0].value, str) and isinstance(key.func.value, ast.Name)):
            got = self._direct_group(fn, key.func.value.id, key.args[0].value, facts)
            if got is not None:
                words, why = got
                if words <= keys:
                    out.append(PSite(fn, node, "TABLE", [], discharged=f"the key is {why}, which matches only {sorted(words)}: all keys"))
                else:
                    out.append(PSite(fn, node, "TABLE", ["KeyError"], note=f"{why} can match {sorted(words - keys)}, which are not keys"))
                return
        out.append(PSite(fn, node, "TABLE", ["KeyError"], note="key not shown to be present"))

    def _direct_group(self, fn: FuncInfo, mname: str, group: str, facts: FrozenSet[str]) -> Optional[Tuple[Set[str], str]]:
        from . import regexast
        from .consteval import RegexConst

        m = self._single_def(fn, mname)
        if not (isinstance(m, ast.Call) and isinstance(m.func, ast.Attribute) and m.func.attr in ("match", "fullmatch", "search")):
            return None
        try:
            pat = self._fold_any(fn, m.func.value)
        except NotConst:
            return None
        if not isinstance(pat, RegexConst) or pat.flags & re.IGNORECASE:
            return None
        try:
            tree = regexast.parse(pat.pattern, pat.flags)
            gid = regexast.group_index(tree, group)
            seq = regexast.named_group(pat.pattern, group, pat.flags)
        except AnalysisError:
            return None
        if gid is None:
            return None
        words = regexast.finite_language(seq)
        if words is None:
            return None
        took_part = gid in regexast.mandatory_groups(tree)
        if not took_part:
            for f in facts:
                if f.startswith(f"group:{mname}:"):
                    try:
                        outer = regexast.named_group(pat.pattern, f.split(":", 2)[2], pat.flags)
                    except AnalysisError:
                        continue
                    if gid in regexast.mandatory_groups(outer):
                        took_part = True
                        break
        if not took_part:
            return None
        return set(words), f"group {group!r} of {ast.unparse(m.func.value)}"

    def _fold_any(self, fn: FuncInfo, e: ast.expr):  # type: ignore[no-untyped-def]
        scope_locals = {}
        if fn.cls is not None:
            scope_locals["self"] = Instance(fn.cls)
        return self.folder.eval(e, Scope(self.folder, fn.module, fn.cls, scope_locals))

    def _single_def(self, fn: FuncInfo, name: str) -> Optional[ast.expr]:
        stores = [n for n in ast.walk(fn.node) if isinstance(n, ast.Name) and n.id == name and isinstance(n.ctx, (ast.Store, ast.Del))]
        if len(stores) != 1 or name in {a.arg for a in ast.walk(fn.node) if isinstance(a, ast.arg)}:
            return None
        for n in ast.walk(fn.node):
            if isinstance(n, ast.Assign) and len(n.targets) == 1 and n.targets[0] is stores[0]:
                return n.value
            if isinstance(n, ast.AnnAssign) and n.target is stores[0]:
                return n.value
        return None

    def _group_language(self, fn: FuncInfo, name: str) -> Optional[Tuple[Set[str], str]]:
        """`name = M.group("G")`, `M = P.match(...)`, P a constant pattern whose group G has a small finite language."""
        from . import regexast
        from .consteval import RegexConst

        d = self._single_def(fn, name)
        if not (isinstance(d, ast.Call) and isinstance(d.func, ast.Attribute) and d.func.attr == "group" and len(d.args) == 1 and not d.keywords
                and isinstance(d.args[0], ast.Constant) and isinstance(d.args[0].value, str) and isinstance(d.func.value, ast.Name)):
            return None
        m = self._single_def(fn, d.func.value.id)
        if not (isinstance(m, ast.Call) and isinstance(m.func, ast.Attribute) and m.func.attr in ("match", "fullmatch", "search")):
            return None
        try:
            pat = self._fold(fn, m.func.value)
        except NotConst:
            return None
        if not isinstance(pat, RegexConst):
            return None
        try:
            seq = regexast.named_group(pat.pattern, d.args[0].value, pat.flags)
        except AnalysisError:
            return None
        if pat.flags & re.IGNORECASE:
            return None
        words = regexast.finite_language(seq)
        if words is None:
            return None
        return set(words), f"group {d.args[0].value!r} of {ast.unparse(m.func.value)}"

    def _loop_node(self, fn: FuncInfo, var: str) -> Optional[ast.AST]:
        for n in ast.walk(fn.node):
            if isinstance(n, (ast.For, ast.AsyncFor)) and isinstance(n.target, ast.Name) and n.target.id == var:
                return n.iter
        return None

    def _loop_source(self, fn: FuncInfo, var: str) -> Optional[ast.expr]:
        for n in ast.walk(fn.node):
            if isinstance(n, (ast.For, ast.AsyncFor)) and isinstance(n.target, ast.Name) and n.target.id == var:
                return n.iter
        return None
