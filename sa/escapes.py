"""Exception-escape (effect) analysis over the resolved call graph.

For every function the set of exception classes that may leave it:
explicit `raise`, re-raises, callees' sets (fixpoint), plus *implicit* raises
supplied by the partial-operation table (see rules/c06.py), minus what the
enclosing `try`/`except` and `with suppress(...)` catch, using the class
hierarchy (repo classes with multiple inheritance included).

Generator bodies are attributed to the function that creates the generator: the
package iterates its generators either immediately (`tuple(selectors)`) or
hands them to the caller of the public entry point, for whom the entry point is
the observable origin of the exception.
"""

from __future__ import annotations

import ast
from dataclasses import dataclass
from typing import Callable
from typing import Dict
from typing import Iterable
from typing import List
from typing import Optional
from typing import Set
from typing import Tuple

from .callgraph import CallGraph
from .consteval import Folder
from .loader import AnalysisError
from .loader import FuncInfo
from .loader import Repo
from .loader import short


@dataclass(frozen=True)
class Origin:
    func: str  # qualname where the exception originates
    file: str
    line: int
    what: str  # construct text
    via: Tuple[str, ...] = ()  # call chain from the function whose set this is in

    def text(self) -> str:
        chain = " -> ".join(q.split(".", 1)[-1] for q in self.via + (self.func,))
        return f"{self.file}:{self.line} `{self.what}` via {chain}"


ImplicitFn = Callable[[FuncInfo], List[Tuple[ast.AST, List[str], str]]]


class _Frame:
    """One enclosing try/suppress: handler classes in order + arrivals."""

    def __init__(self, types: List[List[str]]) -> None:
        self.types = types  # per handler: list of class names ([] = bare except)
        self.arrivals: List[Dict[str, Dict[str, Origin]]] = [dict() for _ in types]


class EscapeAnalysis:
    def __init__(
        self,
        repo: Repo,
        cg: CallGraph,
        folder: Folder,
        implicit: Optional[ImplicitFn] = None,
    ) -> None:
        self.repo = repo
        self.cg = cg
        self.folder = folder
        self.implicit = implicit
        # function -> exception class -> {origin key -> Origin} (several origins per
        # class are kept so that each offending construct is reported)
        self.raises: Dict[str, Dict[str, Dict[str, Origin]]] = {q: {} for q in repo.functions}
        self._implicit_cache: Dict[str, List[Tuple[ast.AST, List[str], str]]] = {}
        self.handler_facts: List[Dict[str, object]] = []
        self._solve()

    # ------------------------------------------------------------ hierarchy
    def exc_name(self, fn: FuncInfo, e: ast.expr) -> Optional[str]:
        """Resolve an expression naming an exception class to a class name."""
        if isinstance(e, ast.Call):
            e = e.func
        d = self.repo.dotted(e)
        if d is None:
            return None
        kind, val = self.repo.resolve_global(fn.module, d)
        if kind == "class":
            return val.qualname  # type: ignore[union-attr]
        if kind == "ext":
            name = str(val)
            if name in ("json.JSONDecodeError", "json.decoder.JSONDecodeError"):
                return "json.JSONDecodeError"
            if name in ("re.error", "re.PatternError"):
                return "re.error"
            return name.split(".")[-1]
        return None

    def catches(self, handler: str, exc: str) -> bool:
        if handler in ("BaseException",):
            return True
        return handler in self.repo.mro(exc) or self.repo.is_subclass(exc, handler)

    # ---------------------------------------------------------------- solve
    def _solve(self) -> None:
        funcs = [f for f in self.repo.functions.values()]
        for _round in range(30):
            changed = False
            for fn in funcs:
                new = self._function(fn)
                old = self.raises[fn.qualname]
                # monotone accumulation (the per-class cap makes plain replacement
                # order dependent)
                for c, d in new.items():
                    tgt = old.setdefault(c, {})
                    for k, o in d.items():
                        if k not in tgt and len(tgt) < self.MAX_ORIGINS:
                            tgt[k] = o
                            changed = True
            if not changed:
                break
        else:
            raise AnalysisError("escape analysis did not reach a fixpoint")

    def _implicit_sites(self, fn: FuncInfo) -> List[Tuple[ast.AST, List[str], str]]:
        if self.implicit is None:
            return []
        if fn.qualname not in self._implicit_cache:
            self._implicit_cache[fn.qualname] = self.implicit(fn)
        return self._implicit_cache[fn.qualname]

    def _function(self, fn: FuncInfo) -> Dict[str, Dict[str, Origin]]:
        out: Dict[str, Dict[str, Origin]] = {}
        implicit_by_node: Dict[int, List[Tuple[List[str], str]]] = {}
        for node, classes, label in self._implicit_sites(fn):
            implicit_by_node.setdefault(id(node), []).append((classes, label))
        self._walk_block(fn, fn.node.body, [], out, implicit_by_node, None)
        return out

    # ------------------------------------------------------------ emission
    MAX_ORIGINS = 16

    @staticmethod
    def _okey(o: Origin) -> str:
        return f"{o.func}|{o.what}"

    def _put(self, table: Dict[str, Dict[str, Origin]], exc: str, origin: Origin) -> None:
        d = table.setdefault(exc, {})
        k = self._okey(origin)
        if k not in d and len(d) < self.MAX_ORIGINS:
            d[k] = origin

    def _emit(self, exc: str, origin: Origin, stack: List[_Frame], out: Dict[str, Dict[str, Origin]]) -> None:
        for frame in reversed(stack):
            for i, types in enumerate(frame.types):
                if not types or any(self.catches(t, exc) for t in types):
                    self._put(frame.arrivals[i], exc, origin)
                    return
        self._put(out, exc, origin)

    def _origin(self, fn: FuncInfo, node: ast.AST, what: Optional[str] = None) -> Origin:
        return Origin(fn.qualname, fn.relpath, getattr(node, "lineno", fn.lineno), what or short(node, 80))

    # ---------------------------------------------------------------- walk
    def _walk_block(
        self,
        fn: FuncInfo,
        stmts: List[ast.stmt],
        stack: List[_Frame],
        out: Dict[str, Dict[str, Origin]],
        implicit: Dict[int, List[Tuple[List[str], str]]],
        caught: Optional[Tuple[Optional[str], Dict[str, Dict[str, Origin]]]],
    ) -> None:
        for s in stmts:
            self._walk_stmt(fn, s, stack, out, implicit, caught)

    def _handler_types(self, fn: FuncInfo, h: ast.ExceptHandler) -> List[str]:
        if h.type is None:
            return []
        elts = h.type.elts if isinstance(h.type, ast.Tuple) else [h.type]
        names = []
        for e in elts:
            n = None if isinstance(e, ast.Call) else self.exc_name(fn, e)
            if n is None:
                # a module-level constant naming a tuple of classes: `except _OP_ERRORS:`
                more = self._constant_classes(fn, e)
                if more is None:
                    more = self._folded_classes(fn, e)
                if more is None:
                    raise AnalysisError(f"cannot resolve handler class `{short(e)}` in {fn.qualname}")
                names.extend(more)
                continue
            names.append(n)
        return names

    def _folded_classes(self, fn: FuncInfo, e: ast.expr) -> Optional[List[str]]:
        """Handler classes computed from a constant table: `except tuple(k for k, _ in _TABLE)`."""
        from .consteval import ClassRef
        from .consteval import ExtRef
        from .consteval import NotConst

        try:
            v = self.folder.eval_in(e, fn.module, fn.cls)
        except NotConst:
            return None
        items = list(v) if isinstance(v, (tuple, list)) else [v]
        out: List[str] = []
        for x in items:
            if isinstance(x, ClassRef):
                out.append(x.cls.qualname)
            elif isinstance(x, ExtRef):
                name = str(x.name)
                out.append({"json.JSONDecodeError": "json.JSONDecodeError", "json.decoder.JSONDecodeError": "json.JSONDecodeError",
                            "re.error": "re.error"}.get(name, name.split(".")[-1]))
            else:
                return None
        return out or None

    def _constant_classes(self, fn: FuncInfo, e: ast.expr, depth: int = 0) -> Optional[List[str]]:
        if depth > 3 or not isinstance(e, ast.Name):
            return None
        value = fn.module.assigns.get(e.id)
        if value is None and fn.cls is not None:
            value = fn.cls.assigns.get(e.id)
        if value is None or not isinstance(value, (ast.Tuple, ast.Name, ast.Attribute)):
            return None  # a computed value: the folder is asked
        out: List[str] = []
        for x in (value.elts if isinstance(value, ast.Tuple) else [value]):
            n = self.exc_name(fn, x)
            if n is None:
                sub = self._constant_classes(fn, x, depth + 1)
                if sub is None:
                    return None
                out.extend(sub)
            else:
                out.append(n)
        return out

    def _walk_stmt(  # noqa: PLR0912
        self,
        fn: FuncInfo,
        s: ast.stmt,
        stack: List[_Frame],
        out: Dict[str, Dict[str, Origin]],
        implicit: Dict[int, List[Tuple[List[str], str]]],
        caught: Optional[Tuple[Optional[str], Dict[str, Dict[str, Origin]]]],
    ) -> None:
        if isinstance(s, (ast.FunctionDef, ast.AsyncFunctionDef, ast.ClassDef)):
            return
        if isinstance(s, ast.Try):
            frame = _Frame([self._handler_types(fn, h) for h in s.handlers])
            self._walk_block(fn, s.body, stack + [frame], out, implicit, caught)
            self._walk_block(fn, s.orelse, stack, out, implicit, caught)
            for i, h in enumerate(s.handlers):
                self._walk_block(fn, h.body, stack, out, implicit, (h.name, frame.arrivals[i]))
            self._walk_block(fn, s.finalbody, stack, out, implicit, caught)
            return
        if isinstance(s, (ast.With, ast.AsyncWith)):
            sup: List[str] = []
            for item in s.items:
                c = item.context_expr
                if isinstance(c, ast.Call):
                    f = c.func
                    name = f.id if isinstance(f, ast.Name) else getattr(f, "attr", "")
                    if name == "suppress":
                        for a in c.args:
                            n = self.exc_name(fn, a)
                            if n is None:
                                raise AnalysisError(f"cannot resolve suppress() class in {fn.qualname}")
                            sup.append(n)
                self._exprs(fn, c, stack, out, implicit)
            if sup:
                frame = _Frame([sup])
                self._walk_block(fn, s.body, stack + [frame], out, implicit, caught)
            else:
                self._walk_block(fn, s.body, stack, out, implicit, caught)
            return
        if isinstance(s, ast.Raise):
            if s.exc is None:
                if caught is None:
                    raise AnalysisError(f"bare raise outside handler in {fn.qualname}")
                for exc, orgs in caught[1].items():
                    for org in orgs.values():
                        self._emit(exc, org, stack, out)
                return
            self._exprs(fn, s.exc, stack, out, implicit)
            if s.cause is not None:
                self._exprs(fn, s.cause, stack, out, implicit)
            if isinstance(s.exc, ast.Name) and caught is not None and s.exc.id == caught[0]:
                for exc, orgs in caught[1].items():
                    for org in orgs.values():
                        self._emit(exc, org, stack, out)
                return
            name = self.exc_name(fn, s.exc)
            if name is None:
                raise AnalysisError(f"cannot resolve raised class `{short(s.exc)}` in {fn.qualname}")
            self._emit(name, self._origin(fn, s, "raise " + short(s.exc, 70)), stack, out)
            return
        # compound statements: expressions in the header, then blocks
        for field_name, value in ast.iter_fields(s):
            if isinstance(value, list) and value and isinstance(value[0], ast.stmt):
                self._walk_block(fn, value, stack, out, implicit, caught)
            elif isinstance(value, list):
                for v in value:
                    if isinstance(v, ast.AST):
                        self._exprs(fn, v, stack, out, implicit)
            elif isinstance(value, ast.AST):
                self._exprs(fn, value, stack, out, implicit)

    def _exprs(
        self,
        fn: FuncInfo,
        node: ast.AST,
        stack: List[_Frame],
        out: Dict[str, Dict[str, Origin]],
        implicit: Dict[int, List[Tuple[List[str], str]]],
    ) -> None:
        for sub in ast.walk(node):
            if isinstance(sub, (ast.FunctionDef, ast.AsyncFunctionDef)):
                continue
            site = self.cg.by_node.get(id(sub))
            if site is not None and site.kind in ("call", "prop", "dunder"):
                for callee in site.callees:
                    for exc, orgs in self.raises.get(callee.qualname, {}).items():
                        for org in orgs.values():
                            via = (fn.qualname,) + org.via if org.func != fn.qualname else org.via
                            self._emit(
                                exc,
                                Origin(org.func, org.file, org.line, org.what, via[:8]),
                                stack,
                                out,
                            )
            elif site is not None and site.kind == "ref":
                # a function reference handed to someone who calls it (reduce,
                # filter, partial...): treated as called here
                for callee in site.callees:
                    for exc, orgs in self.raises.get(callee.qualname, {}).items():
                        for org in orgs.values():
                            self._emit(exc, Origin(org.func, org.file, org.line, org.what,
                                                   ((fn.qualname,) + org.via)[:8]), stack, out)
            for classes, label in implicit.get(id(sub), []):
                for c in classes:
                    self._emit(c, self._origin(fn, sub, f"{label}: {short(sub, 60)}"), stack, out)
            # nested lambdas/comprehensions are walked by ast.walk itself

    # ---------------------------------------------------------------- query
    def function_escapes(self, fn: FuncInfo) -> Dict[str, Origin]:
        """class -> one representative origin."""
        return {c: next(iter(d.values())) for c, d in self.raises.get(fn.qualname, {}).items() if d}

    def function_escapes_all(self, fn: FuncInfo) -> Dict[str, List[Origin]]:
        return {c: list(d.values()) for c, d in self.raises.get(fn.qualname, {}).items() if d}

    def block_escapes(self, fn: FuncInfo, stmts: List[ast.stmt]) -> Set[str]:
        out: Dict[str, Dict[str, Origin]] = {}
        implicit_by_node: Dict[int, List[Tuple[List[str], str]]] = {}
        for node, classes, label in self._implicit_sites(fn):
            implicit_by_node.setdefault(id(node), []).append((classes, label))
        self._walk_block(fn, stmts, [], out, implicit_by_node, ("", {}))
        return set(out)

    def expr_escapes(self, fn: FuncInfo, node: ast.AST) -> Dict[str, Origin]:
        out: Dict[str, Dict[str, Origin]] = {}
        implicit_by_node: Dict[int, List[Tuple[List[str], str]]] = {}
        for n, classes, label in self._implicit_sites(fn):
            implicit_by_node.setdefault(id(n), []).append((classes, label))
        self._exprs(fn, node, [], out, implicit_by_node)
        return {c: next(iter(d.values())) for c, d in out.items() if d}
