"""Canonical form of function bodies.

Every rule of this checker reads the *canonical* syntax tree of a function, not the tree as
written.  The canonicaliser rewrites a body into one normal form among the spellings that a
behaviour-preserving refactoring moves between, so that such a refactoring does not change what
the rules see:

  E1  string building     `a + "x" + str(b) + repr(c)`  ->  f"{a}x{b}{c!r}"   (one JoinedStr)
  E2  tuple extension     `(*a, x)`                      ->  `a + (x,)`
  E3  tests in NNF        `not (a and b)` -> `not a or not b`, `not a == b` -> `a != b`,
                          `not a < b` -> `a >= b`, `lo <= x <= hi` -> `lo <= x and x <= hi`
  E6  operator helpers    `operator.attrgetter("a")(x)` -> `x.a`, `methodcaller("m")(x)` -> `x.m()`, `itemgetter(k)(x)` -> `x[k]`
  E9  map                 `map(f, it)` -> `(f(x) for x in it)` ; nested generator expressions are fused
  E4  boolean `if` exprs  `a if c else False` -> `c and a`, `True if c else b` -> `c or b`   (a, b, c boolean)
  S1  else hoisting       `if c: A(jumps) else: B`       ->  `if c: A` ; B
                          `if c: A else: B(jumps)`       ->  `if not c: B` ; A
  S2  orientation         `if not c: A else: B`          ->  `if c: B else: A`
  S3  nested ifs          `if a: (if b: S)`              ->  `if a and b: S`
  S4  tail guard          last statement of a loop / function body `if c: S`
                                                         ->  `if not c: continue/return` ; S
  S4b tail if/else        last statement `if a: A else: B`  ->  `if a: A ; continue/return` ; B
  S5  guard splitting     `if a or b: J` (J jumps)       ->  `if a: J` ; `if b: J`
  S6  conditional value   `if c: x = a else: x = b` -> `x = a if c else b` ; `return a if c else b` -> guard + return
                          `x = a` ; `if c(x): x = b(x)`  ->  `x1 = a` ; `if c(x1): x = b(x1) else: x = x1`
  S17 equal branches      `if a: X elif b: Y else: X`    ->  `if not a and b: Y else: X`
  S7  accumulation loops  `v = []` ; `for x in it: [if c:] v.append(e)`  ->  `v = [e for x in it if c]`
                          (also dict / set forms, `async for`)
  S8  any / all           `return any(c for x in it)` -> `for x in it: if c: return True` ; `return False`
                          `if any(c for x in it): J`  -> `for x in it: if c: J`     (all: dually)
                          `if c: return True` ; `return False` -> `return c`  (c syntactically boolean)
  S9  let inlining        a local assigned once and read once, in the head of the next statement, is
                          replaced by its value; a local assigned once from a pure attribute path
                          whose attributes are never re-assigned outside constructors is replaced
                          everywhere
  S10 try/else            `try: A except: H(jumps) else: B` -> `try: A except: H` ; B
  S11 reduce              `acc = functools.reduce(f, it, init)` -> `acc = init` ; `for t in it: acc = f(acc, t)`   (f a name, path or lambda)
  S13 rebinding           `x = a` ; `x = f(x)` ; `use(x)`  ->  `x1 = a` ; `x = f(x1)` ; `use(x)`  (then S9 applies)
  S14 boolean returns     `return a and b`  ->  `if not a: return False` ; `return b`   (a syntactically boolean; `or` dually)
  S15 tuple assignment    `a, b = x, y`  ->  `a = x` ; `b = y`
  S16 return in try       `try: return e except: H(jumps)`  ->  `try: r = e except: H` ; `return r`
  S18 conditional rebind  `if c: x = e(x)` ; rest(x)  ->  `x1 = e(x) if c else x` ; rest(x1)   (function level only)
  S19 jumping branches    `if c: A(jumps)` ; B(jumps)  ->  the shorter of A, B is the guard (`sys.exit()` counts as a jump)
  S13b scopes             a local assigned in several blocks, each use following its own assignment: one name per assignment
  S21 match               `match x: case "a": A case B(): C case _: D`  ->  `if x == "a": A elif isinstance(x, B): C else: D`
  S22 walrus              `if (m := f(x)) is not None: ...`  ->  `m = f(x)` ; `if m is not None: ...`
  S23 conditional loops   `for x in (A if c else B): S`  ->  `if c: for x in A: S else: for x in B: S` ; `for x in (): S` -> nothing
  S24 generator loops     `for x in (E(c) for c in it): S`  ->  `for c in it: x = E(c) ; S`
  S25 decided tests       inside `if isinstance(x, T):` a nested test `isinstance(x, T)` is true (false in the `else`), x not re-bound
  S26 flag variables      `if c: A; flag = True else: B; flag = False` ; REST(flag)  ->  REST moves into both branches
  S28 star calls          `a, b, c = E` ; `f(a, b, c)`  ->  `f(*E)`   (a, b, c used nowhere else)
  S30 while               `while c: B`  ->  `while True: if not c: break ; B`
  S31 result variables    `if c: A ; x = e` ; `return x`  ->  `if c: A ; return e` ; `return x`
  S32 loop unpacking      `for x in it: a, b = x ; S`  ->  `for a, b in it: S`
  S35 delegation          `yield from E`  ->  `for v in E: yield v`
  S36 local lambdas       `f = lambda a: E` ; `f(x)`  ->  `E[a := x]`   (f only ever called)
  S12 literal loops       `for x in (a, b): S(x)`  ->  `S(a)` ; `S(b)`   (at most four simple elements, no
                          `break`, `continue` only as leading guards, x not used afterwards)

All rewrites preserve behaviour up to the evaluation order of side-effect-free expressions (S9 never
moves a value past a call or an `await`) and, for `not a < b`, up to NaN, which no rule depends on.  New nodes carry the position of the node they
replace, so reports still point at the right line.
"""

from __future__ import annotations

import ast
import copy
import os
from typing import Dict
from typing import Iterable
from typing import List
from typing import Optional
from typing import Sequence
from typing import Set
from typing import Tuple

FuncNode = (ast.FunctionDef, ast.AsyncFunctionDef)
ENABLED = not os.environ.get("VERIF_NO_CANON")
# filled by the loader: attribute names assigned outside constructors anywhere in the package
DEFAULT_MUTABLE_ATTRS: Set[str] = set()
JUMPS = (ast.Return, ast.Raise, ast.Continue, ast.Break)


def _loc(new: ast.AST, old: ast.AST) -> ast.AST:
    ast.copy_location(new, old)
    ast.fix_missing_locations(new)
    return new


def jumps(body: Sequence[ast.stmt]) -> bool:
    if not body:
        return False
    last = body[-1]
    if isinstance(last, JUMPS):
        return True
    if isinstance(last, ast.Expr) and isinstance(last.value, ast.Call) and ast.unparse(last.value.func) in ("sys.exit", "exit", "os._exit"):
        return True  # never returns
    if isinstance(last, ast.If) and last.orelse:
        return jumps(last.body) and jumps(last.orelse)
    return False


def is_bool_expr(e: ast.expr) -> bool:
    if isinstance(e, ast.Compare):
        return True
    if isinstance(e, ast.UnaryOp) and isinstance(e.op, ast.Not):
        return True
    if isinstance(e, ast.BoolOp):
        return all(is_bool_expr(v) for v in e.values)
    if isinstance(e, ast.Constant) and isinstance(e.value, bool):
        return True
    if isinstance(e, ast.Call) and isinstance(e.func, ast.Name) and e.func.id in (
        "isinstance", "issubclass", "any", "all", "bool", "callable", "hasattr",
    ):
        return True
    return False


# --------------------------------------------------------------------------- expressions

_NEG = {
    ast.Eq: ast.NotEq, ast.NotEq: ast.Eq, ast.Is: ast.IsNot, ast.IsNot: ast.Is,
    ast.In: ast.NotIn, ast.NotIn: ast.In, ast.Lt: ast.GtE, ast.GtE: ast.Lt,
    ast.Gt: ast.LtE, ast.LtE: ast.Gt,
}


def _simple(e: ast.expr) -> bool:
    while isinstance(e, ast.Attribute):
        e = e.value
    return isinstance(e, (ast.Name, ast.Constant))


def negate(e: ast.expr) -> ast.expr:
    """The negation of a test, in negation normal form."""
    if isinstance(e, ast.UnaryOp) and isinstance(e.op, ast.Not):
        return nnf(e.operand)
    if isinstance(e, ast.BoolOp):
        op = ast.Or() if isinstance(e.op, ast.And) else ast.And()
        return _loc(ast.BoolOp(op=op, values=[negate(v) for v in e.values]), e)
    if isinstance(e, ast.Compare) and len(e.ops) == 1:
        return _loc(ast.Compare(left=e.left, ops=[_NEG[type(e.ops[0])]()], comparators=e.comparators), e)
    if isinstance(e, ast.Compare):
        ex = _expand_chain(e)
        if ex is not e:
            return negate(ex)
    if isinstance(e, ast.Constant) and isinstance(e.value, bool):
        return _loc(ast.Constant(value=not e.value), e)
    return _loc(ast.UnaryOp(op=ast.Not(), operand=e), e)


def _expand_chain(e: ast.Compare) -> ast.expr:
    if len(e.ops) < 2 or not all(_simple(c) for c in e.comparators[:-1]):
        return e
    parts = []
    left = e.left
    for op, right in zip(e.ops, e.comparators):
        parts.append(_loc(ast.Compare(left=copy.deepcopy(left), ops=[op], comparators=[right]), e))
        left = right
    return _loc(ast.BoolOp(op=ast.And(), values=parts), e)


def nnf(e: ast.expr) -> ast.expr:
    if isinstance(e, ast.UnaryOp) and isinstance(e.op, ast.Not):
        return negate(e.operand)
    if isinstance(e, ast.BoolOp):
        vals: List[ast.expr] = []
        for v in e.values:
            v = nnf(v)
            if isinstance(v, ast.BoolOp) and type(v.op) is type(e.op):
                vals.extend(v.values)
            else:
                vals.append(v)
        return _loc(ast.BoolOp(op=e.op, values=vals), e)
    if isinstance(e, ast.Compare) and len(e.ops) > 1:
        ex = _expand_chain(e)
        if ex is not e:
            return nnf(ex)
    return e


def _str_parts(e: ast.expr, top: bool = True) -> Optional[List[ast.expr]]:
    """Parts of a string-building expression, or None if `e` is not evidently one."""
    if isinstance(e, ast.Constant) and isinstance(e.value, str):
        return [e]
    if isinstance(e, ast.JoinedStr):
        out: List[ast.expr] = []
        for v in e.values:
            if isinstance(v, ast.FormattedValue) and v.format_spec is None:
                inner = v.value
                if v.conversion == -1 and isinstance(inner, ast.Call) and isinstance(inner.func, ast.Name) and len(
                    inner.args) == 1 and not inner.keywords and inner.func.id in ("str", "repr"):
                    conv = 114 if inner.func.id == "repr" else -1
                    out.append(_loc(ast.FormattedValue(value=inner.args[0], conversion=conv, format_spec=None), v))
                    continue
                if v.conversion == -1:
                    sub = _str_parts(inner, top=False)
                    if sub is not None and (isinstance(inner, (ast.JoinedStr, ast.BinOp))):
                        out.extend(sub)
                        continue
            out.append(v)
        return out
    if isinstance(e, ast.BinOp) and isinstance(e.op, ast.Add):
        lp = _str_parts(e.left, top=False)
        rp = _str_parts(e.right, top=False)
        if lp is None and rp is None:
            return None
        if lp is None:
            lp = [_fv(e.left)]
        if rp is None:
            rp = [_fv(e.right)]
        return lp + rp
    return None


def _fv(e: ast.expr) -> ast.expr:
    if isinstance(e, ast.Call) and isinstance(e.func, ast.Name) and len(e.args) == 1 and not e.keywords:
        if e.func.id == "str":
            return _loc(ast.FormattedValue(value=e.args[0], conversion=-1, format_spec=None), e)
        if e.func.id == "repr":
            return _loc(ast.FormattedValue(value=e.args[0], conversion=114, format_spec=None), e)
    return _loc(ast.FormattedValue(value=e, conversion=-1, format_spec=None), e)


def _joined(parts: List[ast.expr], at: ast.expr) -> ast.expr:
    merged: List[ast.expr] = []
    for p in parts:
        if isinstance(p, ast.Constant) and merged and isinstance(merged[-1], ast.Constant):
            merged[-1] = _loc(ast.Constant(value=merged[-1].value + p.value), merged[-1])
        elif isinstance(p, ast.Constant) and p.value == "":
            continue
        else:
            merged.append(p)
    if len(merged) == 1 and isinstance(merged[0], ast.Constant):
        return _loc(ast.Constant(value=merged[0].value), at)
    if not merged:
        return _loc(ast.Constant(value=""), at)
    return _loc(ast.JoinedStr(values=merged), at)


class _Expr(ast.NodeTransformer):
    """E1-E3, bottom-up."""

    def __init__(self, tables: Optional[Dict[str, ast.Dict]] = None, local_names: Optional[Set[str]] = None) -> None:
        self.changed = False
        self.tables = tables or {}
        self.local_names = local_names or set()

    @staticmethod
    def _pure_entry(v: ast.expr) -> bool:
        """A table entry that can be written where it is looked up: a constant, a name, or a getter built from constants."""
        if isinstance(v, ast.Constant) or _simple(v):
            return True
        if isinstance(v, ast.Call) and not v.keywords and all(isinstance(a, ast.Constant) for a in v.args):
            f = v.func
            nm = f.attr if isinstance(f, ast.Attribute) and isinstance(f.value, ast.Name) and f.value.id == "operator" else (f.id if isinstance(f, ast.Name) else None)
            return nm in ("attrgetter", "itemgetter", "methodcaller")
        return False

    def visit_Subscript(self, node: ast.Subscript) -> ast.AST:
        self.generic_visit(node)
        # E13 `TABLE["key"]` with a literal key of a module-level table that nothing writes to is the entry
        if (isinstance(node.ctx, ast.Load) and isinstance(node.value, ast.Name) and node.value.id in self.tables and node.value.id not in self.local_names
                and isinstance(node.slice, ast.Constant)):
            t = self.tables[node.value.id]
            for k_, v_ in zip(t.keys, t.values):
                if isinstance(k_, ast.Constant) and type(k_.value) is type(node.slice.value) and k_.value == node.slice.value and self._pure_entry(v_):
                    self.changed = True
                    return _loc(copy.deepcopy(v_), node)
        return node

    def visit_BinOp(self, node: ast.BinOp) -> ast.AST:
        if isinstance(node.op, ast.Add):
            parts = _str_parts(node)
            if parts is not None:
                self.changed = True
                new = _joined(parts, node)
                return self.generic_visit(new) if isinstance(new, ast.JoinedStr) else new
        self.generic_visit(node)
        return node

    def visit_JoinedStr(self, node: ast.JoinedStr) -> ast.AST:
        parts = _str_parts(node)
        assert parts is not None
        new = _joined(parts, node)
        if ast.dump(new) != ast.dump(node):
            self.changed = True
        if isinstance(new, ast.JoinedStr):
            for v in new.values:
                if isinstance(v, ast.FormattedValue):
                    v.value = self.visit(v.value)
        return new

    _OPERATOR_BIN = {"truediv": ast.Div, "floordiv": ast.FloorDiv, "add": ast.Add, "sub": ast.Sub, "mul": ast.Mult, "mod": ast.Mod,
                     "or_": ast.BitOr, "and_": ast.BitAnd, "xor": ast.BitXor}
    _OPERATOR_CMP = {"eq": ast.Eq, "ne": ast.NotEq, "lt": ast.Lt, "le": ast.LtE, "gt": ast.Gt, "ge": ast.GtE, "is_": ast.Is, "is_not": ast.IsNot}

    def visit_Call(self, node: ast.Call) -> ast.AST:
        self.generic_visit(node)
        # E14 `f(*(a, b))` is `f(a, b)`
        if any(isinstance(a, ast.Starred) and isinstance(a.value, (ast.Tuple, ast.List)) and not any(isinstance(y, ast.Starred) for y in a.value.elts)
               for a in node.args):
            flat: List[ast.expr] = []
            for a in node.args:
                if isinstance(a, ast.Starred) and isinstance(a.value, (ast.Tuple, ast.List)) and not any(isinstance(y, ast.Starred) for y in a.value.elts):
                    flat.extend(a.value.elts)
                else:
                    flat.append(a)
            node.args = flat
            self.changed = True
        # E15 `x.__getitem__(k)` is `x[k]`
        if isinstance(node.func, ast.Attribute) and node.func.attr == "__getitem__" and len(node.args) == 1 and not node.keywords \
                and not isinstance(node.args[0], ast.Starred):
            self.changed = True
            return _loc(ast.Subscript(value=node.func.value, slice=node.args[0], ctx=ast.Load()), node)
        # E9 `map(f, it)` is `(f(x) for x in it)`
        # E16 `partial(F, a, k=b)(x)` is `F(a, x, k=b)`
        pf = node.func
        if (isinstance(pf, ast.Call) and isinstance(pf.func, (ast.Name, ast.Attribute)) and (getattr(pf.func, "id", None) == "partial" or (
                getattr(pf.func, "attr", None) == "partial" and isinstance(pf.func.value, ast.Name) and pf.func.value.id == "functools"))
                and pf.args and _simple(pf.args[0]) and all(_simple(a) for a in pf.args[1:]) and all(k.arg and _simple(k.value) for k in pf.keywords)
                and not any(isinstance(a, ast.Starred) for a in node.args) and all(k.arg for k in node.keywords)
                and not ({k.arg for k in pf.keywords} & {k.arg for k in node.keywords})):
            self.changed = True
            return self.visit(_loc(ast.Call(func=pf.args[0], args=list(pf.args[1:]) + list(node.args), keywords=list(pf.keywords) + list(node.keywords)), node))
        def _partial_of_simple(f_: ast.expr) -> bool:
            return (isinstance(f_, ast.Call) and isinstance(f_.func, (ast.Name, ast.Attribute)) and (getattr(f_.func, "id", None) == "partial" or getattr(f_.func, "attr", None) == "partial")
                    and bool(f_.args) and all(_simple(a) for a in f_.args) and all(k.arg and _simple(k.value) for k in f_.keywords))
        if isinstance(node.func, ast.Name) and node.func.id == "map" and len(node.args) == 2 and not node.keywords and (
            _simple(node.args[0]) or isinstance(node.args[0], ast.Lambda) or _partial_of_simple(node.args[0])
        ):
            f0, it0 = node.args
            used = {n.id for n in ast.walk(node) if isinstance(n, ast.Name)}
            k = 1
            while f"_m{k if k > 1 else ''}" in used:
                k += 1
            var = f"_m{k if k > 1 else ''}"
            if isinstance(f0, ast.Lambda):
                la = f0.args
                if la.vararg or la.kwarg or la.kwonlyargs or la.defaults or la.posonlyargs or len(la.args) != 1:
                    return node
                elt: ast.expr = _Subst(la.args[0].arg, ast.Name(id=var, ctx=ast.Load())).visit(copy.deepcopy(f0.body))
            else:
                elt = ast.Call(func=f0, args=[ast.Name(id=var, ctx=ast.Load())], keywords=[])
            self.changed = True
            gen = ast.GeneratorExp(elt=elt, generators=[ast.comprehension(target=ast.Name(id=var, ctx=ast.Store()), iter=it0, ifs=[], is_async=0)])
            return self.visit(_loc(gen, node))
        # E6 `operator.truediv(a, b)` is `a / b` (also the bare names truediv / floordiv imported from operator)
        fn_ = node.func
        opname = None
        if isinstance(fn_, ast.Attribute) and isinstance(fn_.value, ast.Name) and fn_.value.id == "operator":
            opname = fn_.attr
        elif isinstance(fn_, ast.Name) and fn_.id in ("truediv", "floordiv", "or_", "and_"):
            opname = fn_.id
        if opname and len(node.args) == 2 and not node.keywords:
            if opname in self._OPERATOR_BIN:
                self.changed = True
                return _loc(ast.BinOp(left=node.args[0], op=self._OPERATOR_BIN[opname](), right=node.args[1]), node)
            if opname in self._OPERATOR_CMP:
                self.changed = True
                return _loc(ast.Compare(left=node.args[0], ops=[self._OPERATOR_CMP[opname]()], comparators=[node.args[1]]), node)
            if opname == "getitem":
                self.changed = True
                return _loc(ast.Subscript(value=node.args[0], slice=node.args[1], ctx=ast.Load()), node)
            if opname == "contains":
                self.changed = True
                return _loc(ast.Compare(left=node.args[1], ops=[ast.In()], comparators=[node.args[0]]), node)
        # E11 `getattr(x, "name")` with a literal identifier is `x.name`
        if (isinstance(node.func, ast.Name) and node.func.id == "getattr" and len(node.args) == 2 and not node.keywords  # noqa: PLR2004
                and isinstance(node.args[1], ast.Constant) and isinstance(node.args[1].value, str) and node.args[1].value.isidentifier()):
            self.changed = True
            return _loc(ast.Attribute(value=node.args[0], attr=node.args[1].value, ctx=ast.Load()), node)
        # E6 `operator.attrgetter("a")(x)` is `x.a`; methodcaller / itemgetter likewise
        f = node.func
        if isinstance(f, ast.Call) and len(node.args) == 1 and not node.keywords and not f.keywords:
            name = f.func.attr if isinstance(f.func, ast.Attribute) and isinstance(f.func.value, ast.Name) and f.func.value.id == "operator" else (
                f.func.id if isinstance(f.func, ast.Name) else None)
            x = node.args[0]
            if name == "attrgetter" and len(f.args) >= 2 and all(isinstance(a_, ast.Constant) and isinstance(a_.value, str) for a_ in f.args) and _simple(x):
                elts = []
                for a_ in f.args:
                    cur2: ast.expr = copy.deepcopy(x)
                    for part in a_.value.split("."):  # type: ignore[attr-defined]
                        cur2 = ast.Attribute(value=cur2, attr=part, ctx=ast.Load())
                    elts.append(cur2)
                self.changed = True
                return _loc(ast.Tuple(elts=elts, ctx=ast.Load()), node)
            if name == "attrgetter" and len(f.args) == 1 and isinstance(f.args[0], ast.Constant) and isinstance(f.args[0].value, str):
                cur: ast.expr = x
                for part in f.args[0].value.split("."):
                    cur = ast.Attribute(value=cur, attr=part, ctx=ast.Load())
                self.changed = True
                return _loc(cur, node)
            if name == "methodcaller" and f.args and isinstance(f.args[0], ast.Constant) and isinstance(f.args[0].value, str):
                self.changed = True
                return _loc(ast.Call(func=ast.Attribute(value=x, attr=f.args[0].value, ctx=ast.Load()), args=f.args[1:], keywords=[]), node)
            if name == "itemgetter" and len(f.args) == 1:
                self.changed = True
                return _loc(ast.Subscript(value=x, slice=f.args[0], ctx=ast.Load()), node)
        return node

    def visit_Lambda(self, node: ast.Lambda) -> ast.AST:
        self.generic_visit(node)
        # eta: `lambda a, b: f(a, b)` is `f` (f an attribute path or a name other than a, b)
        a = node.args
        names = [x.arg for x in a.args]
        b = node.body
        if (
            not (a.vararg or a.kwarg or a.kwonlyargs or a.posonlyargs or a.defaults) and isinstance(b, ast.Call) and not b.keywords
            and len(b.args) == len(names) and all(isinstance(x, ast.Name) and x.id == n for x, n in zip(b.args, names))
            and _simple(b.func) and not any(isinstance(n, ast.Name) and n.id in names for n in ast.walk(b.func))
        ):
            self.changed = True
            return b.func
        return node

    def visit_Tuple(self, node: ast.Tuple) -> ast.AST:
        self.generic_visit(node)
        if (
            isinstance(node.ctx, ast.Load) and len(node.elts) >= 2 and isinstance(node.elts[0], ast.Starred)
            and not any(isinstance(x, ast.Starred) for x in node.elts[1:])
        ):
            self.changed = True
            rest = _loc(ast.Tuple(elts=node.elts[1:], ctx=ast.Load()), node)
            return _loc(ast.BinOp(left=node.elts[0].value, op=ast.Add(), right=rest), node)
        return node

    def _test(self, e: ast.expr) -> ast.expr:
        new = nnf(e)
        if new is not e and ast.dump(new) != ast.dump(e):
            self.changed = True
        return new

    def visit_If(self, node: ast.If) -> ast.AST:
        self.generic_visit(node)
        node.test = self._test(node.test)
        return node

    def visit_While(self, node: ast.While) -> ast.AST:
        self.generic_visit(node)
        node.test = self._test(node.test)
        return node

    def visit_IfExp(self, node: ast.IfExp) -> ast.AST:
        self.generic_visit(node)
        node.test = self._test(node.test)
        if isinstance(node.test, ast.UnaryOp) and isinstance(node.test.op, ast.Not):
            self.changed = True
            node.test, node.body, node.orelse = node.test.operand, node.orelse, node.body
        if isinstance(node.test, ast.Constant) and isinstance(node.test.value, (bool, type(None))):
            self.changed = True
            return node.body if node.test.value else node.orelse
        # E5 equal alternatives: `X if a else (Y if b else X)` -> `Y if not a and b else X`
        if isinstance(node.orelse, ast.IfExp):
            inner = node.orelse
            if ast.dump(node.body) == ast.dump(inner.orelse):
                self.changed = True
                test = nnf(_loc(ast.BoolOp(op=ast.And(), values=[negate(node.test), inner.test]), node))
                return self.visit_IfExp(_loc(ast.IfExp(test=test, body=inner.body, orelse=node.body), node))
            if ast.dump(node.body) == ast.dump(inner.body):
                self.changed = True
                test = nnf(_loc(ast.BoolOp(op=ast.Or(), values=[node.test, inner.test]), node))
                return self.visit_IfExp(_loc(ast.IfExp(test=test, body=node.body, orelse=inner.orelse), node))
        # E4 boolean conditional expressions are and / or
        c, a, b = node.test, node.body, node.orelse
        if is_bool_expr(c):
            new: Optional[ast.expr] = None
            if _is_const(b, False) and is_bool_expr(a):
                new = ast.BoolOp(op=ast.And(), values=[c, a])
            elif _is_const(a, True) and is_bool_expr(b):
                new = ast.BoolOp(op=ast.Or(), values=[c, b])
            elif _is_const(b, True) and is_bool_expr(a):
                new = ast.BoolOp(op=ast.Or(), values=[negate(c), a])
            elif _is_const(a, False) and is_bool_expr(b):
                new = ast.BoolOp(op=ast.And(), values=[negate(c), b])
            if new is not None:
                self.changed = True
                return nnf(_loc(new, node))
        return node

    def visit_Assert(self, node: ast.Assert) -> ast.AST:
        self.generic_visit(node)
        node.test = self._test(node.test)
        return node

    def _fuse(self, node):  # type: ignore[no-untyped-def]
        """E10 `(f(a) for a in (g(b) for b in X))` is `(f(g(b)) for b in X)`."""
        self.generic_visit(node)
        if len(node.generators) != 1 or isinstance(node, ast.DictComp):
            return node
        g = node.generators[0]
        inner = g.iter
        if (
            isinstance(inner, ast.GeneratorExp) and len(inner.generators) == 1 and not inner.generators[0].ifs and not g.ifs
            and isinstance(g.target, ast.Name) and bool(g.is_async) == bool(inner.generators[0].is_async)
            and _all_loads(node.elt, g.target.id) == 1
            and not (_target_names(inner.generators[0].target) & {n.id for n in ast.walk(node.elt) if isinstance(n, ast.Name)})
        ):
            self.changed = True
            node.elt = _Subst(g.target.id, inner.elt).visit(node.elt)
            node.generators = [inner.generators[0]]
        return node

    visit_GeneratorExp = _fuse
    visit_ListComp = _fuse
    visit_SetComp = _fuse

    def visit_comprehension(self, node: ast.comprehension) -> ast.AST:
        self.generic_visit(node)
        ifs: List[ast.expr] = []
        for c in node.ifs:
            c = self._test(c)
            if isinstance(c, ast.BoolOp) and isinstance(c.op, ast.And):
                ifs.extend(c.values)
            else:
                ifs.append(c)
        node.ifs = ifs
        return node

    def visit_BoolOp(self, node: ast.BoolOp) -> ast.AST:
        # E12 a constant operand in front decides or drops out: `False and X` is False, `True and X` is X,
        #     `True or X` is True, `False or X` is X (operands after a deciding constant are never evaluated)
        self.generic_visit(node)
        vals = list(node.values)
        is_and = isinstance(node.op, ast.And)
        while len(vals) > 1 and isinstance(vals[0], ast.Constant) and isinstance(vals[0].value, bool):
            if vals[0].value is (not is_and):
                self.changed = True
                return _loc(ast.Constant(value=vals[0].value), node)
            vals = vals[1:]
            self.changed = True
        if len(vals) == 1:
            return vals[0]
        node.values = vals
        return node

    def visit_Compare(self, node: ast.Compare) -> ast.AST:
        self.generic_visit(node)
        if len(node.ops) == 1 and isinstance(node.ops[0], (ast.Is, ast.IsNot)) and isinstance(node.left, ast.Constant) and isinstance(
            node.comparators[0], ast.Constant
        ) and all(isinstance(c.value, (bool, type(None))) for c in (node.left, node.comparators[0])):
            self.changed = True
            same = node.left.value is node.comparators[0].value
            return _loc(ast.Constant(value=same == isinstance(node.ops[0], ast.Is)), node)
        return node

    def visit_UnaryOp(self, node: ast.UnaryOp) -> ast.AST:
        self.generic_visit(node)
        if isinstance(node.op, ast.Not):
            # `not` applied to a comparison or to another `not` is boolean in any context
            inner = node.operand
            if isinstance(inner, ast.Compare) or (isinstance(inner, ast.UnaryOp) and isinstance(inner.op, ast.Not) and is_bool_expr(inner.operand)):
                self.changed = True
                return negate(inner)
        return node


# --------------------------------------------------------------------------- name facts


def _own_nodes(fn: ast.AST) -> Iterable[ast.AST]:
    """Nodes of a function body, not descending into nested function / class definitions."""
    stack: List[ast.AST] = list(ast.iter_child_nodes(fn))
    while stack:
        n = stack.pop()
        yield n
        if isinstance(n, (*FuncNode, ast.ClassDef, ast.Lambda)):
            continue
        stack.extend(ast.iter_child_nodes(n))


class NameFacts:
    def __init__(self, fn: ast.AST) -> None:
        self.stores: Dict[str, int] = {}
        self.loads: Dict[str, int] = {}
        self.nested_refs: Set[str] = set()
        self.special: Set[str] = set()  # params, global/nonlocal, loop / with / except targets
        self.loop_targets: Set[str] = set()
        self.attr_stores: Set[str] = set()
        if isinstance(fn, FuncNode):
            a = fn.args
            for arg in a.posonlyargs + a.args + a.kwonlyargs + ([a.vararg] if a.vararg else []) + ([a.kwarg] if a.kwarg else []):
                self.special.add(arg.arg)
        for n in _own_nodes(fn):
            if isinstance(n, ast.Name):
                d = self.stores if isinstance(n.ctx, (ast.Store, ast.Del)) else self.loads
                d[n.id] = d.get(n.id, 0) + 1
            elif isinstance(n, (ast.Global, ast.Nonlocal)):
                self.special.update(n.names)
            elif isinstance(n, (ast.For, ast.AsyncFor)):
                for t in ast.walk(n.target):
                    if isinstance(t, ast.Name):
                        self.special.add(t.id)
                        self.loop_targets.add(t.id)
            elif isinstance(n, (ast.With, ast.AsyncWith)):
                for it in n.items:
                    if it.optional_vars is not None:
                        for t in ast.walk(it.optional_vars):
                            if isinstance(t, ast.Name):
                                self.special.add(t.id)
            elif isinstance(n, ast.ExceptHandler) and n.name:
                self.special.add(n.name)
            elif isinstance(n, ast.comprehension):
                for t in ast.walk(n.target):
                    if isinstance(t, ast.Name):
                        self.special.add(t.id)
            elif isinstance(n, ast.NamedExpr):
                self.special.add(n.target.id)
            elif isinstance(n, (ast.AugAssign,)) and isinstance(n.target, ast.Name):
                self.special.add(n.target.id)
            elif isinstance(n, (*FuncNode, ast.ClassDef, ast.Lambda)):
                if not isinstance(n, ast.Lambda):
                    self.special.add(n.name)
                for m in ast.walk(n):
                    if isinstance(m, ast.Name):
                        self.nested_refs.add(m.id)
            elif isinstance(n, ast.Attribute) and isinstance(n.ctx, (ast.Store, ast.Del)):
                self.attr_stores.add(n.attr)


def _is_path(e: ast.expr) -> bool:
    if not isinstance(e, ast.Attribute):
        return False
    while isinstance(e, ast.Attribute):
        e = e.value
    return isinstance(e, ast.Name)


def _path_root(e: ast.expr) -> str:
    while isinstance(e, ast.Attribute):
        e = e.value
    assert isinstance(e, ast.Name)
    return e.id


def _path_attrs(e: ast.expr) -> List[str]:
    out = []
    while isinstance(e, ast.Attribute):
        out.append(e.attr)
        e = e.value
    return out


class _Subst(ast.NodeTransformer):
    def __init__(self, name: str, value: ast.expr) -> None:
        self.name = name
        self.value = value
        self.count = 0

    def visit_Name(self, node: ast.Name) -> ast.AST:
        if node.id == self.name and isinstance(node.ctx, ast.Load):
            self.count += 1
            return _loc(copy.deepcopy(self.value), node)
        return node


def _head_exprs(s: ast.stmt) -> List[ast.expr]:
    """Expressions of `s` evaluated exactly once, unconditionally, before anything else of `s`."""
    if isinstance(s, (ast.For, ast.AsyncFor)):
        return [s.iter]
    if isinstance(s, ast.If):
        return [s.test]
    if isinstance(s, (ast.With, ast.AsyncWith)):
        return [s.items[0].context_expr]
    if isinstance(s, ast.Assign):
        return [s.value] + [t for t in s.targets if not isinstance(t, ast.Name)]
    if isinstance(s, ast.AnnAssign):
        return [s.value] if s.value is not None else []
    if isinstance(s, ast.AugAssign):
        return [s.value]
    if isinstance(s, (ast.Return, ast.Expr)):
        return [s.value] if s.value is not None else []
    if isinstance(s, ast.Raise):
        return [x for x in (s.exc, s.cause) if x is not None]
    if isinstance(s, ast.Assert):
        return [s.test]
    if isinstance(s, ast.Delete):
        return list(s.targets)
    return []


def _unconditional_loads(e: ast.expr, name: str) -> int:
    """Number of loads of `name` in `e` at positions evaluated exactly once whenever `e` is."""
    count = 0

    def walk(n: ast.AST) -> None:
        nonlocal count
        if isinstance(n, ast.Name):
            if n.id == name and isinstance(n.ctx, ast.Load):
                count += 1
            return
        if isinstance(n, (ast.Lambda,)):
            return
        if isinstance(n, ast.BoolOp):
            walk(n.values[0])
            return
        if isinstance(n, ast.IfExp):
            walk(n.test)
            return
        if isinstance(n, (ast.ListComp, ast.SetComp, ast.GeneratorExp, ast.DictComp)):
            walk(n.generators[0].iter)
            return
        if isinstance(n, ast.Compare) and len(n.ops) > 1:
            walk(n.left)
            walk(n.comparators[0])
            return
        for c in ast.iter_child_nodes(n):
            walk(c)

    walk(e)
    return count


def _effects_before(e: ast.AST, name: str) -> bool:
    """Is a call / await evaluated inside `e` before the (first) load of `name`?

    Inlining `name = value` at that load would move `value` after those calls, which is not
    behaviour-preserving when they have effects (`root = stream.next_token()` ...)."""
    seen_effect = False
    found = False

    def walk(n: ast.AST) -> None:
        nonlocal seen_effect, found
        if found:
            return
        if isinstance(n, ast.Name):
            if n.id == name and isinstance(n.ctx, ast.Load):
                found = True
            return
        if isinstance(n, ast.Lambda):
            return
        if isinstance(n, (ast.GeneratorExp, ast.ListComp, ast.SetComp, ast.DictComp)):
            # the first iterable is evaluated first (and, for a generator expression, nothing else yet)
            walk(n.generators[0].iter)
            if found or isinstance(n, ast.GeneratorExp):
                return
            for c in ast.iter_child_nodes(n):
                if c is not n.generators[0]:
                    walk(c)
                    if found:
                        return
            for c in ast.iter_child_nodes(n.generators[0]):
                if c is not n.generators[0].iter:
                    walk(c)
                    if found:
                        return
            return
        for c in ast.iter_child_nodes(n):
            walk(c)
            if found:
                return
        if isinstance(n, ast.Await) or (isinstance(n, ast.Call) and not (isinstance(n.func, ast.Name) and n.func.id in _PURE_CALLS)):
            seen_effect = True

    walk(e)
    return found and seen_effect


def _inert(e: ast.expr) -> bool:
    """Names, constants and text built from them: evaluating it has no effect and cannot fail."""
    for n in ast.walk(e):
        if not isinstance(n, (ast.Name, ast.Constant, ast.JoinedStr, ast.FormattedValue, ast.Load, ast.Tuple)):
            return False
    return True


def _all_loads(n: ast.AST, name: str) -> int:
    return sum(1 for x in ast.walk(n) if isinstance(x, ast.Name) and x.id == name and isinstance(x.ctx, ast.Load))


def _mentions(n: ast.AST, names: Set[str]) -> bool:
    return any(isinstance(x, ast.Name) and x.id in names for x in ast.walk(n))


def _target_names(t: ast.AST) -> Set[str]:
    return {x.id for x in ast.walk(t) if isinstance(x, ast.Name)}


# --------------------------------------------------------------------------- statements


class Canon:
    def __init__(self, mutable_attrs: Optional[Set[str]] = None) -> None:
        # attribute names assigned somewhere in the package outside constructors:
        # a path through one of them is not a stable alias
        self.mutable_attrs = mutable_attrs or set()
        self.changed = False

    # -- driver
    def function(self, fn: ast.AST) -> None:
        for _ in range(16):
            self.changed = False
            facts_e = NameFacts(fn)
            ex = _Expr(getattr(self, "dict_tables", {}), set(facts_e.stores) | facts_e.special)
            for field_ in ("body",):
                body = getattr(fn, field_)
                setattr(fn, field_, [ex.visit(s) for s in body])
            self.fn = fn
            if self._type_tuples(fn):
                ex.changed = True
            is_gen = any(isinstance(n, (ast.Yield, ast.YieldFrom)) for n in _own_nodes(fn))
            self.is_gen = is_gen
            self.fn_returns_value = any(isinstance(n, ast.Return) and n.value is not None for n in _own_nodes(fn))
            fn.body = self.block(fn.body, "func")
            fn.body = self.lets(fn, fn.body)
            ast.fix_missing_locations(fn)
            if not (self.changed or ex.changed):
                break

    def _type_tuples(self, fn: ast.AST) -> bool:
        """`isinstance(x, NUMBER_TYPES)` / `except ERRORS:` with a module-level tuple of class names, assigned
        once: the tuple is written out, so that every rule reads the classes themselves."""
        table: Dict[str, ast.expr] = getattr(self, "type_tuples", {})
        if not table and not getattr(self, "constants", {}) and not getattr(self, "getters", {}):
            return False
        local = NameFacts(fn).stores
        params = {a.arg for a in ast.walk(fn) if isinstance(a, ast.arg)}
        hit = False
        for n in _own_nodes(fn):
            if isinstance(n, ast.Call) and isinstance(n.func, ast.Name) and n.func.id in ("isinstance", "issubclass") and len(n.args) == 2:  # noqa: PLR2004
                a = n.args[1]
                if isinstance(a, ast.Name) and a.id in table and not local.get(a.id) and a.id not in params:
                    n.args[1] = _loc(copy.deepcopy(table[a.id]), a)  # type: ignore[assignment]
                    hit = True
            elif isinstance(n, ast.ExceptHandler) and isinstance(n.type, ast.Name):
                a = n.type
                if a.id in table and not local.get(a.id) and a.id not in params:
                    n.type = _loc(copy.deepcopy(table[a.id]), a)  # type: ignore[assignment]
                    hit = True
        getters: Dict[str, ast.Call] = getattr(self, "getters", {})
        if getters:
            for n in _own_nodes(fn):
                if (isinstance(n, ast.Call) and isinstance(n.func, ast.Name) and n.func.id in getters and not local.get(n.func.id)
                        and n.func.id not in params and len(n.args) == 1 and not n.keywords):
                    n.func = _loc(copy.deepcopy(getters[n.func.id]), n.func)  # type: ignore[assignment]
                    hit = True
        # `x in _NAMES` with a module-level tuple of literals: the names are written out
        consts: Dict[str, ast.expr] = getattr(self, "constants", {})
        for n in _own_nodes(fn):
            if isinstance(n, ast.Compare) and len(n.ops) == 1 and isinstance(n.ops[0], (ast.In, ast.NotIn)):
                a = n.comparators[0]
                if (isinstance(a, ast.Name) and a.id in consts and not local.get(a.id) and a.id not in params
                        and isinstance(consts[a.id], ast.Tuple) and all(isinstance(x, ast.Constant) for x in consts[a.id].elts)):  # type: ignore[attr-defined]
                    n.comparators[0] = _loc(copy.deepcopy(consts[a.id]), a)
                    hit = True
        return hit

    _OPERATOR_GETTERS = ("attrgetter", "itemgetter", "methodcaller")

    def _module_level(self, tree: ast.AST, counts: Dict[str, int]) -> None:
        """The statements of the module body itself: functions of `operator` imported under another name get
        their own name back, their applications are written out (`attrgetter("a", "b")(ENV)` is `(ENV.a, ENV.b)`),
        and an unpacking of a display of simple values is one assignment per name."""
        aliases: Dict[str, str] = {}
        for st in getattr(tree, "body", []):
            if isinstance(st, ast.ImportFrom) and st.module == "operator" and not st.level:
                for a in st.names:
                    if a.asname and a.asname != a.name and counts.get(a.asname, 0) == 0:
                        aliases[a.asname] = a.name
        if aliases:
            for n in ast.walk(tree):
                if isinstance(n, ast.Name) and n.id in aliases and isinstance(n.ctx, ast.Load):
                    n.id = aliases[n.id]
        body = getattr(tree, "body", None)
        if not isinstance(body, list):
            return
        ex = _Expr()
        new_body: List[ast.stmt] = []
        for st in body:
            if isinstance(st, (ast.Assign, ast.AnnAssign)) and st.value is not None:
                st.value = ex.visit(st.value)
            if (isinstance(st, ast.Assign) and len(st.targets) == 1 and isinstance(st.targets[0], ast.Tuple) and isinstance(st.value, ast.Tuple)
                    and len(st.targets[0].elts) == len(st.value.elts) and all(isinstance(t, ast.Name) for t in st.targets[0].elts)
                    and all(_simple(v) for v in st.value.elts)
                    and not ({t.id for t in st.targets[0].elts} & {n.id for v in st.value.elts for n in ast.walk(v) if isinstance(n, ast.Name)})):  # type: ignore[attr-defined]
                for t, v in zip(st.targets[0].elts, st.value.elts):
                    new_body.append(_loc(ast.Assign(targets=[t], value=v), st))
                continue
            new_body.append(st)
        body[:] = new_body
        # module-level getters (`_VALUE_OF = attrgetter("obj")`), assigned once: a call of one is written out
        self.getters: Dict[str, ast.Call] = {}
        for st in body:
            if (isinstance(st, ast.Assign) and len(st.targets) == 1 and isinstance(st.targets[0], ast.Name) and counts.get(st.targets[0].id) == 1
                    and isinstance(st.value, ast.Call) and not st.value.keywords
                    and all(isinstance(a, ast.Constant) for a in st.value.args) and st.value.args):
                f = st.value.func
                fname = f.id if isinstance(f, ast.Name) else (f.attr if isinstance(f, ast.Attribute) and isinstance(f.value, ast.Name) and f.value.id == "operator" else None)
                if fname in self._OPERATOR_GETTERS:
                    self.getters[st.targets[0].id] = st.value

    def tree(self, tree: ast.AST) -> None:
        # module-level constant tables (`_SWAPS = (("a", "b"), ("c", "d"))`): a loop over one is a literal loop
        self.constants: Dict[str, ast.expr] = {}
        counts: Dict[str, int] = {}
        for n in ast.walk(tree):
            if isinstance(n, ast.Name) and isinstance(n.ctx, (ast.Store, ast.Del)):
                counts[n.id] = counts.get(n.id, 0) + 1
            elif isinstance(n, ast.Global):
                for g in n.names:
                    counts[g] = counts.get(g, 0) + 2
        self._module_level(tree, counts)
        counts = {}
        for n in ast.walk(tree):
            if isinstance(n, ast.Name) and isinstance(n.ctx, (ast.Store, ast.Del)):
                counts[n.id] = counts.get(n.id, 0) + 1
            elif isinstance(n, ast.Global):
                for g in n.names:
                    counts[g] = counts.get(g, 0) + 2

        def const_like(x: ast.expr) -> bool:
            # a literal, or a name that is bound at most once in the whole module (a module constant, an import)
            return isinstance(x, ast.Constant) or (isinstance(x, ast.Name) and counts.get(x.id, 0) <= 1)

        def table_item(x: ast.expr, depth: int = 0) -> bool:
            # rows may hold tuples of their own (`(str, ("str", "string"))`)
            if depth >= 1 and isinstance(x, ast.Lambda):
                # a function written in the row: its free names are module constants (or builtins)
                bound = {a.arg for a in x.args.args}
                return all(n.id in bound or counts.get(n.id, 0) <= 1 for n in ast.walk(x.body) if isinstance(n, ast.Name))
            return const_like(x) or (isinstance(x, (ast.Tuple, ast.List)) and depth < 3 and all(table_item(y, depth + 1) for y in x.elts))  # noqa: PLR2004

        for st in getattr(tree, "body", []):
            tgt0 = val0 = None
            if isinstance(st, ast.Assign) and len(st.targets) == 1 and isinstance(st.targets[0], ast.Name):
                tgt0, val0 = st.targets[0].id, st.value
            elif isinstance(st, ast.AnnAssign) and isinstance(st.target, ast.Name) and st.value is not None:
                tgt0, val0 = st.target.id, st.value  # `_TABLE: Tuple[...] = (...)`
            if tgt0 is not None and isinstance(val0, (ast.Tuple, ast.List)):
                if counts.get(tgt0) != 1:
                    continue
                if all(table_item(x) for x in val0.elts):
                    self.constants[tgt0] = val0
        # dispatch tables: dict displays with literal keys at module or class level, assigned once and never
        # written to (`_COMPARATORS = {"==": lambda env, a, b: env._eq(a, b), ...}`)
        self.dict_tables: Dict[str, ast.Dict] = {}
        self.class_dict_tables: Dict[str, Dict[str, ast.Dict]] = {}
        touched: Set[str] = set()
        for n in ast.walk(tree):
            if isinstance(n, (ast.Subscript, ast.Attribute)) and isinstance(n.ctx, (ast.Store, ast.Del)):
                base_ = n.value
                touched.add(base_.id if isinstance(base_, ast.Name) else (base_.attr if isinstance(base_, ast.Attribute) else ""))
                if isinstance(n, ast.Attribute):
                    touched.add(n.attr)
            elif isinstance(n, ast.Call) and isinstance(n.func, ast.Attribute) and n.func.attr in (
                    "update", "pop", "setdefault", "clear", "popitem", "__setitem__", "__delitem__"):
                base_ = n.func.value
                touched.add(base_.id if isinstance(base_, ast.Name) else (base_.attr if isinstance(base_, ast.Attribute) else ""))

        def dict_table(val: Optional[ast.expr]) -> bool:
            if isinstance(val, ast.Dict) and 1 <= len(val.keys) <= 16 and all(  # noqa: PLR2004
                    isinstance(k, ast.Name) and k.id.isupper() and counts.get(k.id, 0) <= 1 for k in val.keys):
                # keyed by named constants (the token kinds): one entry per name; that two names do not stand for one
                # value is the naming convention of this package's constant modules, which R13/R17 check separately
                return len({k.id for k in val.keys}) == len(val.keys)  # type: ignore[union-attr]
            return (isinstance(val, ast.Dict) and 1 <= len(val.keys) <= 16 and all(
                isinstance(k, ast.Constant) and isinstance(k.value, (str, int)) and not isinstance(k.value, bool) for k in val.keys)
                and len({k.value for k in val.keys}) == len(val.keys))  # type: ignore[union-attr]

        def assigned(st: ast.stmt) -> Tuple[Optional[str], Optional[ast.expr]]:
            if isinstance(st, ast.Assign) and len(st.targets) == 1 and isinstance(st.targets[0], ast.Name):
                return st.targets[0].id, st.value
            if isinstance(st, ast.AnnAssign) and isinstance(st.target, ast.Name) and st.value is not None:
                return st.target.id, st.value
            return None, None

        for st in getattr(tree, "body", []):
            tg, vl = assigned(st)
            if tg is not None and counts.get(tg) == 1 and tg not in touched and dict_table(vl):
                self.dict_tables[tg] = vl  # type: ignore[assignment]
        for c in [x for x in ast.walk(tree) if isinstance(x, ast.ClassDef)]:
            for st in c.body:
                tg, vl = assigned(st)
                if tg is not None and counts.get(tg) == 1 and tg not in touched and dict_table(vl):
                    self.class_dict_tables.setdefault(c.name, {})[tg] = vl  # type: ignore[assignment]
        # module-level tuples of class names, assigned once (`_NUMBER_TYPES = (int, float, Decimal)`)
        self.type_tuples: Dict[str, ast.expr] = {}
        for st in getattr(tree, "body", []):
            if isinstance(st, ast.Assign) and len(st.targets) == 1 and isinstance(st.targets[0], ast.Name) and isinstance(st.value, ast.Tuple):
                name = st.targets[0].id
                if counts.get(name) == 1 and st.value.elts and all(
                        isinstance(x, ast.Name) or (isinstance(x, ast.Attribute) and _is_path(x)) for x in st.value.elts):
                    self.type_tuples[name] = st.value
        # class-level constant tables (`_CHECKS = ((Type.VALUE, "ValueType", _is_value), ...)`): a loop over
        # `self._CHECKS` inside the class is a literal loop too, when nothing else in the module binds the name;
        # an item that names a method of the class is that method
        self.class_tables: Dict[str, Dict[str, ast.expr]] = {}
        self.class_methods: Dict[str, Set[str]] = {}
        attr_stores: Dict[str, int] = {}
        for n in ast.walk(tree):
            if isinstance(n, ast.Attribute) and isinstance(n.ctx, (ast.Store, ast.Del)):
                attr_stores[n.attr] = attr_stores.get(n.attr, 0) + 1
        for c in [x for x in ast.walk(tree) if isinstance(x, ast.ClassDef)]:
            methods = {m.name for m in c.body if isinstance(m, FuncNode)}
            self.class_methods[c.name] = methods
            for st in c.body:
                tgt = val = None
                if isinstance(st, ast.Assign) and len(st.targets) == 1 and isinstance(st.targets[0], ast.Name):
                    tgt, val = st.targets[0].id, st.value
                elif isinstance(st, ast.AnnAssign) and isinstance(st.target, ast.Name) and st.value is not None:
                    tgt, val = st.target.id, st.value
                if tgt is None or not isinstance(val, (ast.Tuple, ast.List)) or counts.get(tgt) != 1 or attr_stores.get(tgt):
                    continue

                def item_ok(x: ast.expr, methods=methods) -> bool:  # type: ignore[no-untyped-def]
                    return (isinstance(x, ast.Constant) or (isinstance(x, ast.Name) and (x.id in methods or counts.get(x.id, 0) <= 1))
                            or (isinstance(x, ast.Attribute) and _is_path(x)))

                if val.elts and all(item_ok(x) or (isinstance(x, (ast.Tuple, ast.List)) and all(item_ok(y) for y in x.elts)) for x in val.elts):
                    # a row may name an earlier table of the class body (`("add", _POINTER_VALUE_MEMBERS)`): inside a
                    # method that bare name means nothing, so the earlier table is written in its place
                    earlier = self.class_tables.get(c.name, {})

                    class _Earlier(ast.NodeTransformer):
                        def visit_Name(self, node: ast.Name, earlier=earlier) -> ast.AST:  # type: ignore[no-untyped-def]
                            if isinstance(node.ctx, ast.Load) and node.id in earlier:
                                return _loc(copy.deepcopy(earlier[node.id]), node)
                            return node

                    if earlier and any(isinstance(n, ast.Name) and n.id in earlier for n in ast.walk(val)):
                        val = _Earlier().visit(copy.deepcopy(val))
                    self.class_tables.setdefault(c.name, {})[tgt] = val
        done_fns: Set[int] = set()
        for c in [x for x in ast.walk(tree) if isinstance(x, ast.ClassDef)]:
            for m in c.body:
                if isinstance(m, FuncNode):
                    self.current_class = c.name
                    for n in ast.walk(m):
                        if isinstance(n, FuncNode) and id(n) not in done_fns:
                            done_fns.add(id(n))
                            self.function(n)
        self.current_class = None
        for n in ast.walk(tree):
            if isinstance(n, FuncNode) and id(n) not in done_fns:
                self.function(n)

    # -- blocks
    def block(self, body: List[ast.stmt], ctx: str) -> List[ast.stmt]:
        # children first
        for s in body:
            if isinstance(s, FuncNode) or isinstance(s, ast.ClassDef):
                continue  # handled as functions of their own
            if isinstance(s, (ast.For, ast.AsyncFor, ast.While)):
                s.body = self.block(s.body, "loop")
                s.orelse = self.block(s.orelse, "other")
            elif isinstance(s, ast.If):
                s.body = self.block(s.body, "other")
                s.orelse = self.block(s.orelse, "other")
            elif isinstance(s, (ast.With, ast.AsyncWith)):
                s.body = self.block(s.body, "other")
            elif isinstance(s, ast.Try):
                s.body = self.block(s.body, "other")
                for h in s.handlers:
                    h.body = self.block(h.body, "other")
                s.orelse = self.block(s.orelse, "other")
                s.finalbody = self.block(s.finalbody, "other")
            elif hasattr(ast, "Match") and isinstance(s, ast.Match):
                for c in s.cases:
                    c.body = self.block(c.body, "other")
        out: List[ast.stmt] = []
        i = 0
        body = list(body)
        while i < len(body):
            s = body[i]
            rest = body[i + 1:]
            repl = self.stmt(s, rest, ctx, is_last=(i == len(body) - 1), prev=out)
            if repl is None:
                out.append(s)
                i += 1
            else:
                new_stmts, consumed = repl
                self.changed = True
                body = out + new_stmts + body[i + 1 + consumed:]
                # re-examine from the statement before the rewrite
                keep = max(len(out) - 1, 0)
                out = body[:keep]
                i = keep
        return out

    def _mark(self) -> None:
        self.changed = True

    def stmt(self, s: ast.stmt, rest: List[ast.stmt], ctx: str, is_last: bool,
             prev: List[ast.stmt]) -> Optional[Tuple[List[ast.stmt], int]]:
        """A rewrite of `s` (and of `consumed` following statements), or None."""
        if isinstance(s, JUMPS) and rest:
            return [s], len(rest)  # unreachable statements
        if isinstance(s, ast.Expr) and isinstance(s.value, ast.YieldFrom) and self._chained_generator(s.value.value) is not None:
            # S42 `yield from chain.from_iterable(E for a in A for b in B)`  ->  `for a in A: for b in B: yield from E`
            g42 = self._chained_generator(s.value.value)
            inner42: List[ast.stmt] = [_loc(ast.Expr(value=_loc(ast.YieldFrom(value=g42.elt), s)), s)]
            for gen in reversed(g42.generators):
                for cond in reversed(gen.ifs):
                    inner42 = [_loc(ast.If(test=cond, body=inner42, orelse=[]), s)]
                inner42 = [_loc(ast.For(target=_store(gen.target), iter=gen.iter, body=inner42, orelse=[], type_comment=None), s)]
            return inner42, 0
        if isinstance(s, ast.Expr) and isinstance(s.value, ast.YieldFrom):
            # S35 `yield from E`  ->  `for v in E: yield v`   (no caller of this package sends into its generators)
            facts = NameFacts(self.fn)
            used = set(facts.stores) | set(facts.loads) | facts.special
            k = 1
            while f"_each{k if k > 1 else ''}" in used:
                k += 1
            v = f"_each{k if k > 1 else ''}"
            y = _loc(ast.Expr(value=ast.Yield(value=ast.Name(id=v, ctx=ast.Load()))), s)
            return [_loc(ast.For(target=ast.Name(id=v, ctx=ast.Store()), iter=s.value.value, body=[y], orelse=[], type_comment=None), s)], 0
        if (
            isinstance(s, ast.Assign) and _plain_target(s) is not None and rest and isinstance(rest[0], ast.If)
            and isinstance(s.value, (ast.Tuple, ast.List, ast.Dict, ast.Set, ast.JoinedStr, ast.ListComp, ast.DictComp))
        ):
            # S33 a display is never None: `x = (a, b)` ; `if x is None: ...`
            t0 = rest[0].test
            if (
                isinstance(t0, ast.Compare) and len(t0.ops) == 1 and isinstance(t0.ops[0], (ast.Is, ast.IsNot))
                and isinstance(t0.left, ast.Name) and t0.left.id == _plain_target(s) and _is_const(t0.comparators[0], None)
            ):
                rest[0].test = _loc(ast.Constant(value=isinstance(t0.ops[0], ast.IsNot)), t0)
                return [s, rest[0]], 1
        if isinstance(s, (ast.If, ast.Assign, ast.Return, ast.Expr, ast.AnnAssign, ast.For, ast.AsyncFor)):
            r8 = self._unwalrus(s)
            if r8 is not None:
                return r8, 0
        r37 = self._dict_dispatch(s, rest)
        if r37 is not None:
            return r37
        if (isinstance(s, ast.Try) and s.handlers and not s.orelse and not s.finalbody and all(
                h.type is not None and h.name is None and all(isinstance(b, ast.Pass) for b in h.body) for h in s.handlers)):
            # S41 `try: B` / `except E: pass`  ->  `with suppress(E): B`
            types: List[ast.expr] = []
            for h in s.handlers:
                types.extend(h.type.elts if isinstance(h.type, ast.Tuple) else [h.type])  # type: ignore[union-attr]
            call = _loc(ast.Call(func=ast.Name(id="suppress", ctx=ast.Load()), args=types, keywords=[]), s)
            return [_loc(ast.With(items=[ast.withitem(context_expr=call, optional_vars=None)], body=s.body, type_comment=None), s)], 0
        if (isinstance(s, ast.Assign) and _plain_target(s) is not None and isinstance(s.value, ast.Call) and not isinstance(s.value.func, ast.Call)
                and _Expr._pure_entry(s.value) and not _simple(s.value) and rest):
            # S43 a getter built from constants and bound to a local that is only ever called: `show = attrgetter("obj")` ;
            #     `(show(m) for m in it)`  ->  `(attrgetter("obj")(m) for m in it)`  (E6 then writes `m.obj`)
            x43 = _plain_target(s)
            facts43 = NameFacts(self.fn)
            if facts43.stores.get(x43, 0) == 1 and x43 not in facts43.special:
                loads43 = [n for st in rest for n in ast.walk(st) if isinstance(n, ast.Name) and n.id == x43 and isinstance(n.ctx, ast.Load)]
                called43 = [n for st in rest for n in ast.walk(st) if isinstance(n, ast.Call) and isinstance(n.func, ast.Name) and n.func.id == x43]
                total43 = sum(1 for n in ast.walk(self.fn) if isinstance(n, ast.Name) and n.id == x43 and isinstance(n.ctx, ast.Load))
                if loads43 and len(loads43) == len(called43) == total43:
                    return [_Subst(x43, s.value).visit(st) for st in rest], len(rest)
        r40 = self._table_rows(s)
        if r40 is not None:
            return r40, 0
        r38 = self._bool_pick(s, rest)
        if r38 is not None:
            return r38
        r39 = self._conditional_callee(s)
        if r39 is not None:
            return r39, 0
        if isinstance(s, ast.Assign) and len(s.targets) == 1 and isinstance(s.targets[0], ast.Name) and isinstance(s.value, ast.Name) \
                and s.value.id == s.targets[0].id:
            return [], 0  # `x = x`
        if isinstance(s, ast.AnnAssign) and s.value is None and isinstance(s.target, ast.Name):
            return [], 0  # a bare local annotation does nothing at run time
        if isinstance(s, ast.If) and isinstance(s.test, ast.Constant) and isinstance(s.test.value, (bool, type(None))):
            return list(s.body if s.test.value else s.orelse), 0
        if isinstance(s, ast.If) and not s.orelse and isinstance(s.test, ast.BoolOp) and isinstance(s.test.op, ast.And):
            # S22b a walrus in a later conjunct: `if a and (x := e) and c: S`  ->  `if a: x = e ; if x and c: S`
            vals = s.test.values
            for k in range(1, len(vals)):
                w = vals[k]
                target_w: Optional[ast.NamedExpr] = None
                if isinstance(w, ast.NamedExpr):
                    target_w = w
                elif isinstance(w, ast.Compare) and isinstance(w.left, ast.NamedExpr):
                    target_w = w.left
                elif (isinstance(w, ast.Call) and isinstance(w.func, ast.Name) and w.func.id == "isinstance" and len(w.args) == 2  # noqa: PLR2004
                      and isinstance(w.args[0], ast.NamedExpr) and not w.keywords):
                    target_w = w.args[0]
                if target_w is None:
                    if any(isinstance(n, ast.NamedExpr) for n in ast.walk(w)):
                        break
                    continue
                if any(isinstance(n, ast.NamedExpr) for v in vals[:k] for n in ast.walk(v)):
                    break
                name_load = ast.Name(id=target_w.target.id, ctx=ast.Load())
                if w is target_w:
                    new_w: ast.expr = name_load
                elif isinstance(w, ast.Call):
                    new_w = _loc(ast.Call(func=w.func, args=[name_load, w.args[1]], keywords=[]), w)
                else:
                    new_w = _loc(ast.Compare(left=name_load, ops=w.ops, comparators=w.comparators), w)  # type: ignore[union-attr]
                inner_vals = [new_w] + vals[k + 1:]
                inner_test = inner_vals[0] if len(inner_vals) == 1 else _loc(ast.BoolOp(op=ast.And(), values=inner_vals), s)
                outer_test = vals[0] if k == 1 else _loc(ast.BoolOp(op=ast.And(), values=vals[:k]), s)
                bind = _loc(ast.Assign(targets=[ast.Name(id=target_w.target.id, ctx=ast.Store())], value=target_w.value), s)
                inner = _loc(ast.If(test=inner_test, body=s.body, orelse=[]), s)
                return [_loc(ast.If(test=outer_test, body=[bind, inner], orelse=[]), s)], 0
        if (
            isinstance(s, ast.If) and len(rest) == 1 and isinstance(rest[0], ast.Return) and isinstance(rest[0].value, ast.Name)
            and ctx in ("func", "other")
        ):
            # S31 result variables: `if c: A ; x = e` ; `return x`  ->  `if c: A ; return e` ; `return x`
            x = rest[0].value.id
            changed31 = False

            def sink(branch: List[ast.stmt]) -> None:
                nonlocal changed31
                if not branch:
                    return
                last = branch[-1]
                if isinstance(last, ast.Assign) and _plain_target(last) == x:
                    branch[-1] = _loc(ast.Return(value=last.value), last)
                    changed31 = True
                elif isinstance(last, ast.If):
                    sink(last.body)
                    sink(last.orelse)
                elif isinstance(last, ast.Try) and not last.finalbody:
                    # the value of a try whose every way out assigns x
                    pass

            sink(s.body)
            sink(s.orelse)
            if changed31:
                return [s], 0
        if isinstance(s, ast.If) and s.orelse and all(isinstance(x, ast.Pass) for x in s.orelse):
            s.orelse = []
            return [s], 0
        if isinstance(s, ast.If) and s.orelse and all(isinstance(x, ast.Pass) for x in s.body):
            return [_loc(ast.If(test=negate(s.test), body=s.orelse, orelse=[]), s)], 0
        if isinstance(s, ast.If) and not s.orelse and all(isinstance(x, ast.Pass) for x in s.body) and not any(
            isinstance(n, (ast.Call, ast.Await, ast.NamedExpr)) for n in ast.walk(s.test)
        ):
            return [], 0
        if isinstance(s, ast.Pass) and (rest or prev):
            return [], 0
        if isinstance(s, ast.If):
            # S1 else hoisting
            if s.orelse and jumps(s.body):
                tail = s.orelse
                s.orelse = []
                return [s] + tail, 0
            if s.orelse and jumps(s.orelse):
                new = _loc(ast.If(test=negate(s.test), body=s.orelse, orelse=[]), s)
                return [new] + s.body, 0
            # S19 two jumping alternatives: the shorter one is the guard
            #     `if c: A(jumps)` ; B(jumps, the rest of the block)  with len(A) > len(B)  ->  `if not c: B` ; A
            if not s.orelse and jumps(s.body) and rest and jumps(rest) and not any(isinstance(x, ast.If) for x in rest):
                la, lb = len(s.body), len(rest)
                negated = isinstance(s.test, ast.UnaryOp) and isinstance(s.test.op, ast.Not)
                if la > lb or (la == lb and negated):
                    new_if = _loc(ast.If(test=negate(s.test), body=list(rest), orelse=[]), s)
                    return [new_if] + s.body, len(rest)
            # S19b the same at the end of a loop body, where falling off the end is the `continue`:
            #     `if c: A ; continue` ; B(end of the loop body)  with len(A) > len(B)  ->  `if not c: B ; continue` ; A
            if (not s.orelse and ctx == "loop" and s.body and isinstance(s.body[-1], ast.Continue) and rest and not jumps(rest)
                    and not any(isinstance(x, (ast.If, ast.For, ast.While, ast.Try, ast.With, ast.AsyncFor, ast.AsyncWith)) for x in rest)
                    and not any(isinstance(n, (ast.Break, ast.Continue)) for x in rest for n in ast.walk(x))):
                la, lb = len(s.body), len(rest) + 1
                t_ = s.test
                negated = (isinstance(t_, ast.UnaryOp) and isinstance(t_.op, ast.Not)) or (
                    isinstance(t_, ast.Compare) and len(t_.ops) == 1 and isinstance(t_.ops[0], (ast.NotEq, ast.IsNot, ast.NotIn)))
                if la > lb or (la == lb and negated):
                    new_if = _loc(ast.If(test=negate(s.test), body=list(rest) + [_loc(ast.Continue(), s)], orelse=[]), s)
                    return [new_if] + s.body[:-1], len(rest)
            # S6 conditional value: `if c: x = a else: x = b`  ->  `x = a if c else b`
            if len(s.body) == 1 and len(s.orelse) == 1:
                ta, tb = _plain_target(s.body[0]), _plain_target(s.orelse[0])
                if ta is not None and ta == tb and not _mentions(s.test, {ta}):
                    ie = _loc(ast.IfExp(test=s.test, body=s.body[0].value, orelse=s.orelse[0].value), s)  # type: ignore[attr-defined]
                    ann = next((z.annotation for z in (s.body[0], s.orelse[0]) if isinstance(z, ast.AnnAssign)), None)
                    tgt = ast.Name(id=ta, ctx=ast.Store())
                    if ann is not None:
                        return [_loc(ast.AnnAssign(target=tgt, annotation=ann, value=ie, simple=1), s)], 0
                    return [_loc(ast.Assign(targets=[tgt], value=ie), s)], 0
            # S17 branches with the same body: `if a: X elif b: Y else: X`  ->  `if not a and b: Y else: X`
            if s.orelse and len(s.orelse) == 1 and isinstance(s.orelse[0], ast.If) and s.orelse[0].orelse:
                inner = s.orelse[0]
                if _same(s.body, inner.orelse):
                    test = nnf(_loc(ast.BoolOp(op=ast.And(), values=[negate(s.test), inner.test]), s))
                    return [_loc(ast.If(test=test, body=inner.body, orelse=s.body), s)], 0
                if _same(s.body, inner.body):
                    test = nnf(_loc(ast.BoolOp(op=ast.Or(), values=[s.test, inner.test]), s))
                    return [_loc(ast.If(test=test, body=s.body, orelse=inner.orelse), s)], 0
            # S2 orientation
            if s.orelse and isinstance(s.test, ast.UnaryOp) and isinstance(s.test.op, ast.Not):
                s.test, s.body, s.orelse = s.test.operand, s.orelse, s.body
                return [s], 0
            if s.orelse and isinstance(s.test, ast.Compare) and len(s.test.ops) == 1 and isinstance(
                s.test.ops[0], (ast.NotEq, ast.IsNot, ast.NotIn)
            ):
                s.test, s.body, s.orelse = negate(s.test), s.orelse, s.body
                return [s], 0
            # S3 nested ifs
            if not s.orelse and len(s.body) == 1 and isinstance(s.body[0], ast.If) and not s.body[0].orelse:
                inner = s.body[0]
                test = nnf(_loc(ast.BoolOp(op=ast.And(), values=[s.test, inner.test]), s))
                return [_loc(ast.If(test=test, body=inner.body, orelse=[]), s)], 0
            # S5 guard splitting
            if not s.orelse and jumps(s.body) and isinstance(s.test, ast.BoolOp) and isinstance(s.test.op, ast.Or):
                news = []
                for v in s.test.values:
                    news.append(_loc(ast.If(test=v, body=copy.deepcopy(s.body), orelse=[]), v))
                return news, 0
            # S4b tail if/else: `if a: A else: B` at the end of a loop / function body
            #     ->  `if a: A ; continue` ; B
            if s.orelse and is_last and ctx in ("loop", "func") and not jumps(s.body) and not jumps(s.orelse) and not (
                ctx == "func" and self.fn_returns_value
            ):
                j2: ast.stmt = ast.Continue() if ctx == "loop" else ast.Return(value=None)
                s.body = s.body + [_loc(j2, s)]
                tail2 = s.orelse
                s.orelse = []
                return [s] + tail2, 0
            # S4 tail guard
            if not s.orelse and is_last and ctx in ("loop", "func") and not jumps(s.body):
                if ctx == "loop":
                    j: ast.stmt = ast.Continue()
                else:
                    j = ast.Return(value=None)
                guard = _loc(ast.If(test=negate(s.test), body=[_loc(j, s)], orelse=[]), s)
                return [guard] + s.body, 0
            # S18 conditional rebinding at function level: `if c: x = e(x)` ; rest(x)
            #     ->  `x1 = e(x) if c else x` ; rest(x1)
            if (
                ctx == "func" and not s.orelse and len(s.body) == 1 and _plain_target(s.body[0]) is not None
                and isinstance(s.body[0], ast.Assign)
            ):
                x = _plain_target(s.body[0])
                facts = NameFacts(self.fn)
                later_store = any(
                    isinstance(n, ast.Name) and n.id == x and isinstance(n.ctx, (ast.Store, ast.Del)) for r_ in rest for n in ast.walk(r_)
                )
                declared = any(isinstance(n, (ast.Global, ast.Nonlocal)) and x in n.names for n in _own_nodes(self.fn))
                if x is not None and not later_store and not declared and x not in facts.nested_refs and x not in facts.loop_targets:
                    used = set(facts.stores) | set(facts.loads) | facts.special
                    k = 1
                    while f"{x}__{k}" in used:
                        k += 1
                    x1 = f"{x}__{k}"
                    ie = _loc(ast.IfExp(test=s.test, body=s.body[0].value, orelse=ast.Name(id=x, ctx=ast.Load())), s)
                    first = _loc(ast.Assign(targets=[ast.Name(id=x1, ctx=ast.Store())], value=ie), s)
                    ren = _Subst(x, ast.Name(id=x1, ctx=ast.Load()))
                    return [first] + [ren.visit(r_) for r_ in rest], len(rest)
            # S26 flag / record variables: every branch of an if/elif/else ends by assigning x, at least once a
            #     constant or a tuple literal, and the few statements that follow take x apart:
            #     `if c: A; x = K1 else: B; x = K2` ; REST(x)  ->  REST is moved into every branch
            if s.orelse and rest and len(rest) <= 8 and not any(
                isinstance(n, (ast.FunctionDef, ast.AsyncFunctionDef, ast.ClassDef)) for r_ in rest for n in ast.walk(r_)
            ):
                leaves: List[List[ast.stmt]] = []

                def collect(branch: List[ast.stmt]) -> Optional[str]:
                    if not branch or jumps(branch):
                        return None
                    last = branch[-1]
                    t_ = _plain_target(last)
                    if t_ is not None:
                        leaves.append(branch)
                        return t_
                    if isinstance(last, ast.If) and last.orelse and len(branch) == 1:
                        a_, b_ = collect(last.body), collect(last.orelse)
                        return a_ if a_ is not None and a_ == b_ else None
                    return None

                xa, xb = collect(s.body), collect(s.orelse)
                if xa is not None and xa == xb and any(_all_loads(r_, xa) for r_ in rest):
                    vals = [lf[-1].value for lf in leaves]  # type: ignore[attr-defined]
                    structured = [v for v in vals if isinstance(v, (ast.Constant, ast.Tuple))]
                    distinct = len({ast.dump(v) for v in vals}) > 1
                    consts_ok = all(isinstance(v.value, (bool, type(None))) for v in vals if isinstance(v, ast.Constant))
                    if structured and distinct and consts_ok:
                        for k_, lf in enumerate(leaves):
                            lf.extend(copy.deepcopy(r_) for r_ in rest)
                        return [s], len(rest)
            # S25 a test that an enclosing `if` has already decided
            if self._propagate(s):
                return [s], 0
            #     ... and after a guard `if T: <jump>` the rest of the block runs with T false
            if not s.orelse and jumps(s.body) and rest:
                shell = ast.If(test=s.test, body=[ast.Pass()], orelse=list(rest))
                if self._propagate(shell):
                    return [s] + [x for x in shell.orelse if not isinstance(x, ast.Pass)], len(rest)
            # S8 `if any(...): J`
            r = self._if_any(s)
            if r is not None:
                return r, 0
            # S8 `if c: return True` ; `return False`
            if (
                not s.orelse and len(s.body) == 1 and isinstance(s.body[0], ast.Return)
                and rest and isinstance(rest[0], ast.Return)
                and _is_const(s.body[0].value, True, False) and _is_const(rest[0].value, True, False)
                and s.body[0].value.value is not rest[0].value.value  # type: ignore[union-attr]
                and is_bool_expr(s.test)
                and not _contains_call(s.test, ("any", "all"))
            ):
                val = s.test if s.body[0].value.value is True else negate(s.test)  # type: ignore[union-attr]
                return [_loc(ast.Return(value=val), s)], 1
            # S6 both branches assign the same simple name: kept as statement (canonical)
            return None
        if isinstance(s, ast.Assign) and len(s.targets) == 1:
            t = s.targets[0]
            # S15 `a, b = x, y`  ->  `a = x` ; `b = y`   (no name of the left occurs on the right)
            if (
                isinstance(t, ast.Tuple) and isinstance(s.value, ast.Tuple) and len(t.elts) == len(s.value.elts)
                and all(isinstance(x, ast.Name) for x in t.elts) and not any(isinstance(x, ast.Starred) for x in s.value.elts)
                and not _mentions(s.value, {x.id for x in t.elts})  # type: ignore[attr-defined]
            ):
                return [_loc(ast.Assign(targets=[a], value=v), s) for a, v in zip(t.elts, s.value.elts)], 0
            # S15b `a, b = m.group("A", "B")`  ->  `a = m.group("A")` ; `b = m.group("B")`   (Match.group is a pure lookup)
            if (
                isinstance(t, ast.Tuple) and isinstance(s.value, ast.Call) and isinstance(s.value.func, ast.Attribute) and s.value.func.attr == "group"
                and _simple(s.value.func.value) and not s.value.keywords and len(s.value.args) == len(t.elts) >= 2
                and all(isinstance(a, ast.Constant) for a in s.value.args) and all(isinstance(x, ast.Name) for x in t.elts)
                and not _mentions(s.value, {x.id for x in t.elts})  # type: ignore[attr-defined]
            ):
                return [
                    _loc(ast.Assign(targets=[x], value=ast.Call(func=copy.deepcopy(s.value.func), args=[a], keywords=[])), s)
                    for x, a in zip(t.elts, s.value.args)
                ], 0
            # S6 default + override: `x = a` ; `if c(x): x = b(x)`  ->  `x1 = a` ; `if c(x1): x = b(x1) else: x = x1`
            if (
                isinstance(t, ast.Name) and rest
                and isinstance(rest[0], ast.If) and not rest[0].orelse and len(rest[0].body) == 1
                and isinstance(rest[0].body[0], ast.Assign) and len(rest[0].body[0].targets) == 1
                and isinstance(rest[0].body[0].targets[0], ast.Name) and rest[0].body[0].targets[0].id == t.id
            ):
                facts = NameFacts(self.fn)
                x = t.id
                if x not in facts.nested_refs and x not in facts.special:
                    used = set(facts.stores) | set(facts.loads) | facts.special
                    k = 1
                    while f"{x}__{k}" in used:
                        k += 1
                    x1 = f"{x}__{k}"
                    nxt = rest[0]
                    ren = _Subst(x, ast.Name(id=x1, ctx=ast.Load()))
                    first = _loc(ast.Assign(targets=[ast.Name(id=x1, ctx=ast.Store())], value=s.value), s)
                    over = nxt.body[0]
                    over.value = ren.visit(over.value)  # type: ignore[attr-defined]
                    keep = _loc(ast.Assign(targets=[ast.Name(id=x, ctx=ast.Store())], value=ast.Name(id=x1, ctx=ast.Load())), s)
                    return [first, _loc(ast.If(test=ren.visit(nxt.test), body=[over], orelse=[keep]), nxt)], 1
            # S11 `x = functools.reduce(f, it, init)`  ->  `x = init` ; `for t in it: x = f(x, t)`
            r5 = self._unreduce(s.value, t.id if isinstance(t, ast.Name) else None, s)
            if r5 is not None:
                return r5, 0
            # S7 accumulation loops
            r2 = self._accumulate(s, rest)
            if r2 is not None:
                return r2
            return None
        if isinstance(s, ast.AnnAssign) and s.value is not None and isinstance(s.target, ast.Name) and rest:
            plain = _loc(ast.Assign(targets=[s.target], value=s.value), s)
            r2 = self._accumulate(plain, rest)  # type: ignore[arg-type]
            if r2 is not None:
                return r2
            return None
        if isinstance(s, ast.Return) and s.value is not None:
            v = s.value
            # S6
            if isinstance(v, ast.IfExp):
                g = _loc(ast.If(test=v.test, body=[_loc(ast.Return(value=v.body), s)], orelse=[]), s)
                return [g, _loc(ast.Return(value=v.orelse), s)], 0
            # S11 `return functools.reduce(...)`
            if self._is_reduce(v):
                facts = NameFacts(self.fn)
                used = set(facts.stores) | set(facts.loads) | facts.special
                k = 1
                while f"_folded{k if k > 1 else ''}" in used:
                    k += 1
                name = f"_folded{k if k > 1 else ''}"
                r6 = self._unreduce(v, name, s)
                if r6 is not None:
                    return r6 + [_loc(ast.Return(value=ast.Name(id=name, ctx=ast.Load())), s)], 0
            # S14 `return a and b` (a boolean)  ->  `if not a: return False` ; `return b`
            if isinstance(v, ast.BoolOp) and len(v.values) >= 2 and all(is_bool_expr(x) for x in v.values[:-1]):
                is_and = isinstance(v.op, ast.And)
                out: List[ast.stmt] = []
                for x in v.values[:-1]:
                    test = negate(x) if is_and else x
                    out.append(_loc(ast.If(test=test, body=[_loc(ast.Return(value=ast.Constant(value=not is_and)), s)], orelse=[]), x))
                out.append(_loc(ast.Return(value=v.values[-1]), s))
                return out, 0
            # S8 return any/all
            r3 = self._return_any(s)
            if r3 is not None:
                return r3, 0
            return None
        if hasattr(ast, "Match") and isinstance(s, ast.Match):
            r7 = self._unmatch(s)
            if r7 is not None:
                return r7, 0
            return None
        if isinstance(s, ast.While) and not s.orelse and not (isinstance(s.test, ast.Constant) and s.test.value is True):
            # S30 `while c: B`  ->  `while True: if not c: break ; B`
            guard = _loc(ast.If(test=negate(s.test), body=[_loc(ast.Break(), s)], orelse=[]), s)
            s.test = _loc(ast.Constant(value=True), s)
            s.body = [guard] + s.body
            return [s], 0
        if (
            isinstance(s, (ast.For, ast.AsyncFor)) and isinstance(s.target, ast.Name) and s.body and isinstance(s.body[0], ast.Assign)
            and len(s.body[0].targets) == 1 and isinstance(s.body[0].targets[0], (ast.Tuple, ast.List))
            and isinstance(s.body[0].value, ast.Name) and s.body[0].value.id == s.target.id
            and all(isinstance(x, ast.Name) for x in s.body[0].targets[0].elts)
        ):
            # S32 `for x in it: a, b = x ; S`  ->  `for a, b in it: S`   (x used nowhere else)
            x = s.target.id
            facts = NameFacts(self.fn)
            if facts.loads.get(x, 0) == 1 and facts.stores.get(x, 0) == 1 and x not in facts.nested_refs:
                s.target = _store(s.body[0].targets[0])
                s.body = s.body[1:] or [_loc(ast.Pass(), s)]
                return [s], 0
        if isinstance(s, (ast.For, ast.AsyncFor)) and not s.orelse:
            # S23 a loop over a conditional iterable is a conditional of loops; a loop over `()` is nothing
            if isinstance(s.iter, ast.IfExp) and is_bool_expr(s.iter.test) or (isinstance(s.iter, ast.IfExp) and _simple(s.iter.test)):
                a = copy.copy(s)
                a.iter = s.iter.body
                b = copy.copy(s)
                b.iter = s.iter.orelse
                b.body = copy.deepcopy(s.body)
                b.target = copy.deepcopy(s.target)
                return [_loc(ast.If(test=s.iter.test, body=[a], orelse=[b]), s)], 0
            if isinstance(s.iter, (ast.Tuple, ast.List)) and not s.iter.elts:
                return [], 0
            # S24 a loop over a generator expression binds the element inside the loop
            if (
                isinstance(s.iter, ast.GeneratorExp) and len(s.iter.generators) == 1 and not s.iter.generators[0].ifs
                and bool(s.iter.generators[0].is_async) == isinstance(s, ast.AsyncFor)
                and isinstance(s.target, ast.Name) and not _mentions(s.iter.elt, {s.target.id})
            ):
                g = s.iter.generators[0]
                inner_names = _target_names(g.target)
                # the generator's own variable must not exist outside the generator expression
                outside = 0
                inside_ids = {id(n) for n in ast.walk(s.iter)}
                for n in _own_nodes(self.fn):
                    if isinstance(n, ast.Name) and n.id in inner_names and id(n) not in inside_ids:
                        outside += 1
                if outside == 0:
                    bind = _loc(ast.Assign(targets=[ast.Name(id=s.target.id, ctx=ast.Store())], value=s.iter.elt), s)
                    s.target = _store(g.target)
                    s.iter = g.iter
                    s.body = [bind] + s.body
                    return [s], 0
        if isinstance(s, ast.For) and s.orelse:
            r4 = self._unroll(s, rest)
            if r4 is not None:
                return r4, 0
        if isinstance(s, ast.For) and not s.orelse:
            r4 = self._unroll(s, rest)
            if r4 is not None:
                return r4, 0
            # a loop over one literal element that ends the body of an enclosing loop: its `continue` is the
            # enclosing loop's `continue` (`for m in (match,): ... continue ...`  ->  `m = match; ...`)
            if (
                ctx == "loop" and is_last and isinstance(s.iter, (ast.Tuple, ast.List)) and len(s.iter.elts) == 1
                and isinstance(s.target, ast.Name) and _simple(s.iter.elts[0])
            ):
                def own_break(stmts: List[ast.stmt]) -> bool:
                    for st in stmts:
                        if isinstance(st, ast.Break):
                            return True
                        if isinstance(st, (ast.For, ast.AsyncFor, ast.While)):
                            if own_break(st.orelse):
                                return True
                            continue
                        for f in ("body", "orelse", "finalbody"):
                            if own_break(getattr(st, f, []) or []):
                                return True
                        if isinstance(st, ast.Try) and any(own_break(h.body) for h in st.handlers):
                            return True
                    return False

                x = s.target.id
                facts = NameFacts(self.fn)
                if (not own_break(s.body) and facts.stores.get(x, 0) == 1 and facts.loads.get(x, 0) == _all_loads(s, x)
                        and x not in facts.nested_refs):
                    sub = _Subst(x, s.iter.elts[0])
                    return [sub.visit(copy.deepcopy(b)) for b in s.body], 0
            return None
        if isinstance(s, ast.Try):
            # S16 `try: ...; return e  except: H(jumps)`  ->  `try: ...; r = e  except: H` ; `return r`
            if (
                not s.orelse and not s.finalbody and s.handlers and all(jumps(h.body) for h in s.handlers)
                and s.body and isinstance(s.body[-1], ast.Return) and s.body[-1].value is not None
                and not any(isinstance(n, ast.Return) for b in s.body[:-1] for n in ast.walk(b))
                and not isinstance(s.body[-1].value, (ast.Constant, ast.Name))
            ):
                facts = NameFacts(self.fn)
                used = set(facts.stores) | set(facts.loads) | facts.special
                k = 1
                while f"_result{k if k > 1 else ''}" in used:
                    k += 1
                name = f"_result{k if k > 1 else ''}"
                ret = s.body[-1]
                s.body[-1] = _loc(ast.Assign(targets=[ast.Name(id=name, ctx=ast.Store())], value=ret.value), ret)
                return [s, _loc(ast.Return(value=ast.Name(id=name, ctx=ast.Load())), ret)], 0
            # S10
            if s.orelse and not s.finalbody and s.handlers and all(jumps(h.body) for h in s.handlers):
                tail = s.orelse
                s.orelse = []
                return [s] + tail, 0
            return None
        return None

    # -- S8
    def _anyall(self, e: ast.expr) -> Optional[Tuple[str, ast.GeneratorExp]]:
        neg = False
        if isinstance(e, ast.UnaryOp) and isinstance(e.op, ast.Not):
            neg = True
            e = e.operand
        if (
            isinstance(e, ast.Call) and isinstance(e.func, ast.Name) and e.func.id in ("any", "all")
            and len(e.args) == 1 and not e.keywords and isinstance(e.args[0], (ast.GeneratorExp, ast.ListComp))
            and len(e.args[0].generators) == 1 and not e.args[0].generators[0].is_async
        ):
            kind = e.func.id
            if neg:
                kind = "not " + kind
            return kind, e.args[0]  # type: ignore[return-value]
        return None

    def _loop(self, gen: ast.GeneratorExp, test: ast.expr, body: List[ast.stmt], at: ast.AST) -> ast.stmt:
        g = gen.generators[0]
        for c in reversed(g.ifs):
            test = _loc(ast.BoolOp(op=ast.And(), values=[c, test]), at)
        test = nnf(test)
        inner = _loc(ast.If(test=test, body=body, orelse=[]), at)
        return _loc(ast.For(target=_store(g.target), iter=g.iter, body=[inner], orelse=[], type_comment=None), at)

    def _if_any(self, s: ast.If) -> Optional[List[ast.stmt]]:
        if s.orelse or not jumps(s.body) or len(s.body) != 1:
            return None
        aa = self._anyall(s.test)
        if aa is None:
            return None
        kind, gen = aa
        tn = _target_names(gen.generators[0].target)
        if _mentions(s.body[0], tn):
            return None
        if kind == "any":
            return [self._loop(gen, gen.elt, s.body, s)]
        if kind == "not all":
            return [self._loop(gen, negate(gen.elt), s.body, s)]
        return None

    def _return_any(self, s: ast.Return) -> Optional[List[ast.stmt]]:
        assert s.value is not None
        aa = self._anyall(s.value)
        if aa is None:
            return None
        kind, gen = aa
        hit, miss = {"any": (True, False), "all": (False, True), "not any": (False, True), "not all": (True, False)}[kind]
        test = gen.elt if kind in ("any", "not any") else negate(gen.elt)
        loop = self._loop(gen, test, [_loc(ast.Return(value=ast.Constant(value=hit)), s)], s)
        return [loop, _loc(ast.Return(value=ast.Constant(value=miss)), s)]

    # -- S21 match statements with literal / class / wildcard patterns are if-chains
    def _pattern_test(self, p: ast.AST, subj: ast.expr, binds: List[ast.stmt]) -> Optional[ast.expr]:
        if isinstance(p, ast.MatchValue):
            return ast.Compare(left=copy.deepcopy(subj), ops=[ast.Eq()], comparators=[p.value])
        if isinstance(p, ast.MatchSingleton):
            return ast.Compare(left=copy.deepcopy(subj), ops=[ast.Is()], comparators=[ast.Constant(value=p.value)])
        if isinstance(p, ast.MatchOr):
            if all(isinstance(x, ast.MatchValue) and isinstance(x.value, ast.Constant) for x in p.patterns):
                return ast.Compare(left=copy.deepcopy(subj), ops=[ast.In()],
                                   comparators=[ast.Tuple(elts=[x.value for x in p.patterns], ctx=ast.Load())])  # type: ignore[attr-defined]
            tests = [self._pattern_test(x, subj, binds) for x in p.patterns]
            if any(t is None for t in tests) or binds:
                return None
            return ast.BoolOp(op=ast.Or(), values=tests)  # type: ignore[arg-type]
        if isinstance(p, ast.MatchClass) and not p.patterns and not p.kwd_patterns:
            return ast.Call(func=ast.Name(id="isinstance", ctx=ast.Load()), args=[copy.deepcopy(subj), p.cls], keywords=[])
        if isinstance(p, ast.MatchClass) and (p.kwd_patterns or p.patterns):
            # `Cls(attr=P)`: an instance whose attribute matches P; `str(P)` / `list(P)` / a list subclass of the package
            # with one positional sub-pattern: the subject itself matches P (classes that match as a whole)
            tests_c: List[ast.expr] = [ast.Call(func=ast.Name(id="isinstance", ctx=ast.Load()), args=[copy.deepcopy(subj), p.cls], keywords=[])]
            if p.patterns:
                whole = {"bool", "bytearray", "bytes", "dict", "float", "frozenset", "int", "list", "set", "str", "tuple", "NodeList"}
                if len(p.patterns) != 1 or not (isinstance(p.cls, ast.Name) and p.cls.id in whole):
                    return None
                t0 = self._pattern_test(p.patterns[0], subj, binds)
                if t0 is None:
                    return None
                if not (isinstance(t0, ast.Constant) and t0.value is True):
                    tests_c.append(t0)
            for attr, sub in zip(p.kwd_attrs, p.kwd_patterns):
                ta = self._pattern_test(sub, ast.Attribute(value=copy.deepcopy(subj), attr=attr, ctx=ast.Load()), binds)
                if ta is None:
                    return None
                # (a missing attribute makes the pattern fail; the classes of this package that are matched this way
                # set the attributes they are matched on in their constructors)
                if not (isinstance(ta, ast.Constant) and ta.value is True):
                    tests_c.append(ta)
            return tests_c[0] if len(tests_c) == 1 else ast.BoolOp(op=ast.And(), values=tests_c)
        if isinstance(p, ast.MatchSequence) and not any(isinstance(x, ast.MatchStar) for x in p.patterns):
            # `[]`, `[x]`, `(a, b)`: a sequence (not str / bytes) of exactly that length whose items match
            if not _simple(subj):
                return None
            seq_t = ast.Call(func=ast.Name(id="isinstance", ctx=ast.Load()), args=[copy.deepcopy(subj), ast.Name(id="Sequence", ctx=ast.Load())], keywords=[])
            not_text = ast.UnaryOp(op=ast.Not(), operand=ast.Call(func=ast.Name(id="isinstance", ctx=ast.Load()), args=[
                copy.deepcopy(subj), ast.Tuple(elts=[ast.Name(id="str", ctx=ast.Load()), ast.Name(id="bytes", ctx=ast.Load()), ast.Name(id="bytearray", ctx=ast.Load())],
                                               ctx=ast.Load())], keywords=[]))
            len_t = ast.Compare(left=ast.Call(func=ast.Name(id="len", ctx=ast.Load()), args=[copy.deepcopy(subj)], keywords=[]), ops=[ast.Eq()],
                                comparators=[ast.Constant(value=len(p.patterns))])
            tests_s: List[ast.expr] = [seq_t, not_text, len_t]
            for i_, sub in enumerate(p.patterns):
                item = ast.Subscript(value=copy.deepcopy(subj), slice=ast.Constant(value=i_), ctx=ast.Load())
                ti = self._pattern_test(sub, item, binds)
                if ti is None:
                    return None
                if not (isinstance(ti, ast.Constant) and ti.value is True):
                    tests_s.append(ti)
            return ast.BoolOp(op=ast.And(), values=tests_s)
        if isinstance(p, ast.MatchAs) and p.pattern is None:
            if p.name is not None:
                binds.append(ast.Assign(targets=[ast.Name(id=p.name, ctx=ast.Store())], value=copy.deepcopy(subj)))
            return ast.Constant(value=True)
        if isinstance(p, ast.MatchAs) and p.pattern is not None and p.name is not None:
            t = self._pattern_test(p.pattern, subj, binds)
            if t is None:
                return None
            binds.append(ast.Assign(targets=[ast.Name(id=p.name, ctx=ast.Store())], value=copy.deepcopy(subj)))
            return t
        return None

    def _unmatch(self, s: ast.stmt) -> Optional[List[ast.stmt]]:
        subj = s.subject  # type: ignore[attr-defined]
        pre: List[ast.stmt] = []
        if not _simple(subj):
            facts = NameFacts(self.fn)
            used = set(facts.stores) | set(facts.loads) | facts.special
            k = 1
            while f"_subject{k if k > 1 else ''}" in used:
                k += 1
            name = f"_subject{k if k > 1 else ''}"
            pre.append(_loc(ast.Assign(targets=[ast.Name(id=name, ctx=ast.Store())], value=subj), s))
            subj = ast.Name(id=name, ctx=ast.Load())
        chain: Optional[ast.If] = None
        tail: Optional[ast.If] = None
        default: List[ast.stmt] = []
        for c in s.cases:  # type: ignore[attr-defined]
            binds: List[ast.stmt] = []
            t = self._pattern_test(c.pattern, subj, binds)
            if t is None:
                return None
            if c.guard is not None:
                guard = c.guard
                if binds:
                    # the guard may use the captures: they are written out in it (a capture is a name for a simple
                    # expression - the subject, an item or an attribute of it)
                    bound_names = {b.targets[0].id for b in binds}  # type: ignore[attr-defined]
                    if any(isinstance(n, ast.Name) and n.id in bound_names and isinstance(n.ctx, ast.Store) for n in ast.walk(guard)):
                        return None
                    guard = copy.deepcopy(guard)
                    for b in binds:
                        guard = _Subst(b.targets[0].id, b.value).visit(guard)  # type: ignore[attr-defined]
                t = ast.BoolOp(op=ast.And(), values=[t, guard]) if not (isinstance(t, ast.Constant) and t.value is True) else guard
            body = [_loc(b, s) for b in binds] + list(c.body)
            if isinstance(t, ast.Constant) and t.value is True:
                default = body
                break
            node = _loc(ast.If(test=t, body=body, orelse=[]), c.pattern)
            if chain is None:
                chain = tail = node
            else:
                assert tail is not None
                tail.orelse = [node]
                tail = node
        if chain is None:
            return pre + default
        assert tail is not None
        tail.orelse = default
        return pre + [chain]

    # -- S22 `if (m := f(x)) ...`  ->  `m = f(x)` ; `if m ...`
    def _unwalrus(self, s: ast.stmt) -> Optional[List[ast.stmt]]:
        heads = _head_exprs(s)
        for h in heads:
            walrus = [n for n in ast.walk(h) if isinstance(n, ast.NamedExpr)]
            if not walrus:
                continue
            w = walrus[0]
            # evaluated exactly once, unconditionally, with no call before it
            marker = "__walrus_probe__"
            probe = copy.deepcopy(h)
            for n in ast.walk(probe):
                for f, v in ast.iter_fields(n):
                    if isinstance(v, ast.NamedExpr) and ast.dump(v) == ast.dump(w):
                        setattr(n, f, ast.Name(id=marker, ctx=ast.Load()))
                    elif isinstance(v, list):
                        for k, x in enumerate(v):
                            if isinstance(x, ast.NamedExpr) and ast.dump(x) == ast.dump(w):
                                v[k] = ast.Name(id=marker, ctx=ast.Load())
            if isinstance(probe, ast.NamedExpr) and ast.dump(probe) == ast.dump(w):
                probe = ast.Name(id=marker, ctx=ast.Load())
            if _unconditional_loads(probe, marker) != 1 or _all_loads(probe, marker) != 1 or _effects_before(probe, marker):
                continue
            first = _loc(ast.Assign(targets=[ast.Name(id=w.target.id, ctx=ast.Store())], value=w.value), s)
            new_h = _Subst(marker, ast.Name(id=w.target.id, ctx=ast.Load())).visit(probe)
            _replace_head(s, h, new_h)
            return [first, s]
        return None

    # -- S25
    def _decidable(self, t: ast.expr) -> bool:
        """isinstance / identity / equality-with-constant tests over names and attribute paths."""
        if isinstance(t, ast.Call) and isinstance(t.func, ast.Name) and t.func.id == "isinstance" and len(t.args) == 2 and not t.keywords:
            return _simple(t.args[0]) and not isinstance(t.args[0], ast.Constant)
        if isinstance(t, ast.Compare) and len(t.ops) == 1 and isinstance(t.ops[0], (ast.Is, ast.IsNot, ast.Eq, ast.NotEq)):
            return _simple(t.left) and not isinstance(t.left, ast.Constant) and isinstance(t.comparators[0], (ast.Constant, ast.Name, ast.Attribute)) and _simple(t.comparators[0])
        return False

    def _propagate(self, s: ast.If) -> bool:
        atoms_true = s.test.values if isinstance(s.test, ast.BoolOp) and isinstance(s.test.op, ast.And) else [s.test]
        atoms_false = s.test.values if isinstance(s.test, ast.BoolOp) and isinstance(s.test.op, ast.Or) else [s.test]
        changed = False
        for atoms, blk_name, val in ((atoms_true, "body", True), (atoms_false, "orelse", False)):
            blk = getattr(s, blk_name)
            for a in atoms:
                if not self._decidable(a):
                    continue
                roots = {n.id for n in ast.walk(a) if isinstance(n, ast.Name)}
                attrs = {n.attr for n in ast.walk(a) if isinstance(n, ast.Attribute)}
                if attrs & self.mutable_attrs:
                    continue
                stored = any(
                    (isinstance(n, ast.Name) and n.id in roots and isinstance(n.ctx, (ast.Store, ast.Del)))
                    or (isinstance(n, ast.Attribute) and isinstance(n.ctx, (ast.Store, ast.Del)) and n.attr in attrs)
                    for st in blk for n in ast.walk(st)
                )
                if stored:
                    continue
                key = ast.dump(a)
                neg = ast.dump(negate(copy.deepcopy(a)))
                sub = _Known(key, neg, val)
                new_blk = []
                for st in blk:
                    r = sub.visit(st)
                    new_blk.extend(r if isinstance(r, list) else [r])
                if sub.hits:
                    changed = True
                    setattr(s, blk_name, new_blk or [_loc(ast.Pass(), s)])
                    blk = getattr(s, blk_name)
        return changed

    # -- S11
    def _is_reduce(self, e: ast.expr) -> bool:
        return (
            isinstance(e, ast.Call) and len(e.args) == 3 and not e.keywords
            and ((isinstance(e.func, ast.Attribute) and e.func.attr == "reduce" and isinstance(e.func.value, ast.Name) and e.func.value.id == "functools")
                 or (isinstance(e.func, ast.Name) and e.func.id == "reduce"))
        )

    def _unreduce(self, e: ast.expr, acc: Optional[str], at: ast.stmt) -> Optional[List[ast.stmt]]:
        if acc is None or not self._is_reduce(e):
            return None
        f, it, init = e.args  # type: ignore[attr-defined]
        if _mentions(it, {acc}) or _mentions(f, {acc}):
            return None
        facts = NameFacts(self.fn)
        used = set(facts.stores) | set(facts.loads) | facts.special
        k = 1
        while f"_item{k if k > 1 else ''}" in used:
            k += 1
        item = f"_item{k if k > 1 else ''}"
        a_load = ast.Name(id=acc, ctx=ast.Load())
        i_load = ast.Name(id=item, ctx=ast.Load())
        if isinstance(f, ast.Lambda):
            la = f.args
            if la.vararg or la.kwarg or la.kwonlyargs or la.defaults or la.posonlyargs or len(la.args) != 2:
                return None
            step = _Subst(la.args[0].arg, a_load).visit(copy.deepcopy(f.body))
            step = _Subst(la.args[1].arg, i_load).visit(step)
        elif _simple(f):
            step = ast.Call(func=f, args=[a_load, i_load], keywords=[])
        else:
            return None
        first = _loc(ast.Assign(targets=[ast.Name(id=acc, ctx=ast.Store())], value=init), at)
        body = _loc(ast.Assign(targets=[ast.Name(id=acc, ctx=ast.Store())], value=step), at)
        loop = _loc(ast.For(target=ast.Name(id=item, ctx=ast.Store()), iter=it, body=[body], orelse=[], type_comment=None), at)
        return [first, loop]

    # -- S37 dispatch tables
    def _dict_table_of(self, e: ast.expr) -> Optional[ast.Dict]:
        if isinstance(e, ast.Name):
            t = getattr(self, "dict_tables", {}).get(e.id)
            if t is not None and not NameFacts(self.fn).stores.get(e.id) and e.id not in {a.arg for a in ast.walk(self.fn) if isinstance(a, ast.arg)}:
                return t
            return None
        cls = getattr(self, "current_class", None)
        if cls is not None and isinstance(e, ast.Attribute) and isinstance(e.value, ast.Name) and e.value.id in ("self", "cls", cls):
            return getattr(self, "class_dict_tables", {}).get(cls, {}).get(e.attr)
        return None

    @staticmethod
    def _apply_entry(stmts: List[ast.stmt], name: str, value: ast.expr) -> Optional[List[ast.stmt]]:
        """`stmts` with the local `name` standing for the table entry `value`: a lambda entry that is called with
        simple arguments is its body; any other entry must be simple to be written where the name was."""
        out = [copy.deepcopy(x) for x in stmts]
        if isinstance(value, ast.Lambda):
            la = value.args
            if la.vararg or la.kwarg or la.kwonlyargs or la.defaults or la.posonlyargs:
                return None
            params = [a.arg for a in la.args]
            ok = True

            class _B(ast.NodeTransformer):
                def visit_Call(self, node: ast.Call) -> ast.AST:
                    nonlocal ok
                    self.generic_visit(node)
                    if isinstance(node.func, ast.Name) and node.func.id == name:
                        if node.keywords or len(node.args) != len(params) or not all(_simple(a) for a in node.args):
                            ok = False
                            return node
                        body = copy.deepcopy(value.body)
                        inner_bound = {n.id for n in ast.walk(body) if isinstance(n, ast.Name) and isinstance(n.ctx, ast.Store)}
                        if inner_bound:
                            ok = False
                            return node
                        # simultaneous substitution (an argument may be spelled like another parameter)
                        mapping = dict(zip(params, node.args))

                        class _P(ast.NodeTransformer):
                            def visit_Name(self, n2: ast.Name) -> ast.AST:
                                if n2.id in mapping and isinstance(n2.ctx, ast.Load):
                                    return _loc(copy.deepcopy(mapping[n2.id]), n2)
                                return n2

                            def visit_Lambda(self, n2: ast.Lambda) -> ast.AST:
                                nonlocal ok
                                ok = False
                                return n2

                        return _loc(_P().visit(body), node)
                    return node

            out = [_B().visit(x) for x in out]
            if not ok or any(isinstance(n, ast.Name) and n.id == name and isinstance(n.ctx, ast.Load) for x in out for n in ast.walk(x)):
                return None
            return out
        if not (_simple(value) or (isinstance(value, (ast.Tuple, ast.List)) and all(_simple(y) for y in value.elts))):
            return None
        return [_Subst(name, value).visit(x) for x in out]

    def _dict_dispatch(self, s: ast.stmt, rest: List[ast.stmt]) -> Optional[Tuple[List[ast.stmt], int]]:
        """`f = TABLE.get(k)` ; `if f is not None: B(f)`  ->  `if k == K1: B(V1)` ; `if k == K2: B(V2)` ...
        (TABLE a dict display with literal keys that nothing writes to; an entry that is None has no branch).
        Also the mirrored guard: `f = TABLE.get(k)` ; `if f is None: A(jumps)` ; R(f) (jumps)."""
        if not (isinstance(s, ast.Assign) and len(s.targets) == 1 and isinstance(s.targets[0], ast.Name) and rest and isinstance(rest[0], ast.If)):
            return None
        v = s.value
        if not (isinstance(v, ast.Call) and isinstance(v.func, ast.Attribute) and v.func.attr == "get" and not v.keywords and 1 <= len(v.args) <= 2):  # noqa: PLR2004
            return None
        if len(v.args) == 2 and not (isinstance(v.args[1], ast.Constant) and v.args[1].value is None):  # noqa: PLR2004
            return None
        table = self._dict_table_of(v.func.value)
        key = v.args[0]
        if table is None or not isinstance(key, ast.Name):
            return None
        x = s.targets[0].id
        facts = NameFacts(self.fn)
        if facts.stores.get(x, 0) != 1 or x in facts.nested_refs or x == key.id:
            return None
        guard = rest[0]
        t = guard.test
        if not (isinstance(t, ast.Compare) and len(t.ops) == 1 and isinstance(t.ops[0], (ast.Is, ast.IsNot)) and isinstance(t.left, ast.Name)
                and t.left.id == x and _is_const(t.comparators[0], None)):
            return None
        present_first = isinstance(t.ops[0], ast.IsNot)
        if present_first:
            if guard.orelse:
                return None
            branch, consumed, tail = guard.body, 1, []  # type: List[ast.stmt], int, List[ast.stmt]
        else:
            # `if f is None: A` ; R  - A leaves, R uses f and leaves
            if guard.orelse or not jumps(guard.body) or not jumps(rest[1:]):
                return None
            branch, consumed, tail = rest[1:], len(rest), list(guard.body)
        used_elsewhere = facts.loads.get(x, 0) - sum(1 for b in branch for n in ast.walk(b) if isinstance(n, ast.Name) and n.id == x and isinstance(n.ctx, ast.Load)) - 1
        if used_elsewhere != 0:
            return None
        if any(isinstance(n, ast.Name) and n.id == key.id and isinstance(n.ctx, ast.Store) for b in branch for n in ast.walk(b)):
            return None
        out: List[ast.stmt] = []
        for k_, val in zip(table.keys, table.values):
            if isinstance(val, ast.Constant) and val.value is None:
                continue
            body = self._apply_entry(branch, x, val)
            if body is None:
                return None
            test = _loc(ast.Compare(left=ast.Name(id=key.id, ctx=ast.Load()), ops=[ast.Eq()], comparators=[copy.deepcopy(k_)]), s)
            out.append(_loc(ast.If(test=test, body=body, orelse=[]), s))
        if not jumps(branch) and len(out) > 1:
            # at most one key matches: an if / elif chain
            chain: List[ast.stmt] = []
            for node in reversed(out):
                node.orelse = chain  # type: ignore[attr-defined]
                chain = [node]
            out = chain
        return out + tail, consumed

    @staticmethod
    def _chained_generator(e: ast.expr) -> Optional[ast.GeneratorExp]:
        """`chain.from_iterable(<generator expression>)` (also `itertools.chain.from_iterable`), synchronous generators only."""
        if not (isinstance(e, ast.Call) and isinstance(e.func, ast.Attribute) and e.func.attr == "from_iterable" and len(e.args) == 1
                and not e.keywords and isinstance(e.args[0], ast.GeneratorExp)):
            return None
        base = e.func.value
        if not ((isinstance(base, ast.Name) and base.id == "chain") or (
                isinstance(base, ast.Attribute) and base.attr == "chain" and isinstance(base.value, ast.Name) and base.value.id == "itertools")):
            return None
        g = e.args[0]
        if any(gen.is_async for gen in g.generators):
            return None
        return g

    # -- S40 the rows of a keyed table
    def _table_rows(self, s: ast.stmt) -> Optional[List[ast.stmt]]:
        """`if k in TABLE: for row in TABLE[k]: B` [else: E]  ->  `if k == K1: for row in V1: B` elif ... [else: E]
        (TABLE a dict display with literal keys that nothing writes to)."""
        if not (isinstance(s, ast.If) and isinstance(s.test, ast.Compare) and len(s.test.ops) == 1 and isinstance(s.test.ops[0], ast.In)
                and _simple(s.test.left) and s.body and isinstance(s.body[0], ast.For) and not s.body[0].orelse):
            return None
        table = self._dict_table_of(s.test.comparators[0])
        loop = s.body[0]
        after = s.body[1:]
        if table is None or not table.keys or not (isinstance(loop.iter, ast.Subscript)
                                                   and ast.dump(loop.iter.slice) == ast.dump(s.test.left)
                                                   and ast.dump(loop.iter.value) == ast.dump(s.test.comparators[0])):
            return None
        if after and not (len(after) == 1 and isinstance(after[0], (ast.Continue, ast.Break, ast.Return))):
            return None
        if any(k_ is None or not _simple(k_) for k_ in table.keys):
            return None
        if len({ast.dump(k_) for k_ in table.keys}) != len(table.keys):
            return None
        chain: List[ast.stmt] = list(s.orelse)
        for k_, v_ in reversed(list(zip(table.keys, table.values))):
            test = _loc(ast.Compare(left=copy.deepcopy(s.test.left), ops=[ast.Eq()], comparators=[copy.deepcopy(k_)]), s)
            new_loop = _loc(ast.For(target=copy.deepcopy(loop.target), iter=copy.deepcopy(v_), body=[copy.deepcopy(b) for b in loop.body],
                                    orelse=[], type_comment=None), loop)
            chain = [_loc(ast.If(test=test, body=[new_loop] + [copy.deepcopy(a) for a in after], orelse=chain), s)]
        return chain

    # -- S38 a two-way choice written as a display keyed by a truth value
    @staticmethod
    def _is_bool_expr(e: ast.expr) -> bool:
        if isinstance(e, ast.Call) and isinstance(e.func, ast.Name) and e.func.id in ("isinstance", "issubclass", "callable", "hasattr") and not e.keywords:
            return all(_simple(a) or (isinstance(a, ast.Tuple) and all(_simple(y) for y in a.elts)) for a in e.args)
        if isinstance(e, ast.UnaryOp) and isinstance(e.op, ast.Not):
            return not any(isinstance(n, (ast.Call, ast.Await, ast.NamedExpr)) for n in ast.walk(e.operand)) or Canon._is_bool_expr(e.operand)
        if isinstance(e, ast.Compare) and len(e.ops) == 1 and isinstance(e.ops[0], (ast.Is, ast.IsNot)):
            return _simple(e.left) and _simple(e.comparators[0])
        return False

    def _bool_pick(self, s: ast.stmt, rest: List[ast.stmt]) -> Optional[Tuple[List[ast.stmt], int]]:
        """`t = {True: A, False: B}` ; ... `t[c]` ... (the only use, c a truth value)  ->  `(A if c else B)`"""
        name = _plain_target(s) if isinstance(s, ast.Assign) else None
        if name is None or not isinstance(s.value, ast.Dict) or len(s.value.keys) != 2 or not rest:  # type: ignore[attr-defined]
            return None
        d = s.value  # type: ignore[attr-defined]
        by_key = {}
        for k_, v_ in zip(d.keys, d.values):
            if not (isinstance(k_, ast.Constant) and isinstance(k_.value, bool)) or not _simple(v_):
                return None
            by_key[k_.value] = v_
        if set(by_key) != {True, False}:
            return None
        facts = NameFacts(self.fn)
        if facts.stores.get(name, 0) != 1 or facts.loads.get(name, 0) != 1 or name in facts.nested_refs or name in facts.special:
            return None
        stored = set(facts.stores)
        if any(isinstance(n, ast.Name) and n.id in stored for v_ in by_key.values() for n in ast.walk(v_)):
            return None
        hits = []
        for x in rest:
            for n in ast.walk(x):
                if isinstance(n, ast.Subscript) and isinstance(n.value, ast.Name) and n.value.id == name and isinstance(n.ctx, ast.Load):
                    hits.append(n)
        if len(hits) != 1 or not self._is_bool_expr(hits[0].slice):
            return None
        hit = hits[0]

        class _R(ast.NodeTransformer):
            def visit_Subscript(self, node: ast.Subscript) -> ast.AST:
                if node is hit:
                    return _loc(ast.IfExp(test=node.slice, body=copy.deepcopy(by_key[True]), orelse=copy.deepcopy(by_key[False])), node)
                return self.generic_visit(node)

        return [_R().visit(x) for x in rest], len(rest)

    # -- S39 a call whose callee is a conditional expression
    def _conditional_callee(self, s: ast.stmt) -> Optional[List[ast.stmt]]:
        """`return (A if c else B)(args).m()`  ->  `if c: return A(args).m()` else: `return B(args).m()`
        (the conditional is the first thing the statement evaluates, c is a truth value, A and B are simple)."""
        if not isinstance(s, (ast.Return, ast.Assign, ast.Expr)) or s.value is None:
            return None
        if isinstance(s, ast.Assign) and _plain_target(s) is None:
            return None
        e = s.value
        found = None
        while True:
            if isinstance(e, ast.Call):
                if isinstance(e.func, ast.IfExp):
                    found = e
                    break
                e = e.func
            elif isinstance(e, ast.Attribute):
                e = e.value
            elif isinstance(e, ast.Await):
                e = e.value
            else:
                return None
        ie = found.func
        if not (self._is_bool_expr(ie.test) and _simple(ie.body) and _simple(ie.orelse)):
            return None

        def with_callee(callee: ast.expr) -> ast.stmt:
            new = copy.deepcopy(s)
            for n in ast.walk(new):
                if isinstance(n, ast.Call) and isinstance(n.func, ast.IfExp) and ast.dump(n.func) == ast.dump(ie):
                    n.func = copy.deepcopy(callee)
                    break
            return new

        return [_loc(ast.If(test=ie.test, body=[with_callee(ie.body)], orelse=[with_callee(ie.orelse)]), s)]

    # -- S12
    def _class_table(self, it: ast.expr) -> Optional[ast.expr]:
        cls = getattr(self, "current_class", None)
        if cls is None or not isinstance(it, ast.Attribute) or not isinstance(it.value, ast.Name):
            return None
        if it.value.id not in ("self", "cls", cls):
            return None
        return getattr(self, "class_tables", {}).get(cls, {}).get(it.attr)

    def _method_items(self, stmts: List[ast.stmt]) -> Optional[List[ast.stmt]]:
        """After a class-level table was written out: an item that names a method of the class may only be called
        with `self` as its first argument, and that call is `self.<method>(...)`."""
        cls = getattr(self, "current_class", None)
        methods = getattr(self, "class_methods", {}).get(cls or "", set())
        if not methods:
            return stmts
        ok = True

        class _M(ast.NodeTransformer):
            def visit_Call(self, node: ast.Call) -> ast.AST:
                self.generic_visit(node)
                if isinstance(node.func, ast.Name) and node.func.id in methods and node.args and isinstance(node.args[0], ast.Name) and node.args[0].id == "self":
                    return _loc(ast.Call(func=ast.Attribute(value=ast.Name(id="self", ctx=ast.Load()), attr=node.func.id, ctx=ast.Load()),
                                         args=node.args[1:], keywords=node.keywords), node)
                return node

        out = [_M().visit(x) for x in stmts]
        local = NameFacts(self.fn).stores
        for x in out:
            for n in ast.walk(x):
                if isinstance(n, ast.Name) and n.id in methods and isinstance(n.ctx, ast.Load) and not local.get(n.id):
                    ok = False
        return out if ok else None

    def _search_loop(self, s: ast.For, it: ast.expr) -> Optional[List[ast.stmt]]:
        """`for x in (a, b): if c(x): B; break` [`else: E`] with every path through B leaving the iteration (break,
        raise, return, continue): an if / elif chain, the `else` clause last."""
        if not (1 <= len(it.elts) <= 8) or len(s.body) != 1 or not isinstance(s.body[0], ast.If) or s.body[0].orelse:  # type: ignore[attr-defined]
            return None
        guard = s.body[0]
        if not jumps(guard.body):
            return None

        def tails_ok(stmts: List[ast.stmt]) -> bool:
            # a `break` / `continue` only as the last statement of a branch
            for i, st in enumerate(stmts):
                if isinstance(st, (ast.Break, ast.Continue)):
                    if i != len(stmts) - 1:
                        return False
                elif isinstance(st, ast.If):
                    if not tails_ok(st.body) or not tails_ok(st.orelse):
                        return False
                    if (any(isinstance(n, (ast.Break, ast.Continue)) for b in st.body + st.orelse for n in ast.walk(b))) and i != len(stmts) - 1:
                        return False
                elif any(isinstance(n, (ast.Break, ast.Continue)) for n in ast.walk(st)):
                    return False
            return True

        def nest(stmts: List[ast.stmt]) -> List[ast.stmt]:
            # what follows a guard that leaves the block moves into its `else`, so that a `break` ends its branch
            out_: List[ast.stmt] = []
            for i, st in enumerate(stmts):
                if isinstance(st, ast.If):
                    st = _loc(ast.If(test=st.test, body=nest(st.body), orelse=nest(st.orelse)), st)
                    following = stmts[i + 1:]
                    if following and jumps(st.body) and not st.orelse and any(isinstance(n, ast.Break) for b in st.body for n in ast.walk(b)):
                        st.orelse = nest(following)
                        out_.append(st)
                        return out_
                out_.append(st)
            return out_

        guard = _loc(ast.If(test=guard.test, body=nest([copy.deepcopy(b) for b in guard.body]), orelse=[]), guard)
        if not tails_ok(guard.body) or any(isinstance(n, ast.Continue) for b in guard.body for n in ast.walk(b)):
            return None
        if isinstance(s.target, ast.Name):
            names = [s.target.id]
            rows = [[e] for e in it.elts]  # type: ignore[attr-defined]
        elif isinstance(s.target, ast.Tuple) and all(isinstance(t, ast.Name) for t in s.target.elts):
            names = [t.id for t in s.target.elts]  # type: ignore[attr-defined]
            if not all(isinstance(e, (ast.Tuple, ast.List)) and len(e.elts) == len(names) for e in it.elts):  # type: ignore[attr-defined]
                return None
            rows = [list(e.elts) for e in it.elts]  # type: ignore[attr-defined]
        else:
            return None
        if not all(_simple(v) or (isinstance(v, (ast.Tuple, ast.List)) and all(_simple(y) for y in v.elts)) for r in rows for v in r):
            return None
        facts = NameFacts(self.fn)
        for x in names:
            if facts.stores.get(x, 0) != 1 or x in facts.nested_refs:
                return None

        class _NoBreak(ast.NodeTransformer):
            def visit_Break(self, node: ast.Break) -> ast.AST:
                return _loc(ast.Pass(), node)

            def visit_For(self, node: ast.For) -> ast.AST:
                return node

            visit_While = visit_AsyncFor = visit_For  # type: ignore[assignment]

        # the loop variables keep the values of the row that matched: they are assigned in its branch
        chain: List[ast.stmt] = list(copy.deepcopy(s.orelse))
        for row in reversed(rows):
            test = copy.deepcopy(guard.test)
            body = [copy.deepcopy(b) for b in guard.body]
            binds: List[ast.stmt] = []
            for x, v in zip(names, row):
                test = _Subst(x, v).visit(test)
                if facts.loads.get(x, 0) == _all_loads(s, x):
                    # not read after the loop: the value is written where the variable was
                    body = [_Subst(x, v).visit(b) for b in body]
                else:
                    binds.append(_loc(ast.Assign(targets=[ast.Name(id=x, ctx=ast.Store())], value=copy.deepcopy(v)), s))
            body = [_NoBreak().visit(b) for b in body]
            chain = [_loc(ast.If(test=test, body=binds + body, orelse=chain), s)]
        return chain

    def _unroll(self, s: ast.For, rest: List[ast.stmt]) -> Optional[List[ast.stmt]]:
        it = s.iter
        from_class = False
        if isinstance(it, ast.Name) and it.id in getattr(self, "constants", {}) and NameFacts(self.fn).stores.get(it.id, 0) == 0:
            it = self.constants[it.id]
        elif self._class_table(it) is not None:
            it = self._class_table(it)  # type: ignore[assignment]
            from_class = True
        searches = any(isinstance(n, ast.Break) for b in s.body for n in ast.walk(b)) or (
            # `for typ, names in TABLE: if isinstance(obj, typ): return t in names` - the first row that matches ends it
            len(s.body) == 1 and isinstance(s.body[0], ast.If) and not s.body[0].orelse and jumps(s.body[0].body)
            and not any(isinstance(n, ast.Continue) for n in ast.walk(s.body[0])))
        if isinstance(it, (ast.Tuple, ast.List)) and searches:
            found = self._search_loop(s, it)
            if found is not None:
                return self._method_items(found) if from_class else found
        if s.orelse:
            return None
        if not isinstance(it, (ast.Tuple, ast.List)) or not (1 <= len(it.elts) <= 4):
            return None
        if from_class:
            return None  # (plain loops over class tables: not needed so far)
        if isinstance(s.target, ast.Tuple) and all(isinstance(t, ast.Name) for t in s.target.elts):
            # `for a, b in ((1, 2), (3, 4)): S(a, b)`
            names = [t.id for t in s.target.elts]  # type: ignore[attr-defined]
            if not all(isinstance(e, (ast.Tuple, ast.List)) and len(e.elts) == len(names) and all(_simple(y) or isinstance(y, ast.Lambda) for y in e.elts)
                       for e in it.elts):
                return None
            facts = NameFacts(self.fn)
            if len(set(names)) != len(names):
                return None
            for x in names:
                # every use of x is inside a loop that binds it (several sibling loops may share the names)
                loops_t = [n for n in _own_nodes(self.fn) if isinstance(n, (ast.For, ast.AsyncFor)) and isinstance(n.target, ast.Tuple)
                           and any(isinstance(t, ast.Name) and t.id == x for t in n.target.elts)]
                nested_t = any(a is not b and any(c is b for c in ast.walk(a)) for a in loops_t for b in loops_t)
                if nested_t or facts.loads.get(x, 0) != sum(_all_loads(n, x) for n in loops_t) or facts.stores.get(x, 0) != len(loops_t) \
                        or x in facts.nested_refs:
                    return None
            body = _unguard(s.body)
            if body is None or any(isinstance(n, (ast.Break, ast.Continue)) for b in body for n in ast.walk(b)):
                return None
            out2: List[ast.stmt] = []
            for e in it.elts:
                row = [copy.deepcopy(b) for b in body]
                for x, v in zip(names, e.elts):  # type: ignore[attr-defined]
                    if isinstance(v, ast.Lambda):
                        applied = self._apply_entry(row, x, v)  # (the row's function, called where the name was)
                        if applied is None:
                            return None
                        row = applied
                    else:
                        row = [_Subst(x, v).visit(c) for c in row]
                out2.extend(row)
            return out2
        if not isinstance(s.target, ast.Name) or not all(_simple(e) for e in it.elts):
            return None
        x = s.target.id
        # x must not be read after the loop (it would keep its last value)
        facts = NameFacts(self.fn)
        loops_x = [n for n in _own_nodes(self.fn) if isinstance(n, (ast.For, ast.AsyncFor)) and isinstance(n.target, ast.Name) and n.target.id == x]
        nested = any(a is not b and any(c is b for c in ast.walk(a)) for a in loops_x for b in loops_x)
        inside = sum(_all_loads(n, x) for n in loops_x)
        if nested or facts.loads.get(x, 0) != inside or facts.stores.get(x, 0) != len(loops_x) or x in facts.nested_refs:
            return None
        body = _unguard(s.body)
        if body is None:
            return None
        if any(isinstance(n, (ast.Break, ast.Continue)) for b in body for n in ast.walk(b)):
            return None
        out: List[ast.stmt] = []
        for e in it.elts:
            sub = _Subst(x, e)
            for b in body:
                out.append(sub.visit(copy.deepcopy(b)))
        return out

    # -- S7 / S11
    def _accumulate(self, s: ast.Assign, rest: List[ast.stmt]) -> Optional[Tuple[List[ast.stmt], int]]:
        t = s.targets[0]
        if not isinstance(t, ast.Name) or not rest or not isinstance(rest[0], (ast.For, ast.AsyncFor)):
            return None
        loop = rest[0]
        if loop.orelse:
            return None
        v = t.id
        if _mentions(loop.iter, {v}) or _mentions(loop.target, {v}):
            return None
        # guards `if g: continue` followed by one statement
        conds: List[ast.expr] = []
        body = list(loop.body)
        while len(body) > 1 and isinstance(body[0], ast.If) and not body[0].orelse and len(body[0].body) == 1 and isinstance(
            body[0].body[0], ast.Continue
        ):
            conds.append(negate(body[0].test))
            body = body[1:]
        if len(body) == 1 and isinstance(body[0], ast.If) and not body[0].orelse and len(body[0].body) == 1:
            c = nnf(body[0].test)
            conds.extend(c.values if isinstance(c, ast.BoolOp) and isinstance(c.op, ast.And) else [c])
            body = body[0].body
        if len(body) != 1:
            return None
        one = body[0]
        if any(_mentions(c, {v}) for c in conds):
            return None
        is_async = 1 if isinstance(loop, ast.AsyncFor) else 0
        gen = ast.comprehension(target=_store(loop.target), iter=loop.iter, ifs=conds, is_async=is_async)
        empty_list = (isinstance(s.value, ast.List) and not s.value.elts) or _is_call(s.value, "list", 0)
        empty_dict = (isinstance(s.value, ast.Dict) and not s.value.keys) or _is_call(s.value, "dict", 0)
        empty_set = _is_call(s.value, "set", 0)
        new_value: Optional[ast.expr] = None
        if isinstance(one, ast.Expr) and isinstance(one.value, ast.Call) and isinstance(one.value.func, ast.Attribute) and isinstance(
            one.value.func.value, ast.Name
        ) and one.value.func.value.id == v and len(one.value.args) == 1 and not one.value.keywords:
            arg = one.value.args[0]
            if _mentions(arg, {v}):
                return None
            if empty_list and one.value.func.attr == "append":
                new_value = ast.ListComp(elt=arg, generators=[gen])
            elif empty_set and one.value.func.attr == "add":
                new_value = ast.SetComp(elt=arg, generators=[gen])
        elif (
            empty_dict and isinstance(one, ast.Assign) and len(one.targets) == 1 and isinstance(one.targets[0], ast.Subscript)
            and isinstance(one.targets[0].value, ast.Name) and one.targets[0].value.id == v
            and not _mentions(one.value, {v}) and not _mentions(one.targets[0].slice, {v})
        ):
            new_value = ast.DictComp(key=one.targets[0].slice, value=one.value, generators=[gen])
        if new_value is None:
            return None
        return [_loc(ast.Assign(targets=[t], value=_loc(new_value, loop)), s)], 1

    # -- S9
    def lets(self, fn: ast.AST, body: List[ast.stmt]) -> List[ast.stmt]:
        for _ in range(50):
            facts = NameFacts(fn)
            if not self._one_let(fn, body, facts):
                break
            self.changed = True
        return body

    def _candidate(self, s: ast.stmt, facts: NameFacts) -> Optional[Tuple[str, ast.expr]]:
        if isinstance(s, ast.Assign) and len(s.targets) == 1 and isinstance(s.targets[0], ast.Name):
            name, value = s.targets[0].id, s.value
        elif isinstance(s, ast.AnnAssign) and isinstance(s.target, ast.Name) and s.value is not None:
            name, value = s.target.id, s.value
        else:
            return None
        if facts.stores.get(name, 0) != 1 or name in facts.special or name in facts.nested_refs:
            return None
        if any(isinstance(n, (ast.Yield, ast.YieldFrom, ast.NamedExpr)) for n in ast.walk(value)):
            return None
        return name, value

    def _split_rebinding(self, fn: ast.AST, facts: NameFacts) -> bool:
        """S13: `x = a` ; ... ; `x = f(x)` in one block: the first x becomes a name of its own."""
        for blk in _blocks(fn):
            for i, s in enumerate(blk):
                if not (isinstance(s, ast.Assign) and len(s.targets) == 1 and isinstance(s.targets[0], ast.Name)):
                    continue
                x = s.targets[0].id
                if x in facts.nested_refs or (x in facts.special and x not in facts.loop_targets) or facts.stores.get(x, 0) < 2:
                    continue
                if x in facts.loop_targets:
                    continue
                for j in range(i + 1, len(blk)):
                    t = blk[j]
                    stores_here = [n for n in ast.walk(t) if isinstance(n, ast.Name) and n.id == x and isinstance(n.ctx, (ast.Store, ast.Del))]
                    if not stores_here:
                        continue
                    if isinstance(t, ast.Assign) and len(t.targets) == 1 and isinstance(t.targets[0], ast.Name) and len(stores_here) == 1:
                        between = blk[i + 1:j]
                        n_uses = sum(_all_loads(b, x) for b in between) + _all_loads(t.value, x)
                        if n_uses == 0:
                            break
                        used = set(facts.stores) | set(facts.loads) | facts.special
                        k = 1
                        while f"{x}__{k}" in used:
                            k += 1
                        new = f"{x}__{k}"
                        ren = _Subst(x, ast.Name(id=new, ctx=ast.Load()))
                        for m in range(i + 1, j):
                            blk[m] = ren.visit(blk[m])
                        t.value = ren.visit(t.value)
                        s.targets[0].id = new
                        return True
                    break
        return False

    def _beta(self, fn: ast.AST, blk: List[ast.stmt], i: int, name: str, lam: ast.Lambda, facts: NameFacts) -> bool:
        la = lam.args
        if la.vararg or la.kwarg or la.kwonlyargs or la.defaults or la.posonlyargs:
            return False
        params = [a.arg for a in la.args]
        # free names of the body must not be re-bound after the lambda is created
        free = {n.id for n in ast.walk(lam.body) if isinstance(n, ast.Name)} - set(params)
        if any(facts.stores.get(f, 0) > 1 for f in free) or any(isinstance(n, (ast.Yield, ast.YieldFrom, ast.Await)) for n in ast.walk(lam.body)):
            return False
        calls_ = []
        for st in blk[i + 1:]:
            for n in ast.walk(st):
                if isinstance(n, ast.Call) and isinstance(n.func, ast.Name) and n.func.id == name:
                    calls_.append(n)
        total = sum(_all_loads(st, name) for st in blk[i + 1:])
        if not calls_ or total != len(calls_) or total != facts.loads.get(name, 0):
            return False
        for c in calls_:
            if c.keywords or len(c.args) != len(params) or any(isinstance(a, ast.Starred) for a in c.args):
                return False
            if not all(_simple(a) or _all_loads(lam.body, p) <= 1 for p, a in zip(params, c.args)):
                return False

        class _B(ast.NodeTransformer):
            def visit_Call(self, node: ast.Call) -> ast.AST:
                self.generic_visit(node)
                if isinstance(node.func, ast.Name) and node.func.id == name:
                    body = copy.deepcopy(lam.body)
                    for p, a in zip(params, node.args):
                        body = _Subst(p, a).visit(body)
                    return _loc(body, node)
                return node

        for k in range(i + 1, len(blk)):
            blk[k] = _B().visit(blk[k])
        del blk[i]
        return True

    def _stable_flag(self, e: ast.expr, facts: NameFacts) -> bool:
        """isinstance() / `is` tests (and their and/or/not) over names that are never re-bound."""
        def stable(x: ast.expr) -> bool:
            if isinstance(x, ast.Constant):
                return True
            if isinstance(x, ast.Name):
                return facts.stores.get(x.id, 0) == 0
            if isinstance(x, ast.Tuple):
                return all(stable(y) for y in x.elts)
            if _is_path(x):
                return facts.stores.get(_path_root(x), 0) == 0 and not (set(_path_attrs(x)) & (self.mutable_attrs | facts.attr_stores))
            return False
        if isinstance(e, ast.Call) and isinstance(e.func, ast.Name) and e.func.id == "isinstance" and len(e.args) == 2 and not e.keywords:
            return stable(e.args[0]) and stable(e.args[1])
        if isinstance(e, ast.Compare) and len(e.ops) == 1 and isinstance(e.ops[0], (ast.Is, ast.IsNot)):
            return stable(e.left) and stable(e.comparators[0])
        if isinstance(e, ast.UnaryOp) and isinstance(e.op, ast.Not):
            return self._stable_flag(e.operand, facts)
        if isinstance(e, ast.BoolOp):
            return all(self._stable_flag(v, facts) for v in e.values)
        return False

    def _split_scopes(self, fn: ast.AST, facts: NameFacts) -> bool:
        """S13b: a local that is assigned in several places, each assignment being used only by the statements
        that follow it in its own block (`err` in two handlers, `_match` in two branches): one name each."""
        blocks = list(_blocks(fn))
        for x, n_st in facts.stores.items():
            if n_st < 2 or x in facts.special or x in facts.nested_refs:
                continue
            groups: List[Tuple[List[ast.stmt], int, int]] = []
            ok = True
            for blk in blocks:
                idxs = [i for i, st in enumerate(blk) if _plain_target(st) == x]
                for k, i in enumerate(idxs):
                    if _all_loads(blk[i].value, x):  # type: ignore[attr-defined]
                        ok = False
                    j = idxs[k + 1] if k + 1 < len(idxs) else len(blk)
                    region = blk[i + 1:j]
                    if any(isinstance(n, ast.Name) and n.id == x and isinstance(n.ctx, (ast.Store, ast.Del)) for r in region for n in ast.walk(r)):
                        ok = False
                    groups.append((blk, i, j))
            if not ok or len(groups) != n_st:
                continue
            total = sum(_all_loads(r, x) for blk, i, j in groups for r in blk[i + 1:j])
            if total != facts.loads.get(x, 0):
                continue
            used = set(facts.stores) | set(facts.loads) | facts.special
            k = 0
            for blk, i, j in groups[1:]:
                k += 1
                while f"{x}__{k}" in used:
                    k += 1
                new = f"{x}__{k}"
                used.add(new)
                st = blk[i]
                if isinstance(st, ast.Assign):
                    st.targets[0].id = new  # type: ignore[attr-defined]
                else:
                    st.target.id = new  # type: ignore[attr-defined]
                ren = _Subst(x, ast.Name(id=new, ctx=ast.Load()))
                for m in range(i + 1, j):
                    blk[m] = ren.visit(blk[m])
            return True
        return False

    def _star_call(self, fn: ast.AST, facts: NameFacts) -> bool:
        """S28: `a, b, c = E` ; `... f(a, b, c) ...`  ->  `... f(*E) ...`  (names used nowhere else)."""
        for blk in _blocks(fn):
            for i, s in enumerate(blk[:-1]):
                if not (isinstance(s, ast.Assign) and len(s.targets) == 1 and isinstance(s.targets[0], ast.Tuple) and len(s.targets[0].elts) >= 2
                        and all(isinstance(x, ast.Name) for x in s.targets[0].elts) and not isinstance(s.value, (ast.Tuple, ast.List))):
                    continue
                names = [x.id for x in s.targets[0].elts]  # type: ignore[attr-defined]
                if any(facts.stores.get(n, 0) != 1 or facts.loads.get(n, 0) != 1 or n in facts.special or n in facts.nested_refs for n in names):
                    continue
                nxt = blk[i + 1]
                for h in _head_exprs(nxt):
                    for c in [n for n in ast.walk(h) if isinstance(n, ast.Call)]:
                        if [a.id if isinstance(a, ast.Name) else None for a in c.args] == names and not c.keywords:
                            if _unconditional_loads(h, names[0]) != 1 or _effects_before(h, names[0]):
                                continue
                            c.args = [_loc(ast.Starred(value=s.value, ctx=ast.Load()), s)]
                            del blk[i]
                            return True
        return False

    def _one_let(self, fn: ast.AST, body: List[ast.stmt], facts: NameFacts) -> bool:
        if self._split_rebinding(fn, facts):
            return True
        if self._star_call(fn, facts):
            return True
        if self._split_scopes(fn, facts):
            return True
        for blk in _blocks(fn):
            for i, s in enumerate(blk):
                cand = self._candidate(s, facts)
                if cand is None:
                    continue
                name, value = cand
                nloads = facts.loads.get(name, 0)
                # a tuple of global names / constants (`number_types = (int, float, Decimal)`): substitute everywhere
                top_level = {
                    t.id for st in fn.body for t in (st.targets if isinstance(st, ast.Assign) else [])  # type: ignore[attr-defined]
                    if isinstance(t, ast.Name)
                }
                if isinstance(value, ast.Tuple) and nloads >= 1 and value.elts and all(
                    isinstance(x, ast.Constant) or (isinstance(x, ast.Name) and (
                        facts.stores.get(x.id, 0) == 0
                        or (facts.stores.get(x.id, 0) == 1 and x.id in top_level and x.id not in facts.special)))
                    for x in value.elts
                ):
                    after = sum(_all_loads(x, name) for x in blk[i + 1:])
                    if after == nloads:
                        sub = _Subst(name, value)
                        for k in range(i + 1, len(blk)):
                            blk[k] = sub.visit(blk[k])
                        del blk[i]
                        return True
                # a local lambda that is only ever called: each call is its body (beta reduction)
                if nloads >= 1 and isinstance(value, ast.Lambda) and self._beta(fn, blk, i, name, value, facts):
                    return True
                # a constant: substitute everywhere
                if nloads >= 1 and isinstance(value, ast.Constant) and not isinstance(value.value, (str, bytes)):
                    after = sum(_all_loads(x, name) for x in blk[i + 1:])
                    if after == nloads:
                        sub = _Subst(name, value)
                        for k in range(i + 1, len(blk)):
                            blk[k] = sub.visit(blk[k])
                        del blk[i]
                        return True
                # a flag computed from stable names by isinstance / identity tests: substitute everywhere
                if nloads >= 1 and self._stable_flag(value, facts):
                    after = sum(_all_loads(x, name) for x in blk[i + 1:])
                    if after == nloads:
                        sub = _Subst(name, value)
                        for k in range(i + 1, len(blk)):
                            blk[k] = sub.visit(blk[k])
                        del blk[i]
                        return True
                # a size flag `empty = len(x) == 0` with x untouched while the flag is in use: substitute everywhere
                # (len() of a local is taken to be total: the flag may move into a conditional position)
                if (
                    nloads >= 1 and isinstance(value, ast.Compare) and len(value.ops) == 1 and _is_call(value.left, "len", 1)
                    and isinstance(value.left.args[0], ast.Name) and isinstance(value.comparators[0], ast.Constant)  # type: ignore[attr-defined]
                    and isinstance(value.comparators[0].value, int)
                ):
                    subject = value.left.args[0].id  # type: ignore[attr-defined]
                    after = sum(_all_loads(x, name) for x in blk[i + 1:])
                    stable_root = (facts.stores.get(subject, 0) == 0 or (subject in facts.loop_targets and facts.stores.get(subject, 0) == 1)
                                   or (facts.stores.get(subject, 0) == 1 and any(_plain_target(b_) == subject for b_ in blk[:i])))
                    if after == nloads and stable_root and subject != name and not any(_may_mutate(x, subject) for x in blk[i + 1:]):
                        sub = _Subst(name, value)
                        for k in range(i + 1, len(blk)):
                            blk[k] = sub.visit(blk[k])
                        del blk[i]
                        return True
                # `n = len(x)` with x untouched while n is in use: substitute everywhere
                if (
                    nloads >= 2 and _is_call(value, "len", 1) and _simple(value.args[0])  # type: ignore[attr-defined]
                    and not isinstance(value.args[0], ast.Constant)  # type: ignore[attr-defined]
                ):
                    after = sum(_all_loads(x, name) for x in blk[i + 1:])
                    subject = ast.unparse(value.args[0])  # type: ignore[attr-defined]
                    root = subject.split(".")[0]
                    stable_root = facts.stores.get(root, 0) == 0 or (root in facts.loop_targets and facts.stores.get(root, 0) == 1)
                    if after == nloads and stable_root and not any(_may_mutate(x, subject) for x in blk[i + 1:]):
                        sub = _Subst(name, value)
                        for k in range(i + 1, len(blk)):
                            blk[k] = sub.visit(blk[k])
                        del blk[i]
                        return True
                # alias of a stable attribute path (or of a stable name): substitute everywhere
                if (_is_path(value) or isinstance(value, ast.Name)) and nloads >= 1:
                    root = _path_root(value)
                    attrs = _path_attrs(value)
                    stable_root = (
                        facts.stores.get(root, 0) == 0
                        or (root in facts.loop_targets and facts.stores.get(root, 0) == 1)
                        or (facts.stores.get(root, 0) == 1 and any(_plain_target(b_) == root for b_ in blk[:i]))
                    )
                    if stable_root and not (set(attrs) & (self.mutable_attrs | facts.attr_stores)) and root != name:
                        # every load must come after the assignment inside this block
                        after = sum(_all_loads(x, name) for x in blk[i + 1:])
                        if after == nloads:
                            sub = _Subst(name, value)
                            for k in range(i + 1, len(blk)):
                                blk[k] = sub.visit(blk[k])
                            del blk[i]
                            return True
                if nloads == 1 and i + 1 < len(blk):
                    nxt = blk[i + 1]
                    # an inert value (names, constants, text built from them) may enter a `with` / `try` body:
                    # it cannot raise, so it does not matter on which side of the boundary it is evaluated
                    if isinstance(nxt, (ast.With, ast.AsyncWith, ast.Try)) and nxt.body and _inert(value) and not any(
                        _all_loads(it.context_expr, name) for it in getattr(nxt, "items", [])
                    ):
                        nxt = nxt.body[0]
                    heads = _head_exprs(nxt)
                    total = sum(_unconditional_loads(h, name) for h in heads)
                    if total == 1 and _all_loads(nxt, name) == 1:
                        has_await = any(isinstance(n, ast.Await) for n in ast.walk(value))
                        if has_await and not isinstance(self.fn, ast.AsyncFunctionDef):
                            continue
                        if not _inert(value) and any(_effects_before(h, name) for h in heads):
                            continue
                        sub = _Subst(name, value)
                        for h in heads:
                            if _unconditional_loads(h, name) == 1:
                                new_h = sub.visit(h)
                                _replace_head(nxt, h, new_h)
                                break
                        del blk[i]
                        return True
                if nloads == 0 and False:
                    pass
        return False


def _unguard(body: List[ast.stmt]) -> Optional[List[ast.stmt]]:
    """`if g: continue` ; rest  ->  `if not g: rest` (the inverse of S4), recursively."""
    if not body:
        return []
    first = body[0]
    if isinstance(first, ast.If) and not first.orelse and len(first.body) == 1 and isinstance(first.body[0], ast.Continue):
        rest = _unguard(body[1:])
        if rest is None:
            return None
        if not rest:
            return []
        return [_loc(ast.If(test=negate(first.test), body=rest, orelse=[]), first)]
    rest = _unguard(body[1:])
    if rest is None:
        return None
    return [first] + rest


_PURE_CALLS = {
    "isinstance", "len", "str", "repr", "list", "tuple", "iter", "enumerate", "zip", "range", "min", "max", "sum",
    "any", "all", "sorted", "reversed", "type", "id", "bool", "int", "float", "hash",
}


def _may_mutate(n: ast.AST, subject: str) -> bool:
    """May evaluating `n` change the object `subject` (a name or attribute path) denotes?"""
    for x in ast.walk(n):
        if isinstance(x, (ast.Subscript, ast.Attribute)) and isinstance(x.ctx, (ast.Store, ast.Del)):
            base = x.value
            if ast.unparse(base) == subject or ast.unparse(x) == subject:
                return True
        if isinstance(x, ast.Call):
            if isinstance(x.func, ast.Attribute) and ast.unparse(x.func.value) == subject:
                return True  # any method call on the subject
            pure = (isinstance(x.func, ast.Name) and x.func.id in _PURE_CALLS) or (
                # container methods keep a reference to their argument, they do not change it
                isinstance(x.func, ast.Attribute) and x.func.attr in ("append", "add", "insert", "extend", "setdefault"))
            if not pure:
                for a in list(x.args) + [k.value for k in x.keywords]:
                    if ast.unparse(a) == subject:
                        return True
    return False


def _blocks(fn: ast.AST) -> Iterable[List[ast.stmt]]:
    """All statement lists of a function, innermost last; nested definitions excluded."""
    yield fn.body  # type: ignore[attr-defined]
    for n in _own_nodes(fn):
        for f in ("body", "orelse", "finalbody"):
            b = getattr(n, f, None)
            if isinstance(b, list) and b and isinstance(b[0], ast.stmt) and not isinstance(n, (*FuncNode, ast.ClassDef)):
                yield b
        if isinstance(n, ast.Try):
            pass


def _replace_head(s: ast.stmt, old: ast.expr, new: ast.expr) -> None:
    for f, val in ast.iter_fields(s):
        if val is old:
            setattr(s, f, new)
            return
        if isinstance(val, list):
            for k, x in enumerate(val):
                if x is old:
                    val[k] = new
                    return
                if isinstance(x, ast.withitem) and x.context_expr is old:
                    x.context_expr = new
                    return
    # in-place transformers return the same object: nothing to do
    return


class _Known(ast.NodeTransformer):
    """Replace conditional expressions / statements whose test is a known atom (or its negation)."""

    def __init__(self, key: str, neg: str, value: bool) -> None:
        self.key, self.neg, self.value = key, neg, value
        self.hits = 0

    def _decide(self, t: ast.expr) -> Optional[bool]:
        d = ast.dump(t)
        if d == self.key:
            return self.value
        if d == self.neg:
            return not self.value
        return None

    def visit_IfExp(self, node: ast.IfExp) -> ast.AST:
        self.generic_visit(node)
        d = self._decide(node.test)
        if d is None:
            return node
        self.hits += 1
        return node.body if d else node.orelse

    def visit_If(self, node: ast.If) -> object:
        self.generic_visit(node)
        d = self._decide(node.test)
        if d is None:
            return node
        self.hits += 1
        return (node.body if d else node.orelse) or [ast.copy_location(ast.Pass(), node)]

    def visit_FunctionDef(self, node: ast.FunctionDef) -> ast.AST:
        return node

    visit_AsyncFunctionDef = visit_FunctionDef  # type: ignore[assignment]
    visit_Lambda = visit_FunctionDef  # type: ignore[assignment]


def _plain_target(s: ast.stmt) -> Optional[str]:
    """x for `x = e` / `x: T = e`."""
    if isinstance(s, ast.Assign) and len(s.targets) == 1 and isinstance(s.targets[0], ast.Name):
        return s.targets[0].id
    if isinstance(s, ast.AnnAssign) and isinstance(s.target, ast.Name) and s.value is not None:
        return s.target.id
    return None


def _same(a: List[ast.stmt], b: List[ast.stmt]) -> bool:
    return len(a) == len(b) and all(ast.dump(x) == ast.dump(y) for x, y in zip(a, b))


def _store(t: ast.expr) -> ast.expr:
    t = copy.deepcopy(t)
    for n in ast.walk(t):
        if isinstance(n, (ast.Name, ast.Tuple, ast.List, ast.Starred, ast.Attribute, ast.Subscript)):
            n.ctx = ast.Store()
    return t


def _is_const(e: Optional[ast.expr], *vals: object) -> bool:
    return isinstance(e, ast.Constant) and any(e.value is v for v in vals)


def _is_call(e: ast.expr, name: str, nargs: int) -> bool:
    return isinstance(e, ast.Call) and isinstance(e.func, ast.Name) and e.func.id == name and len(e.args) == nargs and not e.keywords


def _contains_call(e: ast.expr, names: Tuple[str, ...]) -> bool:
    return any(isinstance(n, ast.Call) and isinstance(n.func, ast.Name) and n.func.id in names for n in ast.walk(e))


def mutable_attrs_of(trees: Iterable[ast.AST]) -> Set[str]:
    """Attribute names assigned anywhere outside `__init__` / `__post_init__` / `__new__`."""
    out: Set[str] = set()
    for tree in trees:
        for fn in ast.walk(tree):
            if isinstance(fn, FuncNode) and fn.name not in ("__init__", "__post_init__", "__new__"):
                for n in _own_nodes(fn):
                    if isinstance(n, ast.Attribute) and isinstance(n.ctx, (ast.Store, ast.Del)):
                        out.add(n.attr)
    return out
