"""Which token kinds can a token variable hold at a program point of the parser?

A may-analysis over the structured flow engine.  The state maps a token access
path (`stream.current`, `tok`, `start_token`) to the set of token kinds it may
have (absent = any kind).  Kinds are narrowed by `X.kind == K`, `X.kind in (...)`,
`stream.expect(K)` and by the dispatch tables through which a parser method is
reached (the keys of `token_map` & co. that map to it).
"""

from __future__ import annotations

import ast
from typing import Dict
from typing import FrozenSet
from typing import List
from typing import Optional
from typing import Set
from typing import Tuple

from .consteval import BoundMethod
from .consteval import Folder
from .consteval import Instance
from .consteval import NotConst
from .consteval import Scope
from .flow import Domain
from .flow import Flow
from .kinds import path_of
from .loader import AnalysisError
from .loader import ClassInfo
from .loader import FuncInfo
from .loader import Repo

Kinds = Optional[FrozenSet[str]]  # None = any


class TState:
    __slots__ = ("m",)

    def __init__(self, m: Dict[str, FrozenSet[str]]):
        self.m = m

    def get(self, p: str) -> Kinds:
        return self.m.get(p)

    def set(self, p: str, k: Kinds) -> "TState":
        d = dict(self.m)
        if k is None:
            d.pop(p, None)
        else:
            d[p] = k
        return TState(d)

    def __eq__(self, o: object) -> bool:
        return isinstance(o, TState) and self.m == o.m


class TokDomain(Domain):
    def __init__(self, folder: Folder, fn: FuncInfo, stream: str, entry: Kinds, tables: Dict[str, Dict[str, str]]):
        self.folder = folder
        self.fn = fn
        self.stream = stream
        self.cur = f"{stream}.current"
        self.peek = f"{stream}.peek"
        self.entry = entry
        self.tables = tables
        self.call_states: List[Tuple[ast.Call, Kinds]] = []

    def initial(self, func: ast.AST) -> TState:
        return TState({self.cur: self.entry} if self.entry is not None else {})

    def join(self, a: TState, b: TState) -> TState:
        out = {}
        for k in set(a.m) & set(b.m):
            out[k] = a.m[k] | b.m[k]
        return TState(out)

    # ---- helpers
    def _const(self, e: ast.expr) -> Optional[str]:
        try:
            v = self.folder.eval(e, Scope(self.folder, self.fn.module, self.fn.cls))
        except NotConst:
            return None
        return v if isinstance(v, str) else None

    def _const_set(self, e: ast.expr) -> Optional[FrozenSet[str]]:
        if isinstance(e, (ast.Tuple, ast.List, ast.Set)):
            vals = [self._const(x) for x in e.elts]
            if all(v is not None for v in vals):
                return frozenset(vals)  # type: ignore[arg-type]
            return None
        # self.BINARY_OPERATORS etc: keys of a folded dict / members of a folded set
        if isinstance(e, ast.Attribute) and isinstance(e.value, ast.Name) and e.value.id == "self" and self.fn.cls:
            try:
                v = self.folder.class_attr(self.fn.cls, e.attr)
            except NotConst:
                try:
                    v = self.folder.instance_attr(Instance(self.fn.cls), e.attr)
                except NotConst:
                    return None
            if isinstance(v, dict):
                v = list(v)
            if isinstance(v, (list, tuple, set, frozenset)) and all(isinstance(x, str) for x in v):
                return frozenset(v)
        return None

    def _is_stream_call(self, e: ast.AST, names: Tuple[str, ...]) -> bool:
        return (
            isinstance(e, ast.Call)
            and isinstance(e.func, ast.Attribute)
            and e.func.attr in names
            and isinstance(e.func.value, ast.Name)
            and e.func.value.id == self.stream
        )

    def _advances(self, e: ast.AST) -> bool:
        if self._is_stream_call(e, ("next_token",)):
            return True
        if (
            isinstance(e, ast.Call)
            and isinstance(e.func, ast.Name)
            and e.func.id == "next"
            and e.args
            and isinstance(e.args[0], ast.Name)
            and e.args[0].id == self.stream
        ):
            return True
        return False

    def _passes_stream(self, e: ast.Call) -> bool:
        return any(isinstance(a, ast.Name) and a.id == self.stream for a in e.args) or any(
            isinstance(k.value, ast.Name) and k.value.id == self.stream for k in e.keywords
        )

    def _advance(self, state: TState) -> TState:
        """current <- peek; peek unknown; kind aliases of peek now denote current."""
        st = state.set(self.cur, state.get(self.peek)).set(self.peek, None)
        for k, v in list(st.m.items()):
            if k.startswith("@"):
                if v == frozenset({self.peek}):
                    st = st.set(k, frozenset({self.cur}))
                elif v == frozenset({self.cur}):
                    st = st.set(k, None)
        return st

    def _tok_of_kind_expr(self, e: ast.expr, state: TState) -> Optional[str]:
        """Token path whose `.kind` the expression denotes (directly or via alias)."""
        p = path_of(e)
        if p is None:
            return None
        if p.endswith(".kind"):
            return p[: -len(".kind")]
        a = state.get("@" + p)
        if a is not None and len(a) == 1:
            return next(iter(a))
        return None

    # ---- transfer
    def expr_effect(self, expr: ast.expr, state: TState, flow: Flow) -> TState:
        if isinstance(expr, ast.Call):
            if self._advances(expr):
                return self._advance(state)
            if self._is_stream_call(expr, ("expect",)):
                ks = [self._const(a) for a in expr.args]
                if ks and all(k is not None for k in ks):
                    cur = state.get(self.cur)
                    new = frozenset(ks)  # type: ignore[arg-type]
                    return state.set(self.cur, new if cur is None else (cur & new) or new)
                return state
            if self._is_stream_call(expr, ("push",)) and expr.args:
                p = path_of(expr.args[0])
                return state.set(self.cur, state.get(p) if p else None)
            if self._is_stream_call(expr, ("expect_peek", "close")):
                return state
            if self._passes_stream(expr):
                self.call_states.append((expr, state.get(self.cur)))
                st = state.set(self.cur, None).set(self.peek, None)
                for k in [k for k in st.m if k.startswith("@")]:
                    st = st.set(k, None)
                return st
        return state

    def transfer(self, stmt: ast.stmt, state: TState, flow: Flow) -> TState:
        if isinstance(stmt, (ast.Assign, ast.AnnAssign)) and stmt.value is not None:
            targets = stmt.targets if isinstance(stmt, ast.Assign) else [stmt.target]
            for t in targets:
                p = path_of(t)
                if p is None:
                    continue
                v = stmt.value
                if self._advances(v):
                    # returns the token that was current *before* advancing
                    pre = flow.at.get(id(v))
                    k = pre.get(self.cur) if pre is not None else None
                    state = state.set(p, k)
                else:
                    vp = path_of(v)
                    if vp and vp.endswith(".kind"):
                        # kind alias: peek_kind = stream.peek.kind
                        state = state.set("@" + p, frozenset({vp[: -len(".kind")]}))
                        state = state.set(p, None)
                    else:
                        state = state.set("@" + p, None)
                        state = state.set(p, state.get(vp) if vp else None)
        return state

    def refine(self, test: ast.expr, branch: bool, state: TState, flow: Flow) -> Optional[TState]:
        if isinstance(test, ast.Compare) and len(test.ops) == 1:
            tok = self._tok_of_kind_expr(test.left, state)
            if tok is not None:
                op = test.ops[0]
                comp = test.comparators[0]
                cur = state.get(tok)
                if isinstance(op, (ast.Eq, ast.NotEq, ast.Is, ast.IsNot)):
                    c = self._const(comp)
                    if c is None:
                        return state
                    pos = branch if isinstance(op, (ast.Eq, ast.Is)) else not branch
                    if pos:
                        if cur is not None and c not in cur:
                            return None
                        return state.set(tok, frozenset({c}))
                    if cur is not None:
                        new = cur - {c}
                        if not new:
                            return None
                        return state.set(tok, new)
                    return state
                if isinstance(op, (ast.In, ast.NotIn)):
                    cs = self._const_set(comp)
                    if cs is None:
                        return state
                    pos = branch if isinstance(op, ast.In) else not branch
                    if pos:
                        new = cs if cur is None else cur & cs
                        if not new:
                            return None
                        return state.set(tok, frozenset(new))
                    if cur is not None:
                        new2 = cur - cs
                        if not new2:
                            return None
                        return state.set(tok, frozenset(new2))
                    return state
        return state


class ParserTokenFlow:
    """Token-kind facts for every method of the parser class."""

    def __init__(self, repo: Repo, folder: Folder, cls_name: str = "Parser") -> None:
        self.repo = repo
        self.folder = folder
        self.cls: ClassInfo = repo.require_class(cls_name)
        self.tables: Dict[str, Dict[str, str]] = {}
        inst = Instance(self.cls)
        init = self.cls.methods.get("__init__")
        if init is not None:
            for node in ast.walk(init.node):
                tgt = None
                if isinstance(node, ast.Assign):
                    tgt = node.targets[0]
                elif isinstance(node, ast.AnnAssign):
                    tgt = node.target
                if isinstance(tgt, ast.Attribute) and isinstance(tgt.value, ast.Name) and tgt.value.id == "self":
                    try:
                        v = folder.instance_attr(inst, tgt.attr)
                    except NotConst:
                        continue
                    if isinstance(v, dict) and v and all(isinstance(x, BoundMethod) for x in v.values()):
                        self.tables[tgt.attr] = {k: x.name for k, x in v.items()}
        self.entry: Dict[str, Kinds] = {}
        self.flows: Dict[str, Tuple[Flow, TokDomain]] = {}
        self._solve()

    def _stream_param(self, fn: FuncInfo) -> Optional[str]:
        for a in fn.node.args.args[1:]:
            ann = a.annotation
            if ann is not None and (self.repo.dotted(ann) or "").endswith("TokenStream"):
                return a.arg
        return None

    def _solve(self) -> None:
        methods = {n: m for n, m in self.cls.methods.items() if self._stream_param(m)}
        # seed from dispatch tables
        entry: Dict[str, Optional[Set[str]]] = {n: set() for n in methods}
        called_directly: Dict[str, bool] = {n: False for n in methods}
        for table in self.tables.values():
            for key, meth in table.items():
                if meth in entry and entry[meth] is not None:
                    entry[meth].add(key)  # type: ignore[union-attr]
        # methods never reached through a table and public roots start at TOP
        # if they are called from outside the class
        external = self._externally_called(methods)
        for n in external:
            entry[n] = None
        for _ in range(10):
            changed = False
            self.flows = {}
            for n, m in methods.items():
                e = entry[n]
                if e is not None and not e and not called_directly[n]:
                    # not (yet) known to be reachable
                    continue
                stream = self._stream_param(m)
                assert stream
                dom = TokDomain(self.folder, m, stream, frozenset(e) if e is not None else None, self.tables)
                fl = Flow(m.node, dom)
                self.flows[n] = (fl, dom)
                for call, kinds in dom.call_states:
                    f = call.func
                    if isinstance(f, ast.Attribute) and isinstance(f.value, ast.Name) and f.value.id == "self" and f.attr in methods:
                        tgt = f.attr
                        if not called_directly[tgt]:
                            called_directly[tgt] = True
                            changed = True
                        if entry[tgt] is None:
                            continue
                        if kinds is None:
                            entry[tgt] = None
                            changed = True
                        else:
                            before = set(entry[tgt])  # type: ignore[arg-type]
                            entry[tgt] |= set(kinds)  # type: ignore[operator]
                            if entry[tgt] != before:
                                changed = True
            if not changed:
                break
        self.entry = {n: (frozenset(v) if v is not None else None) for n, v in entry.items()}

    def _externally_called(self, methods: Dict[str, FuncInfo]) -> Set[str]:
        out: Set[str] = set()
        for fn in self.repo.functions.values():
            if fn.cls is self.cls:
                continue
            for node in ast.walk(fn.node):
                if isinstance(node, ast.Call) and isinstance(node.func, ast.Attribute) and node.func.attr in methods:
                    recv = node.func.value
                    if isinstance(recv, ast.Attribute) and recv.attr == "parser":
                        out.add(node.func.attr)
        return out

    def kinds_at(self, fn: FuncInfo, expr: ast.AST, path: str) -> Kinds:
        """Kinds of token `path` in the state in which `expr` is evaluated."""
        if fn.cls is not self.cls or fn.name not in self.flows:
            return None
        fl, dom = self.flows[fn.name]
        st = fl.at.get(id(expr))
        if st is None:
            return None
        return st.get(path)
