#!/venv/bin/python
"""Confirm that every stored seeded change is still a breaking change of the current /repo:
its demo passes on the clean tree, the patch applies, the 719 tests stay green, and the demo fails.

usage: validate_seeds.py [-k SUBSTR]   (scratch copies under a mkdtemp directory, removed afterwards)
"""
import os
import re
import shutil
import subprocess
import sys
import tempfile
from concurrent.futures import ThreadPoolExecutor
from pathlib import Path

VERIF = Path(__file__).resolve().parent.parent
PY = "/venv/bin/python"


def demo(root: Path) -> int:
    env = dict(os.environ, PYTHONPATH=str(root))
    p = subprocess.run([PY, "_seed/1/demo.py"], cwd=root, capture_output=True, text=True, env=env, timeout=600)
    return p.returncode


def one(d: Path) -> str:
    tmp = Path(tempfile.mkdtemp(prefix="verif-seedvalid-"))
    try:
        r = tmp / "r"
        shutil.copytree("/repo", r, ignore=shutil.ignore_patterns(".git", "__pycache__", "*.pyc"))
        (r / "_seed" / "1").mkdir(parents=True)
        shutil.copy(d / "demo.py", r / "_seed" / "1" / "demo.py")
        if demo(r) != 0:
            return f"{d.name}: DEMO FAILS ON THE CLEAN TREE"
        p = subprocess.run(["patch", "-s", "-p1", "-i", str(d / "patch.diff")], cwd=r, capture_output=True, text=True)
        if p.returncode != 0:
            return f"{d.name}: PATCH FAILED"
        p = subprocess.run([PY, "-m", "pytest", "-q", "-p", "no:cacheprovider", "--continue-on-collection-errors"],
                           cwd=r, capture_output=True, text=True)
        tail = (p.stdout.strip().splitlines() or ["?"])[-1]
        if re.search(r"\b719 passed", tail) is None:
            return f"{d.name}: TESTS: {tail}"
        if demo(r) == 0:
            return f"{d.name}: DEMO PASSES WITH THE PATCH"
        return f"{d.name}: ok"
    except subprocess.TimeoutExpired:
        return f"{d.name}: TIMEOUT"
    finally:
        shutil.rmtree(tmp, ignore_errors=True)


def main() -> int:
    sub = sys.argv[sys.argv.index("-k") + 1] if "-k" in sys.argv else None
    dirs = [d for d in sorted((VERIF / "seeded").iterdir()) if (d / "patch.diff").exists() and (sub is None or sub in d.name)]
    with ThreadPoolExecutor(max_workers=12) as ex:
        res = list(ex.map(one, dirs))
    bad = [r for r in res if not r.endswith(": ok")]
    print("\n".join(bad) or "all ok")
    print(f"{len(res) - len(bad)}/{len(res)} seeded changes are confirmed on the current tree")
    return 1 if bad else 0


if __name__ == "__main__":
    sys.exit(main())
