#!/venv/bin/python
"""Development-time test of the canonicaliser (not a check, not evidence): write the canonical form of
every module back as source and run the repository's own test suite on it.  If a rewrite of sa/canon.py or
an inlining of sa/inline.py changed behaviour that the suite observes, the suite fails here.

usage: canon_roundtrip.py [patch.diff ...]     (no argument: /repo as it is; with patches: each applied first)
Scratch copies live under a mkdtemp directory and are removed.
"""
import ast
import os
import re
import shutil
import subprocess
import sys
import tempfile
from concurrent.futures import ThreadPoolExecutor
from pathlib import Path

VERIF = Path(__file__).resolve().parent.parent


def one(patch: str) -> str:
    tmp = Path(tempfile.mkdtemp(prefix="verif-canon-rt-"))
    try:
        shutil.copytree("/repo", tmp / "r", ignore=shutil.ignore_patterns(".git", "__pycache__", "*.pyc"))
        if patch:
            p = subprocess.run(["patch", "-s", "-p1", "-i", patch], cwd=tmp / "r", capture_output=True, text=True)
            if p.returncode != 0:
                return f"{patch}: PATCH FAILED"
        code = (
            "import sys, ast, os\n"
            f"sys.path.insert(0, {str(VERIF)!r})\n"
            f"os.environ['VERIF_REPO'] = {str(tmp / 'r')!r}\n"
            "from sa.loader import Repo\n"
            "r = Repo()\n"
            "for m in r.modules.values():\n"
            "    src = ast.unparse(m.tree)\n"
            "    open(m.path, 'w').write(src + '\\n')\n"
            "print(r.inlined)\n"
        )
        p = subprocess.run(["/venv/bin/python", "-c", code], capture_output=True, text=True)
        if p.returncode != 0:
            return f"{patch or '/repo'}: CANON FAILED {p.stderr[-300:]}"
        p = subprocess.run(["/venv/bin/python", "-m", "pytest", "-q", "-p", "no:cacheprovider", "--continue-on-collection-errors"],
                           cwd=tmp / "r", capture_output=True, text=True)
        tail = (p.stdout.strip().splitlines() or ["?"])[-1]
        ok = re.search(r"\b719 passed", tail) is not None
        if ok:
            return f"{Path(patch).parent.name if patch else '/repo'}: ok"
        fails = [l for l in p.stdout.splitlines() if l.startswith("FAILED") or "Error" in l][:3]
        return f"{Path(patch).parent.name if patch else '/repo'}: TESTS {tail} {fails}"
    finally:
        shutil.rmtree(tmp, ignore_errors=True)


def main() -> int:
    patches = [str(Path(a).resolve()) for a in sys.argv[1:]] or [""]
    with ThreadPoolExecutor(max_workers=10) as ex:
        res = list(ex.map(one, patches))
    bad = [r for r in res if not r.endswith(": ok")]
    print("\n".join(bad) or "all ok")
    print(f"{len(res) - len(bad)}/{len(res)} canonical trees keep the suite green")
    return 1 if bad else 0


if __name__ == "__main__":
    sys.exit(main())
