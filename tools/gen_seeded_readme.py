#!/venv/bin/python
"""Write seeded/README.md from the meta.json files."""
import json
from pathlib import Path

root = Path(__file__).resolve().parent.parent / "seeded"
hist = json.loads((root / "history.json").read_text()) if (root / "history.json").exists() else {}
rows = []
for d in sorted(p for p in root.iterdir() if p.is_dir() and (p / "meta.json").exists()):
    m = json.loads((d / "meta.json").read_text())
    rules = {p: v["rules"] for p, v in m.get("reported_now", m.get("checks_reporting", {})).items() if v.get("exit") == 1}
    notes = " ".join(m.get("notes", "").split())[:260]
    h = hist.get(d.name, {})
    rows.append((d.name, m["property"], notes, "; ".join(f"{p}: {', '.join(r)}" for p, r in rules.items()) or "NOT DETECTED",
                 h.get("first_run", "?"), h.get("then", "")))
out = ["# Seeded breaking changes written by independent sub-agents", "",
       "Each directory holds `patch.diff` (relative to /repo HEAD at the time), `demo.py` (passes on the clean tree,",
       "fails with the patch) and `meta.json` (what was run and what the checks reported). Every change was confirmed",
       "in a scratch worktree (patch applies, package compiles, 719 tests pass, demo fails / passes without it) and",
       "then applied to /repo itself, all 20 quick checks run, and undone with `git checkout`. The column `reported by` is",
       "what the current rules say (`tools/seed_refresh.py`, scratch copies); `first run` is what they said when the change arrived.", "",
       "| change | property | what it does | reported by (current rules) | first run | strengthening |", "|---|---|---|---|---|---|"]
for r in rows:
    out.append("| " + " | ".join(x.replace("|", "\\|") for x in r) + " |")
n = len(rows)
caught = sum(1 for r in rows if (r[1] + ":") in r[3])
out += ["", f"{caught} of {n} changes are reported as VIOLATION by their own property's check with the current rules."]
(root / "README.md").write_text("\n".join(out) + "\n")
print(f"{caught}/{n}")
