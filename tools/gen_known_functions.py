#!/venv/bin/python
"""Freeze the names of the functions the rules were written against (sa/known_functions.txt).

Run only when a rule has been (re)anchored by hand on the current tree: a function missing from the
list is treated as a later-extracted helper and inlined into its callers before analysis (sa/inline.py).
"""
import ast
import sys
from pathlib import Path

sys.path.insert(0, str(Path(__file__).resolve().parent.parent))
from sa.inline import KNOWN_FILE, function_table  # noqa: E402
from sa.loader import repo_root  # noqa: E402

trees = {}
root = repo_root()
for path in sorted((root / "jsonpath").rglob("*.py")):
    parts = list(path.relative_to(root).with_suffix("").parts)
    if parts[-1] == "__init__":
        parts = parts[:-1]
    trees[".".join(parts)] = ast.parse(path.read_text())
keys = sorted(k for k, _c, _n, _b in function_table(trees))
KNOWN_FILE.write_text("# functions of the tree the rules are anchored in (see sa/inline.py)\n" + "\n".join(keys) + "\n")
print(len(keys), "functions")
