#!/venv/bin/python
"""All (or some) properties on one tree in one process: the verdict check.py would give for each, without
writing evidence.  Used by tools/regress.py - the analysis context (canonical trees, call graph, escape sets)
is built once and shared by the twenty rule sets.

usage: VERIF_REPO=<dir> fastcheck.py [C01 C02 ...]    -> one JSON object {prop: [exit, [first report lines]]}
"""
from __future__ import annotations

import json
import sys
import traceback
from pathlib import Path

VERIF = Path(__file__).resolve().parent.parent
sys.path.insert(0, str(VERIF))

from rules import Ctx  # noqa: E402
from rules import rules_for  # noqa: E402
from sa.loader import AnalysisError  # noqa: E402
from sa.report import KnownFindings  # noqa: E402


def main() -> int:
    props = [a.upper() for a in sys.argv[1:]] or [f"C{i:02d}" for i in range(1, 21)]
    out = {}
    try:
        ctx = Ctx()
    except Exception as err:  # noqa: BLE001
        print(json.dumps({p: [2, [f"ANALYSIS-ERROR property={p} {err!r}"]] for p in props}))
        return 0
    kf = KnownFindings()
    for prop in props:
        lines = []
        errors = []
        violations = []
        try:
            for fn in rules_for(prop):
                try:
                    rr = fn(ctx)
                except AnalysisError as err:
                    errors.append(str(err))
                    continue
                rr.prop = prop
                for f in rr.findings:
                    f.prop = prop
                try:
                    rr.check_floor()
                except AnalysisError as err:
                    errors.append(str(err))
                seen = set()
                for f in rr.findings:
                    if f.key in seen or kf.match(f) is not None:
                        continue
                    seen.add(f.key)
                    violations.append(f)
        except Exception as err:  # noqa: BLE001
            traceback.print_exc(file=sys.stderr)
            out[prop] = [2, [f"ANALYSIS-ERROR property={prop} checker crashed: {err!r}"]]
            continue
        if violations:
            out[prop] = [1, [v.text()[:300] for v in violations[:3]], sorted({v.rule for v in violations})]
        elif errors:
            out[prop] = [2, [f"ANALYSIS-ERROR property={prop} " + "; ".join(errors)[:300]]]
        else:
            out[prop] = [0, []]
    print(json.dumps(out))
    return 0


if __name__ == "__main__":
    sys.exit(main())
