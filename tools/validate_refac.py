#!/venv/bin/python
"""Confirm that every stored refactoring still applies to /repo and keeps the 719 tests green.

usage: validate_refac.py [-k SUBSTR]   (scratch copies under a mkdtemp directory, removed afterwards)
"""
import re
import shutil
import subprocess
import sys
import tempfile
from concurrent.futures import ThreadPoolExecutor
from pathlib import Path

VERIF = Path(__file__).resolve().parent.parent


def one(d: Path) -> str:
    tmp = Path(tempfile.mkdtemp(prefix="verif-valid-"))
    try:
        shutil.copytree("/repo", tmp / "r", ignore=shutil.ignore_patterns(".git", "__pycache__", "*.pyc"))
        p = subprocess.run(["patch", "-s", "-p1", "-i", str(d / "patch.diff")], cwd=tmp / "r", capture_output=True, text=True)
        if p.returncode != 0:
            return f"{d.name}: PATCH FAILED"
        p = subprocess.run(["/venv/bin/python", "-m", "pytest", "-q", "-p", "no:cacheprovider", "--continue-on-collection-errors"],
                           cwd=tmp / "r", capture_output=True, text=True)
        tail = (p.stdout.strip().splitlines() or ["?"])[-1]
        ok = re.search(r"\b719 passed", tail) is not None
        return f"{d.name}: {'ok' if ok else 'TESTS: ' + tail}"
    finally:
        shutil.rmtree(tmp, ignore_errors=True)


def main() -> int:
    sub = sys.argv[sys.argv.index("-k") + 1] if "-k" in sys.argv else None
    dirs = [d for d in sorted((VERIF / "refactorings").iterdir()) if (d / "patch.diff").exists() and (sub is None or sub in d.name)]
    with ThreadPoolExecutor(max_workers=12) as ex:
        res = list(ex.map(one, dirs))
    bad = [r for r in res if not r.endswith(": ok")]
    print("\n".join(bad) or "all ok")
    print(f"{len(res) - len(bad)}/{len(res)} refactorings apply and keep the suite green")
    return 1 if bad else 0


if __name__ == "__main__":
    sys.exit(main())
