#!/venv/bin/python
"""Regression of the checkers against the three corpora kept in /verif.

usage: regress.py [clean] [seeded] [refac] [-k SUBSTR] [-v]

clean   the 20 quick checks on /repo's tree: all must exit 0
seeded  every seeded/<Cnn-k>/patch.diff on a scratch copy: the property's own check must exit 1
refac   every refactorings/<Rnn-k>/patch.diff on a scratch copy: all 20 checks must exit 0
        (exit 2 = idiom not recognised, counted separately; exit 1 = false alarm)

Scratch copies live under a mkdtemp directory and are removed; evidence of these runs goes
to the scratch directory too (VERIF_EVIDENCE_DIR), so /verif/evidence is not touched.
"""

from __future__ import annotations

import json
import os
import shutil
import subprocess
import sys
import tempfile
from concurrent.futures import ThreadPoolExecutor
from pathlib import Path

VERIF = Path(__file__).resolve().parent.parent
PY = "/venv/bin/python"
PROPS = [f"C{i:02d}" for i in range(1, 21)]


def run_check(prop: str, repo: str, ev: str) -> tuple[int, str]:
    env = dict(os.environ, VERIF_REPO=repo, VERIF_EVIDENCE_DIR=ev)
    p = subprocess.run([PY, str(VERIF / "check.py"), prop], capture_output=True, text=True, env=env, cwd=str(VERIF))
    return p.returncode, p.stdout + p.stderr


def scratch(patch: Path | None) -> Path:
    tmp = Path(tempfile.mkdtemp(prefix="verif-regress-"))
    shutil.copytree(os.environ.get("REGRESS_BASE", "/repo") + "/jsonpath", tmp / "r" / "jsonpath", ignore=shutil.ignore_patterns("__pycache__"))
    if patch is not None:
        p = subprocess.run(["patch", "-s", "-p1", "-i", str(patch)], cwd=str(tmp / "r"), capture_output=True, text=True)
        if p.returncode != 0:
            shutil.rmtree(tmp, ignore_errors=True)
            raise RuntimeError(f"patch failed: {patch}: {p.stdout}{p.stderr}")
    return tmp


def job(kind: str, name: str, patch: Path | None, props: list[str]) -> dict:
    try:
        tmp = scratch(patch)
    except RuntimeError as err:
        return {"kind": kind, "name": name, "error": str(err), "res": {}}
    try:
        res = {}
        if kind == "clean":
            # the registered command itself, one process per property
            for p in props:
                rc, out = run_check(p, str(tmp / "r"), str(tmp / "ev"))
                lines = [l for l in out.splitlines() if (": R" in l and " in " in l) or l.startswith("ANALYSIS-ERROR")]
                res[p] = (rc, lines[:3])
            return {"kind": kind, "name": name, "res": res}
        # patched trees: all requested properties in one process (tools/fastcheck.py, same verdicts)
        env = dict(os.environ, VERIF_REPO=str(tmp / "r"))
        pr = subprocess.run([PY, str(VERIF / "tools" / "fastcheck.py"), *props], capture_output=True, text=True, env=env, cwd=str(VERIF))
        try:
            data = json.loads(pr.stdout.strip().splitlines()[-1])
        except Exception:  # noqa: BLE001
            data = {p: [2, ["ANALYSIS-ERROR fastcheck failed: " + (pr.stderr.strip().splitlines() or ["?"])[-1][:200]]] for p in props}
        for p in props:
            got = data.get(p, [2, ["ANALYSIS-ERROR no verdict"]])
            res[p] = (got[0], got[1][:3])
        return {"kind": kind, "name": name, "res": res}
    finally:
        shutil.rmtree(tmp, ignore_errors=True)


def main() -> int:
    args = sys.argv[1:]
    verbose = "-v" in args
    sub = None
    if "-k" in args:
        sub = args[args.index("-k") + 1]
    kinds = [a for a in args if a in ("clean", "seeded", "refac")] or ["clean", "seeded", "refac"]
    jobs = []
    if "clean" in kinds:
        for p in PROPS:
            jobs.append(("clean", p, None, [p]))
    if "seeded" in kinds:
        for d in sorted((VERIF / "seeded").iterdir()):
            if (d / "patch.diff").exists() and (sub is None or sub in d.name):
                prop = json.loads((d / "meta.json").read_text())["property"]
                jobs.append(("seeded", d.name, d / "patch.diff", [prop]))
    if "refac" in kinds:
        for d in sorted((VERIF / "refactorings").iterdir()):
            if (d / "patch.diff").exists() and (sub is None or sub in d.name):
                jobs.append(("refac", d.name, d / "patch.diff", PROPS))
    with ThreadPoolExecutor(max_workers=16) as ex:
        results = list(ex.map(lambda j: job(*j), jobs))
    bad = 0
    summary = {"clean": [0, 0], "seeded": [0, 0], "refac": [0, 0, 0]}
    # refactorings on which a check is known to raise a false alarm (or to give up) at present: listed with the reason in
    # refactorings/OPEN.json and in DESIGN.md; they are run and shown, and do not make this script fail
    open_path = VERIF / "refactorings" / "OPEN.json"
    open_refac = json.loads(open_path.read_text()) if open_path.exists() else {}
    n_open = 0
    # seeded changes that the property's own check does not report (another property's check does): seeded/OPEN.json
    open_seed_path = VERIF / "seeded" / "OPEN.json"
    open_seeds = json.loads(open_seed_path.read_text()) if open_seed_path.exists() else {}
    n_open_seeds = 0
    for r in results:
        k = r["kind"]
        if "error" in r:
            print(f"!! {k} {r['name']}: {r['error']}")
            bad += 1
            continue
        rcs = {p: v[0] for p, v in r["res"].items()}
        if k == "clean":
            ok = all(rc == 0 for rc in rcs.values())
            summary[k][0 if ok else 1] += 1
        elif k == "seeded":
            ok = all(rc == 1 for rc in rcs.values())
            summary[k][0 if ok else 1] += 1
        else:
            ok = all(rc == 0 for rc in rcs.values())
            if ok:
                summary[k][0] += 1
            elif any(rc == 1 for rc in rcs.values()):
                summary[k][1] += 1
            else:
                summary[k][2] += 1
        if k == "seeded" and r["name"] in open_seeds:
            if ok:
                print(f"-- seeded {r['name']}: listed in seeded/OPEN.json but detected now - remove the entry")
            else:
                n_open_seeds += 1
                summary[k][1] -= 1
                print(f"-- open seeded {r['name']}: not reported by its own check  ({open_seeds[r['name']][:120]})")
                continue
        if k == "refac" and r["name"] in open_refac:
            if ok:
                print(f"-- refac {r['name']}: listed in OPEN.json but silent now - remove the entry")
            else:
                n_open += 1
                summary[k][1 if any(rc == 1 for rc in rcs.values()) else 2] -= 1
                print(f"-- open refac {r['name']}: " + " ".join(f"{p}={rc}" for p, rc in rcs.items() if rc != 0) + f"  ({open_refac[r['name']][:120]})")
                continue
        if not ok:
            bad += 1
            print(f"-- {k} {r['name']}: " + " ".join(f"{p}={rc}" for p, rc in rcs.items() if (rc != 0 if k != 'seeded' else rc != 1)))
            if verbose or k != "refac" or True:
                for p, (rc, lines) in r["res"].items():
                    if (k == "seeded" and rc != 1) or (k != "seeded" and rc != 0):
                        for l in lines[:2]:
                            print(f"     {p}: {l[:260]}")
    print(f"clean: {summary['clean'][0]} ok / {summary['clean'][1]} bad; "
          f"seeded: {summary['seeded'][0]} detected / {summary['seeded'][1]} missed; "
          f"refac: {summary['refac'][0]} silent / {summary['refac'][1]} false alarm / {summary['refac'][2]} analysis-error only"
          + (f" / {n_open} open (refactorings/OPEN.json)" if n_open else "")
          + (f"; {n_open_seeds} seeded changes open (seeded/OPEN.json)" if n_open_seeds else ""))
    return 1 if bad else 0


if __name__ == "__main__":
    sys.exit(main())
