#!/venv/bin/python
"""Re-run all 20 quick checks against every stored seeded change (scratch copies, evidence not kept) and
record what the *current* rules report in meta.json (`reported_now`), then regenerate seeded/README.md."""
import json
import re
import subprocess
import sys
from concurrent.futures import ThreadPoolExecutor
from pathlib import Path

sys.path.insert(0, str(Path(__file__).resolve().parent))
import regress  # noqa: E402

VERIF = Path(__file__).resolve().parent.parent


def one(d: Path) -> str:
    import os

    tmp = regress.scratch(d / "patch.diff")
    try:
        env = dict(os.environ, VERIF_REPO=str(tmp / "r"))
        pr = subprocess.run(["/venv/bin/python", str(VERIF / "tools" / "fastcheck.py")], capture_output=True, text=True, env=env, cwd=str(VERIF))
        data = json.loads(pr.stdout.strip().splitlines()[-1])
        now = {}
        for p in regress.PROPS:
            got = data[p]
            if got[0] != 0:
                now[p] = {"exit": got[0], "rules": got[2] if len(got) > 2 else []}  # noqa: PLR2004
        m = json.loads((d / "meta.json").read_text())
        m["reported_now"] = now
        (d / "meta.json").write_text(json.dumps(m, indent=1) + "\n")
        own = now.get(m["property"], {}).get("exit")
        return f"{d.name}: own={own} others={sorted(k for k, v in now.items() if k != m['property'] and v['exit'] == 1)}"
    finally:
        import shutil

        shutil.rmtree(tmp, ignore_errors=True)


dirs = [d for d in sorted((VERIF / "seeded").iterdir()) if (d / "patch.diff").exists()]
with ThreadPoolExecutor(max_workers=14) as ex:
    for line in ex.map(one, dirs):
        print(line)
subprocess.run(["/venv/bin/python", str(VERIF / "tools" / "gen_seeded_readme.py")])
