#!/bin/sh
# usage: refac_eval.sh <patch.diff>   - all 20 quick checks against a scratch copy with a behaviour-preserving patch applied
patch=$(readlink -f $1)
tmp=$(mktemp -d /tmp/verif-refac-XXXXXX)
mkdir -p $tmp/r && cp -r /repo/jsonpath $tmp/r/jsonpath
(cd $tmp/r && patch -s -p1 < $patch) || { echo "PATCH FAILED"; rm -rf $tmp; exit 3; }
bad=0
for i in 01 02 03 04 05 06 07 08 09 10 11 12 13 14 15 16 17 18 19 20; do
  out=$(VERIF_EVIDENCE_DIR=$tmp/ev VERIF_REPO=$tmp/r /venv/bin/python /verif/check.py C$i 2>&1); rc=$?
  if [ $rc -ne 0 ]; then bad=1; echo "C$i exit=$rc"; echo "$out" | grep -v "^VIOLATION" | head -4 | cut -c1-330; fi
done
rm -rf $tmp
[ $bad -eq 0 ] && echo "all 20 checks silent"
exit $bad
