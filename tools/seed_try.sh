#!/bin/sh
# usage: seed_try.sh <seeded-name> <prop> [<prop>...]   - run checks against a scratch copy with the seeded patch applied
name=$1; shift
tmp=$(mktemp -d /tmp/verif-try-XXXXXX)
mkdir -p $tmp/r && cp -r /repo/jsonpath $tmp/r/jsonpath
(cd $tmp/r && patch -s -p1 < /verif/seeded/$name/patch.diff) || { echo "patch failed"; rm -rf $tmp; exit 3; }
for p in "$@"; do
  VERIF_REPO=$tmp/r /venv/bin/python /verif/check.py $p 2>&1 | grep -v "^VIOLATION" | cut -c1-420
done
rm -rf $tmp
# evidence files were rewritten against the scratch copy: restore them from the real tree
for p in "$@"; do /venv/bin/python /verif/check.py $p > /dev/null 2>&1; done
