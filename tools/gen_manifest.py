#!/venv/bin/python
"""Generate /verif/MANIFEST.json from the per-property claim table below."""

from __future__ import annotations

import json
import sys
from pathlib import Path

HERE = Path(__file__).resolve().parent.parent
sys.path.insert(0, str(HERE))

PY = "/venv/bin/python"

# property -> (technique, decided clauses, undecided clauses)
CLAIMS = {
    "C01": (
        "kind-lattice abstract interpretation at match-construction sites; loop-nesting, pre-order and guard-dominance rules; regex-AST rule on string tokens; abstract execution (partial evaluator + model objects) of the six selector classes on covering small documents; lexer decisions on the reconstructed master pattern; abstract execution of Parser.parse_selector_list on the lexer model's tokens of covering bracketed selections; abstract execution of every selector's resolve() as a whole on input nodelists that hold a node and its descendant or one node twice (result = concatenation of the per-node results)",
        "wrong-kind values select nothing; list concatenation per input node; descendant pre-order; document member order; zero step; quoted-string token shape",
        "index/slice arithmetic, full nodelist equality, blank-space tolerance",
    ),
    "C02": (
        "kind-lattice analysis of the comparison routines; residual expressions of compare() per operator (partial evaluation); constant-folded precedence and function tables; def-use rules on filter context binding",
        "comparison kind discipline, node-list discipline of queries, context binding, precedence, operator wiring, standard function table",
        "truth of arbitrary expressions on arbitrary documents, regex dialect",
    ),
    "C03": (
        "def-use rule on location steps at match-construction sites; inverse-table check of escape/unescape chains; regex-AST token shape; default-parameter rule on the pointer parser; abstract execution of the selectors on covering small documents (values and location parts); folded character tables; abstract execution of canonical_string -> lexer model -> decoder / parser on covering member names (round trip and RFC spelling)",
        "location-step agreement, canonical escape, inverse escape tables, token shape, pointer built from parts, pointer text parses back under the parser's defaults (2 known findings)",
        "normalised index arithmetic, object identity of re-evaluated nodes",
    ),
    "C04": (
        "ordered-replace-chain rule, guard-dominance (must) analysis for int() recognisers, kind analysis of _getitem, handler-class rule for exists, codec-domain rule; who-may-store rule (no memo in a class- or module-level container keyed without every argument read); abstract execution of JSONPointer resolve / exists on every node of a covering document and on pointers RFC 6901 cannot evaluate; abstract execution of JSONPathMatch.pointer().resolve(doc) for a match at every node of the covering document",
        "decode/encode order, canonical index recogniser, scalar targets rejected, exists = success of resolve, decoder domain",
        "reachability of every node of every document",
    ),
    "C05": (
        "sibling agreement and must-pass-through analysis on Op.apply bodies; kind/type discipline for member keys; taint rule for deep copy; handler-order rule; taint rule for every patch value that reaches the document; abstract execution of JSONPatch(ops).apply on covering patches, compared with RFC 6902 written down separately (rules/rfc6902.py)",
        "insertion discipline incl. length consulted, member keys are strings, deep test equality, deep copy on copy, own-child check first, handler order",
        "resulting-document equality over operation sequences",
    ),
    "C06": (
        "exception-escape (effect) analysis over the resolved call graph with a closed table of partial built-in operations; loop-progress rule for termination; regex-AST ambiguity rule (no unbounded repetition over overlapping alternatives) on the library's own patterns; MEMO: a call of a functools.lru_cache / cache wrapped function hashes its arguments before the body's try (implicit TypeError unless the arguments are statically hashable); regex-AST rule extended to a round of a repeated group that ends in an unbounded run the next round can continue",
        "escape sets of all documented entry points, handler soundness, parser loop progress, exception rendering",
        "third-party termination (re, json), hostile container types, recursion depth",
    ),
    "C07": (
        "guard-reachability rules on the parser's test-position producers; constant-folded operator tables; exhaustiveness over the ExpressionType enum; def-use on range checks",
        "test positions guarded, comparability on both operands, singular-query classification, signature check, integer range, leading zero, empty list",
        "acceptance of every valid RFC query, trailing comma",
    ),
    "C08": (
        "AST normal-form equivalence of sync/async method twins (await-erasure + enumerated idioms), cross-checked by kind sets of twin sites; abstract execution of sync and async resolvers on covering small documents",
        "every m/m_async pair is the same algorithm up to awaiting; no half-overridden twin",
        "scheduling effects of third-party awaitables",
    ),
    "C09": (
        "write-effect analysis over the call graph reachable from evaluation entry points; volatility/children coverage rules; who-may-construct rule for cache cells; who-may-store rule over the engine's modules (no class- or module-level container written at run time); abstract execution of Query._select on covering selections: the document is afterwards the same container objects with the same content",
        "no writes to compiled query/document/context during evaluation, volatility flags, fresh cache per resolution, immutable compiled objects, stateless lexer/parser",
        "(result equality under interleavings follows from the absence of shared writes)",
    ),
    "C10": (
        "def-use field-coverage rule (evaluation reads subset of __str__ reads), constant-folded precedence and flag tables, keyword round trip through the reconstructed lexer grammar; grouping round trip: abstract execution of the printers on all expression trees of depth 3 read back by a reference Pratt parser with the folded precedence table; abstract execution of FloatLiteral.__str__ on sample floats against the lexer model; writer/reader round trip of quoted text on covering samples",
        "field coverage of string forms, precedence agreement parser/printer, regex flag tables inverse, keyword round trip, escape tables",
        "float/huge-number literal text, whole-query equivalence on all documents",
    ),
    "C11": (
        "delegation-shape and argument-forwarding rules; symbolic sequence algebra over the four compound implementations (sibling agreement); partial evaluation of match(); single-loader rule; abstract execution of load_data on covering JSON texts and a model file",
        "environment delegation, findall/match/query as projections of finditer, compound plan agreement, one loader",
        "json decoding itself",
    ),
    "C12": (
        "must-analysis (refusal dominates every use of the shared iterator), delegation-shape rules for aliases and views, who-may-write rule for the shared iterator; parameter-liveness rule on the three `query` entry points (every argument is handed on)",
        "negative counts refused before consumption, aliases, views, who rewraps",
        "the list-slicing law over operation histories (itertools/deque semantics)",
    ),
    "C13": (
        "operator-table exhaustiveness against compare's dispatch, reconstructed-lexer alias tables against parser dispatch maps, AST normal forms of mirror operators, forwarding rule for the filter context; abstract execution of CurrentKey and of the lexer's master pattern on alias spellings; abstract execution of the bracket parser on bare and quoted spellings of covering names; abstract execution of compare() on 42 membership samples for `in` / `contains` (arrays by value, strings by substring, objects by member name)",
        "operator exhaustiveness, alias tables, contains mirrors in, =~ full match with flags, keys selector, fake root, filter-context propagation, root-less/bare names",
        "evaluation results of extension queries on arbitrary documents",
    ),
    "C14": (
        "ordered-replace-chain rule, canonical-index rule (shared with C04), producer classification of pointer parts vs comparison representation, navigation-shape rules; abstract execution of JSONPointer.__truediv__ on covering parts (escapes, several tokens, absolute parts)",
        "inverse parse/print tables, canonical index, representation-independent equality/hash/relativity, join/parent/slash shape",
        "the resolution law of joins",
    ),
    "C15": (
        "dispatch-table agreement (loader branch / builder / Op.name / labels), writer-reader key sets, taint rule (stored value never aliased into the document), sibling diff of add variants; abstract execution of the patch loader per operation name and of its member lookup; must-pass-through rule for the builders' append; abstract execution of the three constructions, asdicts() and repeated apply on covering operation lists",
        "dispatch agreement, builder-class-name agreement, asdict keys = loader keys, no aliasing of stored values, variant deltas",
        "equality of effects of the three constructions on all documents",
    ),
    "C16": (
        "regex-AST rule on the relative-pointer grammar, guard-dominance for parts[-1], taint rule decode-once, print coverage; abstract execution of the index recogniser on a covering token set; who-may-call rule for the second entry point; abstract execution of the relative-pointer constructors, __str__ and JSONPointer.to on covering (base, relative pointer) pairs",
        "grammar admits multi-digit offset, empty-parts guard, decode once, every parsed part printed",
        "arithmetic of steps and offsets",
    ),
    "C17": (
        "constant-literal rule on printers vs folded token defaults, lexer rule-table rule (all eight tokens, escaped, longest first, before the generic name rule), no-default-spelling rule; abstract execution of the string forms under renamed identifiers; equality-only rule for token comparisons",
        "printers use environment tokens, lexer table, no default spelling in logic",
        "conflicts between an arbitrary spelling and the fixed rules",
    ),
    "C18": (
        "argparse dest derivation vs handler attribute reads, polarity rule, escape analysis of library calls vs caught classes, output def-use; file-mode vs use rule for file options; options inherited through parents=; abstract execution of load_data on a model text stream that yields text no JSON decoder accepts (must raise the decoder's error)",
        "option names, usage and polarity, error coverage with exit status and stderr, output is the library result",
        "argparse/file-system behaviour, byte-exact output",
    ),
    "C19": (
        "alias/taint analysis of the projection helpers, kind guard, loop-nesting rule, unconditional-store and non-empty-array rules; abstract execution of the selectors (location parts); who-may-write rule for the projection; abstract execution of Query._select (containers changed in place) on twelve (match, selections) cases x three styles against the statement written down on its own; the shape rules defer to it when the shape they read is not there",
        "document not written through, non-containers produce nothing, flat projection order, selected values always stored, only non-empty integer-keyed levels become arrays; on twelve covering (match, selections) cases x three styles: the projection equals the statement (rank compaction, no extra leaves, selection order), a second projection gives the same value, the document is the same objects afterwards",
        "structure of relative and root projections for every document and selection (decided on the covering cases only)",
    ),
    "C20": (
        "static part typing at match-construction sites, pass-through rules for pointer construction and patch builders, addressing rule in test/replace/remove; abstract execution of the selectors on covering small documents (typed location parts); abstract execution of match.pointer() -> test / replace / remove -> apply on every location of a covering document",
        "parts typed str/int as selected, pointer from parts without re-parsing, builder pass-through, exact-key-first addressing",
        "document equality after the edit",
    ),
}


def built(prop: str) -> bool:
    return (HERE / "rules" / f"{prop.lower()}.py").exists()


def main() -> None:
    checks = []
    not_applicable = []
    for prop, (technique, decided, undecided) in CLAIMS.items():
        if not built(prop):
            not_applicable.append(
                {
                    "property_id": prop,
                    "reason": "rules designed (DESIGN.md section 5) but not built yet; not claimed until the check exists",
                }
            )
            continue
        checks.append(
            {
                "property_id": prop,
                "quick_cmd": f"{PY} check.py {prop} --tier quick",
                "thorough_cmd": f"{PY} check.py {prop} --tier thorough",
                "evidence_file": f"/verif/evidence/{prop}.json",
                "replay_cmd_template": f"{PY} check.py {prop} --replay {{path}}",
                "engine": "sa",
                "level_claimed": {
                    "category": "other",
                    "text": (
                        "Exact structural necessary conditions of the property, decided by "
                        "static analysis of the current source on every run. Decided clauses: "
                        f"{decided}. Not decided by this technique (stated, not claimed): "
                        f"{undecided}. A pass means every enumerated instance of every rule "
                        "satisfies its rule; it is not a proof of the behavioural statement."
                    ),
                    "design_ref": f"DESIGN.md section 5, {prop}",
                },
                "level_note": (
                    "Trusted base: CPython's ast / re._parser, the engine under /verif/sa "
                    "(loader, canonicaliser and helper inliner - the rules read a canonical form of "
                    "every function -, constant folder and partial evaluator, structured dataflow, kind "
                    "lattice, call graph, escape and effect analyses, twin normaliser) and the per-rule idiom tables. "
                    "Assumes JSON-like values, no user subclassing/monkey-patching, documented "
                    "stdlib behaviour."
                ),
                "technique": "static analysis: " + technique,
            }
        )
    manifest = {
        "version": 1,
        "setup_cmd": f"{PY} -m compileall -q sa rules tools check.py selftest.py",
        "hooks": {
            "guard": "JSONPATH_VERIF",
            "enable": "none needed: the checks only parse /repo's working tree; nothing is executed or instrumented",
            "baseline_off_cmd": "cd /repo && /venv/bin/python -m pytest -ra -q -p no:cacheprovider --timeout=900 --continue-on-collection-errors",
            "source_commits": [],
            "add_only": True,
        },
        "engines": [
            {
                "name": "sa",
                "path": "/verif/sa",
                "serves_properties": [c["property_id"] for c in checks],
                "kind_free_text": "repository-specific static analyser on Python's ast: import/class/MRO resolution, behaviour-preserving canonical form of function bodies with inlining of helpers the rules have never seen, constant folding and path-exploring partial evaluation, structured dataflow (may/must), kind lattice, call graph, exception-escape and write-effect analyses, sync/async twin normaliser, regex ASTs",
            }
        ],
        "checks": checks,
        "not_applicable": not_applicable,
        "notes": (
            "Technique family: static analysis only. No check imports or runs repository code. "
            "Exit 0 pass, 1 VIOLATION, 2 ANALYSIS-ERROR (fail closed). Genuine defects of the "
            "pinned tree are repaired by fix: commits in /repo (56) or listed in known_findings.json "
            "(6 open: C01 1, C03 2, C06 1, C15 2 - the check prints KNOWN-FINDING for them and exits 0). "
            "tools/regress.py runs the three corpora kept here: the clean tree, 379 seeded breaking changes "
            "(seeded/), 460 behaviour-preserving refactorings (refactorings/; five of the last sixty still draw a false alarm or an analysis error from one or two checks - refactorings/OPEN.json, DESIGN.md 11.14)."
        ),
    }
    (HERE / "MANIFEST.json").write_text(json.dumps(manifest, indent=1) + "\n")
    print(f"MANIFEST.json: {len(checks)} checks, {len(not_applicable)} not applicable")


if __name__ == "__main__":
    main()
