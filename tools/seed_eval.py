#!/venv/bin/python
"""Confirm a seeded change and run the checks against it.

usage: seed_eval.py <dir with patch.diff + demo.py> <property-id> <name>

1. in a scratch worktree of /repo (under /tmp): the demo passes on the clean tree,
   the patch applies, the test suite still passes (719), the demo fails;
2. the patch is applied to /repo itself, every quick check is run, and the patch
   is undone straight afterwards (git checkout);
3. the change is stored as /verif/seeded/<name>/ with meta.json.
"""

from __future__ import annotations

import json
import re
import shutil
import subprocess
import sys
import tempfile
from pathlib import Path

VERIF = Path(__file__).resolve().parent.parent
PY = "/venv/bin/python"


def sh(cmd: str, cwd: str | None = None, timeout: int = 600) -> tuple[int, str]:
    p = subprocess.run(cmd, shell=True, cwd=cwd, capture_output=True, text=True, timeout=timeout)
    return p.returncode, (p.stdout + p.stderr)


def main() -> int:
    src = Path(sys.argv[1]).resolve()
    prop = sys.argv[2]
    name = sys.argv[3]
    patch = src / "patch.diff"
    demo = src / "demo.py"
    notes = (src / "notes.txt").read_text() if (src / "notes.txt").exists() else ""
    if not notes and (src / "meta.json").exists():
        notes = json.loads((src / "meta.json").read_text()).get("notes", "")
    meta: dict = {"property": prop, "name": name, "notes": notes.strip()}
    wt = Path(tempfile.mkdtemp(prefix="verif-seed-")) / "wt"
    try:
        rc, out = sh(f"git -C /repo worktree add -q --detach {wt} HEAD")
        assert rc == 0, out
        # the demo sits two levels below the worktree root (as where it was written) and the worktree
        # comes first on the module path, so that `import jsonpath` is the patched package
        (wt / "_seed" / "1").mkdir(parents=True)
        shutil.copy(demo, wt / "_seed" / "1" / "demo.py")
        rc0, out0 = sh(f"PYTHONPATH={wt} {PY} _seed/1/demo.py", cwd=str(wt))
        meta["demo_clean"] = {"exit": rc0, "tail": out0.strip().splitlines()[-1:] }
        rc, out = sh(f"git apply {patch}", cwd=str(wt))
        meta["patch_applies"] = rc == 0
        if rc != 0:
            print("PATCH DOES NOT APPLY", out)
            return 1
        rc, out = sh(f"{PY} -m compileall -q jsonpath", cwd=str(wt))
        meta["compiles"] = rc == 0
        rc, out = sh(f"{PY} -m pytest -q -p no:cacheprovider --continue-on-collection-errors 2>&1 | tail -1", cwd=str(wt))
        meta["suite_with_patch"] = out.strip()
        rc1, out1 = sh(f"PYTHONPATH={wt} {PY} _seed/1/demo.py", cwd=str(wt))
        meta["demo_patched"] = {"exit": rc1, "tail": out1.strip().splitlines()[-2:]}
    finally:
        sh(f"git -C /repo worktree remove --force {wt}")
        shutil.rmtree(wt.parent, ignore_errors=True)
    ok = (
        meta["demo_clean"]["exit"] == 0 and meta["demo_patched"]["exit"] != 0
        and re.search(r"\b719 passed", meta["suite_with_patch"]) is not None and meta["compiles"]
    )
    meta["confirmed"] = ok
    # run the checks against /repo with the patch applied
    detected: dict = {}
    rc, out = sh(f"git -C /repo apply {patch}")
    assert rc == 0, out
    try:
        # all twenty rule sets on /repo with the patch applied, in one process (tools/fastcheck.py gives the
        # verdicts of check.py without writing evidence)
        rc, out = sh(f"VERIF_REPO=/repo {PY} tools/fastcheck.py", cwd=str(VERIF))
        data = json.loads(out.strip().splitlines()[-1])
        for pid, got in data.items():
            if got[0] != 0:
                detected[pid] = {"exit": got[0], "rules": got[2] if len(got) > 2 else [], "first": [l[:300] for l in got[1][:2] if not l.startswith("ANALYSIS-ERROR")],
                                 "analysis_error": [l[:300] for l in got[1] if l.startswith("ANALYSIS-ERROR")]}
    finally:
        sh("git -C /repo checkout -- .")
        rc, out = sh("git -C /repo status --short")
        assert out.strip() == "", f"/repo not clean: {out}"
    meta["checks_reporting"] = detected
    meta["caught_by_own_property"] = prop in detected and detected[prop]["exit"] == 1
    meta["caught_by_any"] = any(v["exit"] == 1 for v in detected.values())
    meta["what_was_run"] = (
        "scratch worktree of /repo: demo on clean tree, git apply, compileall, full test suite, demo; "
        "then git -C /repo apply, all 20 quick checks, git -C /repo checkout -- ."
    )
    if ok:
        dst = VERIF / "seeded" / name
        dst.mkdir(parents=True, exist_ok=True)
        if patch.resolve() != (dst / "patch.diff").resolve():
            shutil.copy(patch, dst / "patch.diff")
            shutil.copy(demo, dst / "demo.py")
        (dst / "meta.json").write_text(json.dumps(meta, indent=1) + "\n")
    print(json.dumps({k: meta[k] for k in ("confirmed", "suite_with_patch", "demo_clean", "demo_patched", "caught_by_own_property", "caught_by_any")}, indent=1))
    for pid, v in detected.items():
        print(pid, v["exit"], v["rules"], (v["first"] or v["analysis_error"] or [""])[0][:220])
    return 0


if __name__ == "__main__":
    sys.exit(main())
