"""Checker self-test (thorough tier).

For every property a corpus of *seeded variants* of the current tree is built in
a scratch directory outside /repo and /verif, analysed with the very same rules,
and deleted:

* breaking variants - one rule instance broken (guard deleted, operands
  swapped, twin edited, table entry dropped, callee replaced): the rules of the
  property must report a violation, and the report must come from one of the
  expected rules (not from an ANALYSIS-ERROR);
* benign variants - behaviour-preserving refactorings (renamed locals,
  reordered independent guards, helper extraction, re-formatting): the rules
  must stay silent.

A variant whose anchor text is no longer present in the current tree is skipped
(the tree under analysis may legitimately have changed); the self-test fails
only if a variant that *applies* is judged wrongly, or if too few apply.
Nothing of the analysed package is imported or executed.
"""

from __future__ import annotations

import ast
import os
import random
import shutil
import sys
import tempfile
import time
from concurrent.futures import ProcessPoolExecutor
from dataclasses import dataclass
from pathlib import Path
from typing import Any
from typing import Dict
from typing import List
from typing import Optional
from typing import Tuple

HERE = Path(__file__).resolve().parent
sys.path.insert(0, str(HERE))


@dataclass
class Variant:
    prop: str
    name: str
    kind: str  # "break" | "benign"
    file: str  # relative to <repo>/jsonpath
    old: str
    new: str
    expect: Tuple[str, ...] = ()  # rule ids, any of which must fire (break only)
    occurrence: int = 0  # which occurrence of `old` (0-based); -1 = all


def V(prop: str, name: str, kind: str, file: str, old: str, new: str, expect: Tuple[str, ...] = (), occurrence: int = 0) -> Variant:
    return Variant(prop, name, kind, file, old, new, expect, occurrence)


def corpus() -> List[Variant]:
    from selftest_corpus import CORPUS

    return CORPUS


def _apply(v: Variant, root: Path) -> bool:
    path = root / "jsonpath" / v.file
    src = path.read_text()
    n = src.count(v.old)
    if n == 0:
        return False
    if v.occurrence == -1:
        out = src.replace(v.old, v.new)
    else:
        if v.occurrence >= n:
            return False
        idx = -1
        for _ in range(v.occurrence + 1):
            idx = src.index(v.old, idx + 1)
        out = src[:idx] + v.new + src[idx + len(v.old):]
    try:
        ast.parse(out)
    except SyntaxError as err:
        raise RuntimeError(f"variant {v.prop}/{v.name} does not parse: {err}") from err
    path.write_text(out)
    return True


def _run_one(args: Tuple[Variant, str]) -> Dict[str, Any]:
    v, repo_root = args
    tmp = Path(tempfile.mkdtemp(prefix="verif-selftest-"))
    try:
        shutil.copytree(Path(repo_root) / "jsonpath", tmp / "jsonpath", ignore=shutil.ignore_patterns("__pycache__"))
        try:
            applied = _apply(v, tmp)
        except RuntimeError as err:
            return {"variant": f"{v.prop}/{v.name}", "status": "error", "detail": str(err)}
        if not applied:
            return {"variant": f"{v.prop}/{v.name}", "status": "skipped", "detail": "anchor text not present"}
        os.environ["VERIF_REPO"] = str(tmp)
        from rules import Ctx
        from rules import rules_for
        from sa.loader import AnalysisError
        from sa.loader import Repo
        from sa.report import KnownFindings

        kf = KnownFindings()

        findings: List[str] = []
        err_txt: Optional[str] = None
        try:
            ctx = Ctx(Repo(tmp))
            for fn in rules_for(v.prop):
                # as check.py does: every rule runs; a rule that cannot be decided is remembered, and only counts
                # when no rule reports a violation
                try:
                    rr = fn(ctx)
                    rr.check_floor()
                except AnalysisError as err:
                    err_txt = str(err) if err_txt is None else err_txt
                    continue
                for f in rr.findings:
                    f.prop = v.prop
                # findings listed in known_findings.json are printed as KNOWN-FINDING by check.py, not as violations
                findings.extend(f"{f.rule} {f.qualname}: {f.construct}" for f in rr.findings if kf.match(f) is None)
        except AnalysisError as err:
            err_txt = str(err)
        except Exception as err:  # noqa: BLE001
            err_txt = f"crash: {err!r}"
        fired = sorted({f.split(" ", 1)[0] for f in findings})
        if v.kind == "break":
            if err_txt is not None and not findings:
                ok, why = False, f"ANALYSIS-ERROR instead of a violation: {err_txt}"
            elif not findings:
                ok, why = False, "not reported"
            elif v.expect and not (set(fired) & set(v.expect)):
                ok, why = False, f"reported by {fired}, expected one of {list(v.expect)}"
            else:
                ok, why = True, f"reported by {fired}"
        else:
            if err_txt is not None:
                ok, why = False, f"ANALYSIS-ERROR on a benign variant: {err_txt}"
            elif findings:
                ok, why = False, f"false alarm: {findings[:2]}"
            else:
                ok, why = True, "silent"
        return {"variant": f"{v.prop}/{v.name}", "kind": v.kind, "status": "ok" if ok else "FAILED", "detail": why}
    finally:
        shutil.rmtree(tmp, ignore_errors=True)


def run_selftest(prop: Optional[str], seed: int, jobs: int = 16) -> Dict[str, Any]:
    from sa.loader import repo_root

    t0 = time.time()
    items = [v for v in corpus() if prop is None or v.prop == prop]
    rnd = random.Random(seed)
    rnd.shuffle(items)
    root = str(repo_root())
    results: List[Dict[str, Any]] = []
    if items:
        with ProcessPoolExecutor(max_workers=min(jobs, max(1, len(items)))) as ex:
            results = list(ex.map(_run_one, [(v, root) for v in items]))
    failures = [f"{r['variant']}: {r['detail']}" for r in results if r["status"] in ("FAILED", "error")]
    applied = [r for r in results if r["status"] in ("ok", "FAILED")]
    skipped = [r["variant"] for r in results if r["status"] == "skipped"]
    if items and len(applied) * 2 < len(items):
        failures.append(f"only {len(applied)} of {len(items)} seeded variants apply to the current tree")
    return {
        "variants": len(items),
        "applied": len(applied),
        "breaking_detected": sum(1 for r in applied if r.get("kind") == "break" and r["status"] == "ok"),
        "benign_silent": sum(1 for r in applied if r.get("kind") == "benign" and r["status"] == "ok"),
        "skipped": skipped,
        "failures": failures,
        "results": results,
        "wall_s": round(time.time() - t0, 2),
    }


if __name__ == "__main__":
    p = sys.argv[1] if len(sys.argv) > 1 and sys.argv[1] != "all" else None
    out = run_selftest(p, int(os.environ.get("VERIF_SEED", "0") or 0))
    for r in sorted(out["results"], key=lambda r: r["variant"]):
        print(f"{r['status']:8} {r['variant']:45} {r.get('detail', '')[:150]}")
    print(f"{out['applied']}/{out['variants']} applied, {out['breaking_detected']} breaking detected, "
          f"{out['benign_silent']} benign silent, {len(out['failures'])} failures, {out['wall_s']}s")
    sys.exit(2 if out["failures"] else 0)
