"""Checker self-test: seeded AST mutations of the current tree (thorough tier).

Placeholder until the mutation corpus is built; reports zero variants.
"""

from __future__ import annotations

from typing import Any
from typing import Dict


def run_selftest(prop: str, seed: int) -> Dict[str, Any]:
    return {"variants": 0, "failures": [], "note": "mutation corpus not built yet"}
