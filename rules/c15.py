"""C15 - a patch is a faithful, reusable value.

R15.1 the document loader dispatches each operation name to the builder of that
      name and labels it so; the name sets of loader, builders and classes agree
R15.2 builder N appends the Op class whose name is N built from its own
      parameters; asdict uses the class's name; asdicts maps in order
R15.3 asdict writes the members the loader reads
R15.4 applying never aliases an operation's stored value into the document;
      the operation list is only extended by builder methods
R15.5 addne / addap differ from add only as documented
"""

from __future__ import annotations

import ast
import copy
from dataclasses import dataclass
from typing import Dict
from typing import List
from typing import Optional
from typing import Set
from typing import Tuple

from sa import twins
from sa.consteval import Instance
from sa.flow import parent_map
from sa.kinds import path_of
from sa.loader import AnalysisError
from sa.loader import ClassInfo
from sa.loader import FuncInfo
from sa.loader import short
from sa.peval import UNKNOWN
from sa.peval import Explorer
from sa.report import RuleResult

from . import Ctx
from .c05 import op_classes
from .c05 import op_name
from .common import callee_name
from .common import calls
from .common import kw

MUTATORS = {"append", "extend", "insert", "pop", "remove", "clear", "update", "setdefault", "add", "sort", "reverse"}


@dataclass(frozen=True)
class Member:
    """What `_op_pointer` / `_op_value` returns during the abstract execution of the loader."""

    kind: str  # "pointer" | "value"
    key: object  # the member of the operation object that is read
    label: object  # the operation name used in error messages


@dataclass(frozen=True)
class BoundBuilder:
    """`getattr(self, "<name>")` / `self.<name>` held in a local."""

    name: str


class BoundReader:
    """`self._op_pointer` / `self._op_value` held as a value."""

    def __init__(self, name: str) -> None:
        self.name = name


class Branch:
    """The builder call `_build` makes for one operation name."""

    def __init__(self, builder: str, kwargs: Dict[str, object], node: ast.AST, positional: int) -> None:
        self.builder = builder
        self.kwargs = kwargs
        self.node = node
        self.positional = positional
        self.lineno = getattr(node, "lineno", 0)

    @property
    def members(self) -> List[Member]:
        return [v for v in self.kwargs.values() if isinstance(v, Member)]


def _candidate_names(ctx: Ctx, fn: FuncInfo) -> Set[str]:
    """Every short identifier-like string the loader or the class-level tables of JSONPatch mention."""
    lits: Set[str] = set()
    cls = ctx.repo.require_class("JSONPatch")
    nodes: List[ast.AST] = [fn.node]
    nodes.extend(s for s in cls.node.body if isinstance(s, (ast.Assign, ast.AnnAssign)))
    # module-level tables the loader consults, and the names of the operation classes themselves
    used = {n.id for n in ast.walk(fn.node) if isinstance(n, ast.Name)}
    nodes.extend(v for k, v in fn.module.assigns.items() if k in used)
    lits |= {op_name(ctx, c) for c in op_classes(ctx)}
    for root in nodes:
        for n in ast.walk(root):
            if isinstance(n, ast.Constant) and isinstance(n.value, str) and n.value.isidentifier() and len(n.value) <= 16:  # noqa: PLR2004
                lits.add(n.value)
    return lits


def build_branches(ctx: Ctx) -> Dict[str, Branch]:
    """Abstract execution of the loader's loop body, once per candidate operation name.

    The body is partially evaluated (sa/peval.py) with the `op` member of the operation object bound to
    the name; `self._op_pointer(...)` / `self._op_value(...)` evaluate to `Member` records, and the call of
    a public method of JSONPatch - written as `self.add(...)`, through `getattr(self, name)`, through a
    local bound to either, with keyword arguments or a `**` dictionary the path built - is recorded.  A name
    for which every path raises is not an operation.
    """
    fn = ctx.repo.require_func("JSONPatch._build")
    patch_cls = ctx.repo.require_class("JSONPatch")
    loops = [n for n in fn.node.body if isinstance(n, ast.For)]
    if len(loops) != 1:
        raise AnalysisError("JSONPatch._build is no longer one loop over the operations")
    loop = loops[0]
    builders = {n for n in patch_cls.methods if not n.startswith("_")}
    folder = ctx.folder
    out: Dict[str, Branch] = {}
    for lit in sorted(_candidate_names(ctx, fn)):
        def value_oracle(e: ast.expr, env: Dict[str, object], lit: str = lit) -> object:
            if isinstance(e, ast.Subscript) and isinstance(e.slice, ast.Constant) and e.slice.value == "op":
                return lit
            if isinstance(e, ast.Attribute) and path_of(e.value) == "self" and e.attr in builders and isinstance(e.ctx, ast.Load):
                return BoundBuilder(e.attr)
            if isinstance(e, ast.Attribute) and path_of(e.value) == "self" and e.attr in ("_op_pointer", "_op_value") and isinstance(e.ctx, ast.Load):
                return BoundReader(e.attr)  # held as a value: `(self._op_pointer if is_pointer else self._op_value)(...)`
            return None

        ex: Explorer

        def on_call(e: ast.Call, args: List[object], env: Dict[str, object]) -> object:
            name = callee_name(e)
            if name in ("_op_pointer", "_op_value") and isinstance(e.func, ast.Attribute) and path_of(e.func.value) == "self":
                vals = list(args) + [None] * 4
                kws = {k.arg: ex.value(k.value, env) for k in e.keywords if k.arg}
                return Member("pointer" if name == "_op_pointer" else "value", kws.get("key", vals[1]), kws.get("op", vals[2]))
            if name == "getattr" and isinstance(e.func, ast.Name) and len(e.args) == 2 and path_of(e.args[0]) == "self":  # noqa: PLR2004
                if isinstance(args[1], str) and args[1] in builders:
                    return BoundBuilder(args[1])
                if isinstance(args[1], str) and args[1] in ("_op_pointer", "_op_value"):
                    return BoundReader(args[1])  # the reader chosen by name (`getattr(self, reader)(operation, key, name, i)`)
                return None
            f = ex.value(e.func, env)
            if isinstance(f, BoundReader):
                vals = list(args) + [None] * 4
                kws = {k.arg: ex.value(k.value, env) for k in e.keywords if k.arg}
                return Member("pointer" if f.name == "_op_pointer" else "value", kws.get("key", vals[1]), kws.get("op", vals[2]))
            if isinstance(f, BoundBuilder):
                kwargs: Dict[str, object] = {}
                for k in e.keywords:
                    v = ex.value(k.value, env)
                    if k.arg is None:
                        if not isinstance(v, dict):
                            raise AnalysisError(f"R15.1: `{short(e)}`: the `**` argument is not a dictionary the loader built")
                        kwargs.update(v)
                    else:
                        kwargs[k.arg] = v
                rec = (f.name, kwargs, e, len(e.args))
                env["$calls"] = tuple(env.get("$calls", ())) + (rec,)  # type: ignore[arg-type]
                return UNKNOWN
            return None

        ex = Explorer(folder, fn, on_call=on_call, value_oracle=value_oracle, enter_loops=True)
        ends = ex.block(list(loop.body), {"self": Instance(patch_cls, {})})
        paths = [e for e in ends if not e.get("$handlers")]
        paths += [env for (kind, _n, _v), env in zip(ex.outcomes, ex.envs)
                  if kind in ("continue", "return") and not env.get("$handlers")]
        if not paths:
            continue  # every path raises: this name is refused, it is not an operation
        recs = [env.get("$calls", ()) for env in paths]
        if any(len(r) != 1 for r in recs):  # type: ignore[arg-type]
            if all(len(r) == 0 for r in recs):  # type: ignore[arg-type]
                raise AnalysisError(f"R15.1: `op == {lit!r}` is accepted by the loader without calling a builder method")
            raise AnalysisError(f"R15.1: branch `{lit}` does not call exactly one builder method on every path")
        first = recs[0][0]  # type: ignore[index]
        for r in recs[1:]:
            if (r[0][0], r[0][1]) != (first[0], first[1]):  # type: ignore[index]
                raise AnalysisError(f"R15.1: branch `{lit}` builds different operations on different paths")
        out[lit] = Branch(first[0], dict(first[1]), first[2], first[3])
    return out


#: builder parameter -> (kind of member, member of the operation object) as RFC 6902 names them
PARAMETER_MEMBER = {"path": ("pointer", "path"), "from_": ("pointer", "from"), "value": ("value", "value")}


def r15_1(ctx: Ctx) -> RuleResult:
    rr = RuleResult("R15.1", "loader branch, builder and label agree for every operation name", floor=8)
    fn = ctx.repo.require_func("JSONPatch._build")
    patch_cls = ctx.repo.require_class("JSONPatch")
    names = {op_name(ctx, c) for c in op_classes(ctx)}
    br = build_branches(ctx)
    if not br:
        raise AnalysisError("R15.1: no operation name is dispatched to a builder method in JSONPatch._build")
    for lit, b in sorted(br.items()):
        bad = []
        if b.builder != lit:
            bad.append(f"calls self.{b.builder}()")
        labels = [m.label for m in b.members]
        wrong = [x for x in labels if x != lit]
        if wrong:
            bad.append(f"labels its members {sorted(set(map(str, wrong)))}")
        if b.positional:
            raise AnalysisError(f"R15.1: branch `{lit}` passes positional arguments to the builder")
        for param, v in sorted(b.kwargs.items()):
            want = PARAMETER_MEMBER.get(param)
            if want is None or not isinstance(v, Member):
                raise AnalysisError(f"R15.1: branch `{lit}`: argument `{param}` is not a member read by _op_pointer/_op_value")
            if (v.kind, v.key) != want:
                bad.append(f"passes the {v.kind} member `{v.key}` as `{param}`")
        if bad:
            rr.bad(fn, b.node, f"the loader branch for `{lit}` " + " and ".join(bad) +
                   f": a patch document containing `{lit}` builds a different operation or reports the wrong one",
                   construct=f"op == {lit!r}: {'; '.join(bad)}")
        else:
            rr.ok(fn.loc(b.node), f"`{lit}` -> self.{lit}({', '.join(sorted(b.kwargs))}) labelled {sorted(set(map(str, labels)))}")
    if set(br) != names:
        rr.bad(fn, fn.node, f"operation names handled by the loader {sorted(br)} differ from the operation "
               f"classes {sorted(names)}", construct="loader names vs Op names")
    builders = {n for n in patch_cls.methods if n in names}
    if builders != names:
        rr.bad(fn, fn.node, f"builder methods {sorted(builders)} differ from the operation classes {sorted(names)}",
               construct="builder names vs Op names")
    return rr


def r15_2(ctx: Ctx) -> RuleResult:
    rr = RuleResult("R15.2", "builder, operation class and printed name agree", floor=16)
    patch_cls = ctx.repo.require_class("JSONPatch")
    by_name = {op_name(ctx, c): c for c in op_classes(ctx)}
    for name, cls in sorted(by_name.items()):
        b = patch_cls.methods.get(name)
        if b is None:
            rr.bad(None, None, f"no builder method for operation `{name}`", construct=f"builder {name}",
                   file=patch_cls.module.relpath, qualname=patch_cls.qualname)
            continue
        params = [a.arg for a in b.node.args.args if a.arg != "self"]
        appends = [c for c in calls(b.node, "append") if path_of(c.func.value) == "self.ops"]  # type: ignore[union-attr]
        if len(appends) != 1 or not appends[0].args or not isinstance(appends[0].args[0], ast.Call):
            rr.bad(b, b.node, f"builder `{name}` must append exactly one operation object to self.ops",
                   construct=f"{name}: append")
            continue
        # ... on every path: the append is a statement of the body itself and nothing before it returns
        top = [st for st in b.node.body if any(n is appends[0] for n in ast.walk(st))]
        early = []
        if top:
            for st in b.node.body:
                if st is top[0]:
                    break
                early += [n for n in ast.walk(st) if isinstance(n, ast.Return)]
        if not top or not isinstance(top[0], ast.Expr) or early:
            at = early[0] if early else appends[0]
            from .common import path_conditions

            conds = [short(t) if br else f"not ({short(t)})" for t, br in path_conditions(b.node, at)]
            rr.bad(b, at, f"builder `{name}` does not append its operation on every path" + (f" (it returns early when `{' and '.join(conds)}`)" if early and conds else "")
                   + ": a patch built with the method lacks an operation that the same patch loaded from its JSON form has",
                   construct=f"{name}: operation not appended when {' and '.join(conds) or 'some condition holds'}")
            continue
        ctor = appends[0].args[0]
        cname = callee_name(ctor)
        if cname != cls.name:
            rr.bad(b, ctor, f"builder `{name}` constructs {cname}, whose name is not `{name}`", construct=short(ctor))
            continue
        # arguments derive from the builder's own parameters
        derived: Dict[str, str] = {p: p for p in params}
        for n in ast.walk(b.node):
            if isinstance(n, ast.Assign) and isinstance(n.targets[0], ast.Name) and isinstance(n.value, ast.Call):
                if callee_name(n.value) == "_ensure_pointer" and n.value.args and path_of(n.value.args[0]) in params:
                    derived[n.targets[0].id] = path_of(n.value.args[0])  # type: ignore[assignment]
        def src_of(e: ast.expr) -> Optional[str]:
            # a parameter, a local bound to one, or either routed through _ensure_pointer
            if isinstance(e, ast.Call) and callee_name(e) == "_ensure_pointer" and len(e.args) == 1 and not e.keywords:
                return src_of(e.args[0])
            return derived.get(path_of(e) or "")

        ok = True
        for k in ctor.keywords:
            src = src_of(k.value)
            if src is None or (k.arg != src and not (k.arg == src.rstrip("_") or k.arg.rstrip("_") == src.rstrip("_"))):  # type: ignore[union-attr]
                ok = False
                rr.bad(b, ctor, f"builder `{name}` passes {short(k.value)} as `{k.arg}`: arguments must be the "
                       "builder's own parameters of the same name", construct=short(ctor))
        if ctor.args:
            ok = False
            rr.bad(b, ctor, "operation objects are constructed with keyword arguments", construct=short(ctor))
        if ok:
            rr.ok(b.loc(ctor), f"{name}(): self.ops.append({short(ctor, 60)})")
        # asdict uses self.name
        ad = ctx.repo.find_method(cls, "asdict")
        if ad is None:
            raise AnalysisError(f"{cls.name}.asdict not found")
        dicts = [n for n in ast.walk(ad.node) if isinstance(n, ast.Dict)]
        good = False
        for d in dicts:
            for k, v in zip(d.keys, d.values):
                if isinstance(k, ast.Constant) and k.value == "op":
                    good = path_of(v) == "self.name"
        if good:
            rr.ok(ad.loc(), f"{cls.name}.asdict: 'op' is self.name ({name})")
        else:
            rr.bad(ad, ad.node, "asdict must print the operation's own name (`self.name`)", construct="asdict op")
    asd = patch_cls.methods.get("asdicts")
    if asd is None:
        raise AnalysisError("JSONPatch.asdicts not found")
    comps = [n for n in ast.walk(asd.node) if isinstance(n, ast.ListComp)]
    if (
        len(comps) == 1 and len(comps[0].generators) == 1 and not comps[0].generators[0].ifs
        and path_of(comps[0].generators[0].iter) == "self.ops"
        and isinstance(comps[0].elt, ast.Call) and callee_name(comps[0].elt) == "asdict"
    ):
        rr.ok(asd.loc(), "asdicts: [op.asdict() for op in self.ops]")
    else:
        rr.bad(asd, asd.node, "asdicts must map asdict over self.ops in order, without a condition", construct="asdicts")
    return rr


def r15_3(ctx: Ctx) -> RuleResult:
    rr = RuleResult("R15.3", "asdict writes exactly the members the loader reads", floor=8)
    br = build_branches(ctx)
    by_name = {op_name(ctx, c): c for c in op_classes(ctx)}
    for name, cls in sorted(by_name.items()):
        ad = ctx.repo.find_method(cls, "asdict")
        if ad is None or name not in br:
            continue
        written: Set[str] = set()
        for d in [n for n in ast.walk(ad.node) if isinstance(n, ast.Dict)]:
            for k in d.keys:
                if isinstance(k, ast.Constant) and isinstance(k.value, str):
                    written.add(k.value)
        written.discard("op")
        read: Set[str] = {str(m.key) for m in br[name].members}
        if written == read:
            rr.ok(ad.loc(), f"{name}: members {sorted(written)}")
        else:
            rr.bad(ad, ad.node, f"`{name}`: asdict writes {sorted(written)} but the loader reads {sorted(read)}",
                   construct=f"{name}: {sorted(written)} vs {sorted(read)}")
    return rr


def _self_fields(e: ast.AST) -> List[ast.Attribute]:
    return [
        n for n in ast.walk(e)
        if isinstance(n, ast.Attribute) and isinstance(n.value, ast.Name) and n.value.id == "self"
        and isinstance(n.ctx, ast.Load)
    ]


def r15_4(ctx: Ctx, rule: str = "R15.4") -> RuleResult:
    rr = RuleResult(rule, "stored operation values are never aliased into the document", floor=8)
    pointer_fields = {"path", "source", "dest", "name"}
    for cls in op_classes(ctx):
        fn = cls.methods.get("apply")
        if fn is None:
            continue
        name = op_name(ctx, cls)
        parents = parent_map(fn.node)
        for f in _self_fields(fn.node):
            if f.attr in pointer_fields:
                continue
            # find the sink this occurrence flows into
            cur: ast.AST = f
            copied = False
            sink: Optional[ast.AST] = None
            while True:
                par = parents.get(id(cur))
                if par is None:
                    break
                if isinstance(par, ast.Call) and callee_name(par) == "deepcopy" and cur in par.args:
                    copied = True
                elif isinstance(par, ast.Call) and callee_name(par) in ("append", "insert", "extend", "setdefault", "update") and cur in par.args:
                    sink = par
                    break
                elif isinstance(par, ast.Call) and callee_name(par) in ("copy", "list", "dict", "tuple", "set") and par.args and par.args[0] is cur:
                    # a shallow copy: the containers inside the value are still the operation's own
                    cur = par
                    continue
                elif isinstance(par, ast.Call):
                    # passed to some other function (e.g. an equality routine): not a document sink
                    break
                elif isinstance(par, ast.Return):
                    sink = par
                    break
                elif isinstance(par, ast.Assign) and cur is par.value:
                    if any(isinstance(t, ast.Subscript) for t in par.targets):
                        sink = par
                    break
                elif isinstance(par, (ast.Compare, ast.stmt)):
                    break
                cur = par
            if sink is None:
                continue
            if copied:
                rr.ok(fn.loc(sink), f"{name}: `{short(sink, 70)}` stores a deep copy of self.{f.attr}")
            else:
                rr.bad(fn, sink, f"`{name}` puts the operation's own `self.{f.attr}` object into the document: a "
                       "later operation (or the caller) that modifies the document then modifies the patch, so "
                       "applying the patch again gives a different result", construct=short(sink))
    # who extends the operation list
    patch_cls = ctx.repo.require_class("JSONPatch")
    names = {op_name(ctx, c) for c in op_classes(ctx)}
    for mname, m in patch_cls.methods.items():
        for c in calls(m.node):
            if callee_name(c) in MUTATORS and isinstance(c.func, ast.Attribute) and path_of(c.func.value) == "self.ops":
                if mname in names:
                    rr.ok(m.loc(c), f"{mname}: builder extends self.ops")
                else:
                    rr.bad(m, c, f"`{mname}` changes the patch's operation list; only builder methods may",
                           construct=short(c))
        for n in ast.walk(m.node):
            if isinstance(n, (ast.Assign, ast.AugAssign)):
                targets = n.targets if isinstance(n, ast.Assign) else [n.target]
                for t in targets:
                    if path_of(t) == "self.ops" and mname != "__init__":
                        rr.bad(m, n, f"`{mname}` rebinds self.ops", construct=short(n))
    # _build / _load / apply do not mutate their argument
    for mname in ("_build", "_load", "apply"):
        m = patch_cls.methods.get(mname)
        if m is None:
            raise AnalysisError(f"JSONPatch.{mname} not found")
        params = [a.arg for a in m.node.args.args if a.arg != "self"]
        muts = [
            c for c in calls(m.node)
            if callee_name(c) in MUTATORS and isinstance(c.func, ast.Attribute) and path_of(c.func.value) in params
        ]
        for c in muts:
            rr.bad(m, c, f"`{mname}` mutates its argument", construct=short(c))
        if not muts:
            rr.ok(m.loc(), f"{mname}: argument not mutated")
    return rr


class _StripAddNe(ast.NodeTransformer):
    """`if K not in parent: S`  ->  `S`   (the documented addne difference)."""

    def __init__(self) -> None:
        self.count = 0

    def visit_If(self, node: ast.If) -> object:
        self.generic_visit(node)
        t = node.test
        if (
            not node.orelse
            and isinstance(t, ast.Compare)
            and len(t.ops) == 1
            and isinstance(t.ops[0], ast.NotIn)
        ):
            self.count += 1
            return node.body
        return node


class _StripAddAp(ast.NodeTransformer):
    """`if obj is UNDEFINED: parent.append(V) else: S`  ->  `S`."""

    def __init__(self) -> None:
        self.count = 0
        self.appended: List[str] = []

    def visit_If(self, node: ast.If) -> object:
        self.generic_visit(node)
        t = node.test
        if (
            isinstance(t, ast.Compare)
            and len(t.ops) == 1
            and isinstance(t.ops[0], ast.Is)
            and isinstance(t.comparators[0], ast.Name)
            and t.comparators[0].id == "UNDEFINED"
            and len(node.body) == 1
            and isinstance(node.body[0], ast.Expr)
            and isinstance(node.body[0].value, ast.Call)
            and callee_name(node.body[0].value) == "append"
            and node.orelse
        ):
            self.count += 1
            self.appended.append(ast.unparse(node.body[0].value.args[0]))
            return node.orelse
        return node


EXT_DOC = {"a": {"b": 1, "n": None}, "l": [1, 2], "s": "x"}
EXT_TARGETS = ["", "/a/b", "/a/n", "/a/c", "/l/0", "/l/2", "/l/-", "/l/5", "/l/x", "/x/y", "/a/b/c", "/s/0", "/a"]


def _extension_by_execution(ctx: Ctx, rr: RuleResult, variant: str, fn: FuncInfo) -> None:
    """`addne` / `addap` as the documentation words them (rules/rfc6902.py), executed abstractly through
    JSONPatch([...]).apply(doc) on targets that cover: the root, an existing / a null / a new member, array positions
    inside, at and past the end, `-`, a non-index token, a missing parent, a scalar parent."""
    import copy as _copy

    from sa.peval import UNKNOWN

    from . import rfc6902
    from .model import RAISES
    from .model import Model
    from .model import _ConstructorRaises

    for target in EXT_TARGETS:
        if variant == "addap" and target == "/l/x":
            continue  # (whether a token that is no index at all "cannot be resolved" is not settled by the documentation)
        op = {"op": variant, "path": target, "value": {"v": [9]}}
        try:
            want: object = rfc6902.apply_patch(EXT_DOC, [op])
            refused = False
        except rfc6902.Refused:
            want, refused = None, True
        model = Model(ctx, "R15.5")
        model.whole_bodies = model.auto_construct = model.exact_exceptions = model.heap = True
        doc = _copy.deepcopy(EXT_DOC)
        try:
            patch = model.new("jsonpath.patch.JSONPatch", [_copy.deepcopy(op)])
        except _ConstructorRaises:
            rr.bad(fn, fn.node, f"a patch cannot be built from {op}: {model.last_raised}", construct=f"JSONPatch([{variant} {target!r}]) raises")
            continue
        got = model.call(patch, "apply", [doc])
        if got is UNKNOWN:
            raise AnalysisError(f"R15.5: the result of applying {op} cannot be determined")
        if got is RAISES:
            c = model.last_raised or ""
            if not refused:
                rr.bad(fn, fn.node, f"applying {op} to {EXT_DOC} raises {c.split('.')[-1]}; as documented the result is {want!r:.120}",
                       construct=f"{variant} {target!r} raises")
            elif not ctx.repo.is_subclass(c, "JSONPatchError"):
                rr.bad(fn, fn.node, f"applying {op} fails with {c}, which is not a patch error", construct=f"{variant} {target!r} raises {c}")
            else:
                rr.ok(fn.loc(), f"{variant} {target!r}: {c.split('.')[-1]}")
            continue
        if refused:
            rr.bad(fn, fn.node, f"applying {op} to {EXT_DOC} returns {got!r:.120}; as documented (add, except ...) this is an error",
                   construct=f"{variant} {target!r} returns a document")
        elif not rfc6902.jeq(got, want):
            rr.bad(fn, fn.node, f"applying {op} to {EXT_DOC} gives {got!r:.140}; as documented the result is {want!r:.140}", construct=f"{variant} {target!r}")
        else:
            rr.ok(fn.loc(), f"{variant} {target!r} = {want!r:.80}")


def r15_5(ctx: Ctx) -> RuleResult:
    rr = RuleResult("R15.5", "addne / addap differ from add only as documented", floor=2)
    by_name = {op_name(ctx, c): c for c in op_classes(ctx)}
    for n in ("add", "addne", "addap"):
        if n not in by_name or "apply" not in by_name[n].methods and ctx.repo.find_method(by_name[n], "apply") is None:
            raise AnalysisError(f"R15.5: operation `{n}` not found")
    add = ctx.repo.find_method(by_name["add"], "apply")
    assert add is not None
    base = twins.normalise(add.node)
    for variant, stripper_cls, what in (
        ("addne", _StripAddNe, "leave an existing object member untouched (`if key not in parent:` around the member store)"),
        ("addap", _StripAddAp, "append when the array index cannot be resolved (`if obj is UNDEFINED: parent.append(v) else: ...`)"),
    ):
        fn = ctx.repo.find_method(by_name[variant], "apply")
        assert fn is not None
        if fn is add:
            rr.bad(fn, fn.node, f"`{variant}` inherits add's apply: it does not {what}", construct=f"{variant} = add")
            continue
        node = copy.deepcopy(fn.node)
        st = stripper_cls()
        node = st.visit(node)
        ast.fix_missing_locations(node)
        got = twins.normalise(node)
        if st.count == 1 and twins.equal(base, got):
            rr.ok(fn.loc(), f"{variant}.apply == add.apply except: {what}")
            continue
        # not written as `add` with the one documented change in the place this rule knows: what the operation does is
        # then found by executing it (a failure to follow the execution fails the run)
        before = len(rr.findings)
        _extension_by_execution(ctx, rr, variant, fn)
        if len(rr.findings) == before:
            rr.note(f"{variant}.apply is not textually `add` with one change ({st.count} recognised places); decided by execution on {len(EXT_TARGETS)} targets")
    return rr


def r15_6(ctx: Ctx) -> RuleResult:
    """A patch printed by `asdicts()` and loaded again is the same patch only if the loader, with the patch's default
    options, reads every `path` / `from` text as the pointer that printed it (= R3.6, for the defaults of JSONPatch)."""
    from .c03 import r3_6

    return r3_6(ctx, "R15.6", "jsonpath.patch.JSONPatch")


def r15_7(ctx: Ctx) -> RuleResult:
    """A member of an operation object is required to be *present*, whatever its value: `{"op": "add", "path": "/a",
    "value": null}` has a value.  The loader's member lookup is executed abstractly (rules/model.py) on an operation
    whose member is null, false, 0 and "" - it must hand back that value - and on one without the member - it must
    raise."""
    from sa.peval import UNKNOWN

    from .model import RAISES
    from .model import MObj
    from .model import Model

    rr = RuleResult("R15.7", "a member of an operation is missing only when it is absent", floor=5)
    fn = ctx.repo.require_func("JSONPatch._op_value")
    from .common import own_params

    params = ["self"] + own_params(fn)
    if len(params) < 5:  # noqa: PLR2004
        raise AnalysisError("R15.7: JSONPatch._op_value(self, operation, key, op, i) signature changed")
    model = Model(ctx, "R15.7")
    patch = MObj(model, "JSONPatch", {"unicode_escape": True, "uri_decode": False, "ops": UNKNOWN})
    for label, value in (("null", None), ("false", False), ("0", 0), ('""', "")):
        got = model.call(patch, "_op_value", [{"value": value, "op": "add", "path": "/a"}, "value", "add", 0])
        if got is UNKNOWN:
            raise AnalysisError(f"R15.7: the result of _op_value for a member that is {label} cannot be determined")
        if got is not RAISES and got == value and type(got) is type(value):
            rr.ok(fn.loc(), f"_op_value: a member that is {label} is read as {label}")
        else:
            rr.bad(fn, fn.node, f"an operation whose `value` member is {label} is "
                   + ("refused as if the member were missing" if got is RAISES else f"read as {got!r}")
                   + ": `{\"op\": \"add\", \"path\": \"/a\", \"value\": " + label + "}` is a valid operation, and the patch's own asdicts() "
                   "output is then rejected by the loader", construct=f"_op_value: member {label} -> {'raise' if got is RAISES else repr(got)}")
    got = model.call(patch, "_op_value", [{"op": "add", "path": "/a"}, "value", "add", 0])
    if got is RAISES:
        rr.ok(fn.loc(), "_op_value: an absent member is refused")
    elif got is UNKNOWN:
        raise AnalysisError("R15.7: the result of _op_value for an absent member cannot be determined")
    else:
        rr.bad(fn, fn.node, f"an operation without a `value` member is read as {got!r} instead of being refused",
               construct=f"_op_value: absent member -> {got!r}")
    return rr


PATCH_LISTS = (
    ({"a": {"x": 1}, "b": [1, 2], "c": 0, "d": {"dd": [1]}, "f": {"g": [7]}, "h": [], "i/j": [1, "x"], "k": "keep", "l": [0]},
     [{"op": "add", "path": "/a/new", "value": {"k": [1]}}, {"op": "remove", "path": "/b/0"}, {"op": "replace", "path": "/c", "value": None},
      {"op": "move", "from": "/d", "path": "/e"}, {"op": "copy", "from": "/f/g", "path": "/h/-"}, {"op": "test", "path": "/i~1j", "value": [1, "x"]},
      {"op": "addne", "path": "/k", "value": 1}, {"op": "addne", "path": "/k2", "value": [2]}, {"op": "addap", "path": "/l/9", "value": {"z": 2}},
      {"op": "addap", "path": "/l/0", "value": 3}, {"op": "add", "path": "/h/0/-", "value": 8}, {"op": "add", "path": "/a/new/k/-", "value": 2}]),
    ({"list": [], "0": {"1": [0]}},
     [{"op": "add", "path": "/list/-", "value": []}, {"op": "add", "path": "/list/0/-", "value": {}}, {"op": "copy", "from": "/list", "path": "/0/1/-"},
      {"op": "move", "from": "/0/1/0", "path": "/list/0/0/m"}, {"op": "replace", "path": "", "value": {"all": [1]}}, {"op": "add", "path": "/all/-", "value": 2}]),
    # addne on a member whose name starts with the key marker (`#name` is a member like any other when it does not
    # exist, although `name` does); replace with empty and nested containers that later operations extend; a move onto
    # itself
    ({"name": 1, "r": {"e": 0, "n": 0}, "m": [1]},
     [{"op": "addne", "path": "/#name", "value": "new"}, {"op": "addne", "path": "/~0name", "value": "new2"}, {"op": "replace", "path": "/r/e", "value": []},
      {"op": "add", "path": "/r/e/-", "value": 1}, {"op": "replace", "path": "/r/n", "value": {"deep": {"er": []}}}, {"op": "add", "path": "/r/n/deep/er/-", "value": 2},
      {"op": "replace", "path": "/m/0", "value": {}}, {"op": "add", "path": "/m/0/k", "value": 3}, {"op": "move", "from": "/m", "path": "/m"}]),
    ([1, [2, 3], {"k": None}],
     [{"op": "test", "path": "/2/k", "value": None}, {"op": "remove", "path": "/1/0"}, {"op": "addap", "path": "/7", "value": "end"}, {"op": "addne", "path": "/2/k", "value": 0},
      {"op": "copy", "from": "/1", "path": "/1/-"}]),
)


def r15_8(ctx: Ctx) -> RuleResult:
    """The property itself on covering operation lists, by abstract execution (rules/model.py; exceptions as they run,
    lists and objects changed in place): a patch built from the JSON form, from the equivalent chain of builder calls
    and from its own `asdicts()` output prints the same list of dicts - the one it was given, operation names
    included - and the three have the same effect on the document, which is the one RFC 6902 (and the documented
    addne / addap) defines; applying does not change the patch or the caller's list; applying the same patch twice to
    equal documents gives equal results that share no array or object with each other or with the patch."""
    import copy as _copy

    from sa.peval import UNKNOWN

    from . import rfc6902
    from .model import RAISES
    from .model import MObj
    from .model import Model
    from .model import _ConstructorRaises

    rr = RuleResult("R15.8", "the three constructions of a patch print and act alike; applying leaves the patch and the caller's list alone (covering samples)", floor=len(PATCH_LISTS) * 6)
    cls = ctx.repo.require_class("jsonpath.patch.JSONPatch")
    fn = ctx.repo.find_method(cls, "asdicts")
    afn = ctx.repo.find_method(cls, "apply")
    if fn is None or afn is None:
        raise AnalysisError("R15.8: JSONPatch.asdicts / apply not found")
    for k, (doc, ops) in enumerate(PATCH_LISTS):
        label = f"operation list {k + 1} ({', '.join(str(o['op']) for o in ops)})"
        want = rfc6902.apply_patch(doc, ops)
        model = Model(ctx, "R15.8")
        model.whole_bodies = model.auto_construct = model.exact_exceptions = model.heap = True
        given = _copy.deepcopy(ops)
        try:
            from_json = model.new("jsonpath.patch.JSONPatch", given)
            built = model.new("jsonpath.patch.JSONPatch")
        except _ConstructorRaises:
            rr.bad(afn, afn.node, f"{label}: a patch cannot be built from the JSON form ({model.last_raised})", construct=f"list {k + 1}: JSONPatch(ops) raises")
            continue
        chained: object = built
        for o in ops:
            kw_ = {("from_" if a == "from" else a): _copy.deepcopy(v) for a, v in o.items() if a != "op"}
            chained = model.call(chained, str(o["op"]), [], kw_) if isinstance(chained, MObj) else UNKNOWN
            if chained is RAISES:
                break
        if not isinstance(chained, MObj):
            rr.bad(afn, afn.node, f"{label}: the chain of builder calls " + ("raises " + str(model.last_raised) if chained is RAISES else "does not return the patch"),
                   construct=f"list {k + 1}: builder chain")
            continue
        printed = model.call(from_json, "asdicts", [])
        printed_built = model.call(chained, "asdicts", [])
        if not isinstance(printed, list) or not isinstance(printed_built, list) or not rfc6902_known(printed) or not rfc6902_known(printed_built):
            raise AnalysisError(f"R15.8: what asdicts() returns for {label} cannot be determined")
        try:
            again = model.new("jsonpath.patch.JSONPatch", _copy.deepcopy(printed))
        except _ConstructorRaises:
            rr.bad(fn, fn.node, f"{label}: the patch cannot be loaded from its own asdicts() output ({model.last_raised})", construct=f"list {k + 1}: JSONPatch(asdicts()) raises")
            continue
        printed_again = model.call(again, "asdicts", [])
        for what, got in (("the JSON form", printed), ("the builder calls", printed_built), ("its own asdicts() output", printed_again)):
            if got == ops and all(type(a) is type(b) for a, b in zip(got, ops)):
                rr.ok(fn.loc(), f"{label}: built from {what}, it prints the list it was given")
            else:
                diff = next((i for i, (a, b) in enumerate(zip(got if isinstance(got, list) else [], ops)) if a != b), None)
                rr.bad(fn, fn.node, f"{label}: built from {what} the patch prints {got[diff] if diff is not None and isinstance(got, list) else got!r:.120} "
                       f"where it was given {ops[diff] if diff is not None else ops!r:.120}", construct=f"list {k + 1}: asdicts() of the patch built from {what}")
        results = []
        for what, patch_obj in (("the JSON form", from_json), ("the builder calls", chained), ("its own asdicts() output", again), ("the JSON form, applied again", from_json)):
            r = model.call(patch_obj, "apply", [_copy.deepcopy(doc)])
            if r is UNKNOWN:
                raise AnalysisError(f"R15.8: the result of applying {label} (built from {what}) cannot be determined")
            if r is RAISES:
                rr.bad(afn, afn.node, f"{label}: built from {what}, applying it raises {model.last_raised}", construct=f"list {k + 1}: apply raises ({what})")
                continue
            results.append(r)
            if rfc6902.jeq(r, want):
                rr.ok(afn.loc(), f"{label}: built from {what}, it has the defined effect")
            else:
                rr.bad(afn, afn.node, f"{label}: built from {what}, applying it gives {r!r:.140}; the operations define {want!r:.140}",
                       construct=f"list {k + 1}: effect of the patch built from {what}")
        after = model.call(from_json, "asdicts", [])
        if after != ops:
            rr.bad(afn, afn.node, f"{label}: after being applied the patch prints {after!r:.140}: applying it changed it", construct=f"list {k + 1}: the patch changes when applied")
        elif not rfc6902.jeq(given, ops):
            rr.bad(afn, afn.node, f"{label}: the caller's list of operations was changed", construct=f"list {k + 1}: the caller's list changes")
        elif any(rfc6902.shares_structure(a, b) for i, a in enumerate(results) for b in results[i + 1:]) or any(rfc6902.shares_structure(given, r) for r in results):
            rr.bad(afn, afn.node, f"{label}: two results of applying the patch (or a result and the patch) share an array or object: they are not independent",
                   construct=f"list {k + 1}: results share structure")
        else:
            rr.ok(afn.loc(), f"{label}: the patch and the caller's list are unchanged, the results are independent")
    return rr


def rfc6902_known(v: object) -> bool:
    from sa.peval import _foldable

    return _foldable(v)


def r15_9(ctx: Ctx) -> RuleResult:
    """A patch printed by `asdicts()` and loaded again names the same targets only if reading a pointer's text undoes
    what printing it did: the reference-token decoder is the inverse of the encoder, `~1` before `~0` (= R4.1, the
    codec of jsonpath.pointer, for the pointers a patch prints)."""
    from .c04 import r4_1

    return r4_1(ctx, "R15.9")


RULES = [r15_1, r15_2, r15_3, r15_4, r15_5, r15_6, r15_7, r15_8, r15_9]
