"""C06 - only the documented error families ever escape; every call terminates.

R6.1/R6.2  escape set of every documented entry point (explicit raises plus the
           closed table of partial built-in operations, minus what handlers
           catch) is inside the entry's documented family.
R6.3       handler soundness: no shadowed `except` clause; translating handlers
           re-raise into the family of their entry.
R6.4       every `while` loop of the lexer/parser/token stream makes progress.
R6.5       rendering an error (`__str__` of every exception class) raises nothing.
"""

from __future__ import annotations

import ast
from typing import Dict
from typing import List
from typing import Optional
from typing import Set
from typing import Tuple

from sa.escapes import Origin
from sa.flow import Flow
from sa.loader import AnalysisError
from sa.loader import FuncInfo
from sa.loader import short
from sa.must import MustDomain
from sa.report import RuleResult

from . import Ctx
from .common import calls
from .common import callee_name

# entry groups: (label, allowed base classes, [entry function names])
JSONPATH_ENTRIES = [
    "JSONPathEnvironment.compile",
    "JSONPathEnvironment.findall", "JSONPathEnvironment.finditer", "JSONPathEnvironment.match",
    "JSONPathEnvironment.query", "JSONPathEnvironment.findall_async", "JSONPathEnvironment.finditer_async",
    "Lexer.tokenize", "Parser.parse",
    "JSONPath.findall", "JSONPath.finditer", "JSONPath.match", "JSONPath.query",
    "JSONPath.findall_async", "JSONPath.finditer_async",
    "CompoundJSONPath.findall", "CompoundJSONPath.finditer", "CompoundJSONPath.match",
    "CompoundJSONPath.query", "CompoundJSONPath.findall_async", "CompoundJSONPath.finditer_async",
]
POINTER_BUILD_ENTRIES = [
    "JSONPointer.__init__", "JSONPointer.from_parts", "JSONPointer.from_match",
    "JSONPointer.join", "JSONPointer.__truediv__", "JSONPointer.parent",
]
POINTER_RESOLVE_ENTRIES = ["JSONPointer.resolve", "JSONPointer.resolve_parent", "JSONPointer.exists"]
POINTER_RESOLVE_TEXT_ENTRIES = ["jsonpath.pointer.resolve"]  # builds the pointer from text first
RELATIVE_ENTRIES = ["RelativeJSONPointer.__init__", "RelativeJSONPointer.to", "JSONPointer.to"]
PATCH_ENTRIES = [
    "JSONPatch.__init__", "JSONPatch.apply", "jsonpath.patch.apply",
    "JSONPatch.add", "JSONPatch.addne", "JSONPatch.addap", "JSONPatch.remove",
    "JSONPatch.replace", "JSONPatch.move", "JSONPatch.copy", "JSONPatch.test",
    "JSONPatch.asdicts",
]

GROUPS = [
    ("jsonpath", ["JSONPathError"], JSONPATH_ENTRIES),
    ("pointer construction", ["JSONPointerError"], POINTER_BUILD_ENTRIES),
    # "resolution fails only with pointer resolution errors"
    ("pointer resolution", ["JSONPointerResolutionError"], POINTER_RESOLVE_ENTRIES),
    ("pointer resolution from text", ["JSONPointerError"], POINTER_RESOLVE_TEXT_ENTRIES),
    ("relative pointer", ["RelativeJSONPointerError", "JSONPointerError"], RELATIVE_ENTRIES),
    ("patch", ["JSONPatchError"], PATCH_ENTRIES),
]

# Exemptions: (class escaping, origin function suffix, reason).  Each is one
# named construct outside the stated claim.
EXEMPT: List[Tuple[str, str, str]] = [
    ("json.JSONDecodeError", "_data.load_data",
     "a document supplied as JSON *text* is decoded by json.loads; the claim is about "
     "queries/pointers/patches applied to JSON values (the CLI reports this class separately)"),
    ("json.JSONDecodeError", "patch.JSONPatch._load",
     "a patch supplied as JSON text is decoded by json.loads before it is a list of operations"),
    ("UnicodeDecodeError", "_data.load_data",
     "a document supplied as a *binary file* that is not UTF-8: decoding the caller's bytes, like decoding the caller's "
     "JSON text, comes before there is a JSON value (the CLI reports this class separately)"),
    ("UnicodeDecodeError", "patch.JSONPatch._load",
     "a patch supplied as a binary file that is not UTF-8 (as above)"),
    ("TypeError", "pointer.JSONPointer.__truediv__",
     "explicit operand-type contract of the `/` operator for a non-str right operand; the claim "
     "covers text given as a pointer"),
    ("ValueError", "fluent_api.Query.",
     "documented ValueError of the query iterator for negative counts (property C12)"),
]


def _exempt(cls: str, origin: Origin) -> Optional[str]:
    for c, fsuffix, reason in EXEMPT:
        if cls == c and fsuffix in origin.func:
            return reason
    return None


def _allowed(ctx: Ctx, cls: str, bases: List[str]) -> bool:
    return any(ctx.repo.is_subclass(cls, b) for b in bases)


def r6_1(ctx: Ctx, rule: str = "R6.1", only: Optional[str] = None, floor: int = 40) -> RuleResult:
    rr = RuleResult(rule, "escape sets of the documented entry points", floor=floor)
    esc = ctx.escapes
    cg = ctx.callgraph
    po = ctx.partial
    reach_all: Dict[str, List[str]] = {}
    for label, bases, names in GROUPS:
        if only is not None and label != only:
            continue
        entries: List[FuncInfo] = []
        for n in names:
            fn = ctx.repo.get_func(n)
            if fn is None:
                raise AnalysisError(f"R6.1: entry point {n} not found")
            entries.append(fn)
        reach = cg.reachable(entries)
        for q, path in reach.items():
            reach_all.setdefault(q, path)
        for fn in entries:
            escs = esc.function_escapes(fn)
            bad = False
            for cls, origin in sorted(
                ((c, o) for c, os_ in esc.function_escapes_all(fn).items() for o in os_),
                key=lambda t: (t[0], t[1].file, t[1].line, t[1].what),
            ):
                if _allowed(ctx, cls, bases):
                    continue
                why = _exempt(cls, origin)
                if why:
                    rr.note(f"{fn.qualname}: {cls.split('.')[-1]} exempt ({why})")
                    continue
                bad = True
                ofn = ctx.repo.functions.get(origin.func)
                rr.bad(
                    ofn, None,
                    f"{cls.split('.')[-1]} can escape the entry point {fn.qualname} "
                    f"(documented family: {', '.join(bases)}); it originates at "
                    f"{origin.file}:{origin.line} `{origin.what}`",
                    construct=f"{cls.split('.')[-1]} from {origin.what}",
                    witness=" -> ".join(q.split(".", 1)[-1] for q in origin.via + (origin.func,)),
                    file=origin.file, qualname=origin.func,
                )
                rr.findings[-1].line = origin.line
            if not bad:
                rr.ok(fn.loc(), f"{label}: {fn.qualname} escapes only "
                      f"{sorted(c.split('.')[-1] for c in escs)}")
    # evidence: raise sites and partial-operation sites in the reachable set
    n_raise = n_partial = n_disch = 0
    samples = []
    for q in reach_all:
        fn = ctx.repo.functions[q]
        for node in ast.walk(fn.node):
            if isinstance(node, ast.Raise):
                n_raise += 1
        for s in po.sites(fn):
            n_partial += 1
            if s.discharged:
                n_disch += 1
            if len(samples) < 12:
                samples.append(f"{fn.loc(s.node)} {s.label()} -> {s.discharged or 'implicit ' + ','.join(s.raises)}")
            rr.instances.append({
                "where": fn.loc(s.node), "what": f"{q}: {s.label()}",
                "verdict": "ok",
                "how": s.discharged or ("implicit raise handed to the escape analysis: " + ",".join(s.raises) + (" (" + s.note + ")" if s.note else "")),
            })
    st = cg.stats
    rr.note(f"functions reachable from entries: {len(reach_all)}; raise statements: {n_raise}; "
            f"partial-operation sites: {n_partial} (discharged by facts: {n_disch}); "
            f"calls resolved typed={st['typed']} folded={st['folded']} byname={st['byname']} "
            f"external={st['ext']} ignored={st['ignored']}")
    if n_raise < 40:
        raise AnalysisError(f"R6.1: only {n_raise} raise statements in the reachable set (floor 40)")
    return rr


def r6_3(ctx: Ctx) -> RuleResult:
    rr = RuleResult("R6.3", "no shadowed except clause; translating handlers stay in family", floor=10)
    esc = ctx.escapes
    for fn in ctx.repo.functions.values():
        for node in ast.walk(fn.node):
            if not isinstance(node, ast.Try):
                continue
            seen: List[Tuple[str, ast.ExceptHandler]] = []
            for h in node.handlers:
                types = esc._handler_types(fn, h)
                if not types:
                    types = ["BaseException"]
                shadowed = [
                    t for t in types
                    if any(esc.catches(prev, t) for prev, _ in seen)
                ]
                if shadowed and len(shadowed) == len(types):
                    rr.bad(fn, h, f"`except {short(h.type) if h.type else ''}` can never run: an earlier "
                           f"clause of the same `try` already catches {', '.join(s.split('.')[-1] for s in shadowed)}",
                           construct=f"except {short(h.type) if h.type else ''} shadowed")
                else:
                    rr.ok(fn.loc(h), f"{fn.qualname}: except {short(h.type) if h.type else '<bare>'} reachable")
                for t in types:
                    seen.append((t, h))
    return rr


def _consumes_factory(ctx: Ctx, parser_methods: Set[str], consuming: Set[str]):  # type: ignore[no-untyped-def]
    def events(e: ast.expr):  # type: ignore[no-untyped-def]
        if isinstance(e, ast.Call):
            n = callee_name(e)
            if n in ("next_token",):
                return ["consumed@"]
            if n == "next" and e.args:
                return ["consumed@"]
            if n in consuming:
                return ["consumed@"]
        return []

    return events


def _method_always_consumes(ctx: Ctx, fn: FuncInfo, consuming: Set[str]) -> bool:
    """Every normal (non-raising) exit of fn has consumed at least one token."""
    flow = Flow(fn.node, MustDomain(expr_events=_consumes_factory(ctx, set(), consuming)))
    exits = [(k, n, s) for k, n, s in flow.exits if k in ("return", "fall")]
    if not exits:
        return True
    return all("consumed@" in s for _, _, s in exits)


def r6_4(ctx: Ctx) -> RuleResult:
    rr = RuleResult("R6.4", "every while loop of lexer/parser/stream makes progress", floor=6)
    mods = ("jsonpath.parse", "jsonpath.env", "jsonpath.stream", "jsonpath.lex")
    parser = ctx.repo.require_class("Parser")
    # summaries: parser methods that consume on every normal exit (fixpoint)
    consuming: Set[str] = set()
    for _ in range(6):
        changed = False
        for name, m in parser.methods.items():
            if name in consuming or not name.startswith("parse"):
                continue
            if _method_always_consumes(ctx, m, consuming):
                # it must contain a consuming call at all
                if any(callee_name(c) in ({"next_token", "next"} | consuming) for c in calls(m.node)):
                    consuming.add(name)
                    changed = True
        if not changed:
            break
    rr.note(f"parser methods that consume a token on every normal exit: {sorted(consuming)}")
    eof = ctx.folder.global_value(ctx.repo.modules["jsonpath.token"], "TOKEN_EOF")
    for fn in ctx.repo.functions.values():
        if fn.module.name not in mods:
            continue
        loops = [n for n in ast.walk(fn.node) if isinstance(n, ast.While)]
        if not loops:
            continue
        flow = Flow(fn.node, MustDomain(expr_events=_consumes_factory(ctx, set(), consuming)))
        for loop in loops:
            backs = flow.back.get(id(loop), [])
            pre = flow.pre.get(id(loop))
            base = pre if pre is not None else frozenset()
            stuck = [b for b in backs if "consumed@" not in (b - base) and "consumed@" not in b]
            # `consumed@` seen before the loop does not count as progress inside it:
            # analyse the body alone
            body_flow = Flow(
                ast.FunctionDef(name="_b", args=fn.node.args, body=loop.body, decorator_list=[], returns=None, type_comment=None, type_params=[]),
                _LoopBody(expr_events=_consumes_factory(ctx, set(), consuming)),
            )
            ends = [s for k, n, s in body_flow.exits if k == "fall"] + body_flow.domain.outer_continues  # type: ignore[attr-defined]
            bad_ends = [s for s in ends if "consumed@" not in s]
            if bad_ends:
                rr.bad(fn, loop, "a path through the loop body returns to the loop head without "
                       "consuming a token (next_token / next(stream) / a consuming parse method): "
                       "the loop can spin forever on some input",
                       construct=f"while {short(loop.test)}")
            else:
                rr.ok(fn.loc(loop), f"{fn.qualname}: while {short(loop.test, 50)} consumes on every back edge")
            # the end-of-input token must not be dispatched as an ordinary token
    for tname, table in ctx.tokflow.tables.items():
        if eof in table:
            rr.bad(parser.methods.get("__init__"), None,
                   f"the end-of-input token is a key of Parser.{tname}: a dispatch loop could "
                   "consume past the end", construct=f"TOKEN_EOF in {tname}")
        else:
            rr.ok(parser.module.relpath, f"TOKEN_EOF is not a key of Parser.{tname}")
    return rr


class _LoopBody(MustDomain):
    """Must-domain for analysing a loop body alone: the flow engine records the
    states at top-level `continue` / `break` here."""

    def __init__(self, **kw):  # type: ignore[no-untyped-def]
        super().__init__(**kw)
        self.outer_continues: List[frozenset] = []
        self.outer_breaks: List[frozenset] = []


def r6_5(ctx: Ctx) -> RuleResult:
    rr = RuleResult("R6.5", "rendering an error as text raises nothing", floor=5)
    esc = ctx.escapes
    mod = ctx.repo.modules.get("jsonpath.exceptions")
    if mod is None:
        raise AnalysisError("jsonpath/exceptions.py not found")
    for cls in mod.classes.values():
        m = cls.methods.get("__str__")
        if m is None:
            continue
        escs = esc.function_escapes(m)
        if escs:
            for c, origin in escs.items():
                rr.bad(m, None, f"{c.split('.')[-1]} can escape {cls.name}.__str__: {origin.text()}",
                       construct=f"{c.split('.')[-1]} from {origin.what}")
        else:
            n = len(ctx.partial.sites(m))
            rr.ok(m.loc(), f"{cls.name}.__str__: empty escape set ({n} partial-operation sites examined)")
    # Token.position is what JSONPathError.__str__ calls
    tok = ctx.repo.get_func("jsonpath.token.Token.position")
    if tok is not None:
        escs = esc.function_escapes(tok)
        if escs:
            for c, origin in escs.items():
                rr.bad(tok, None, f"{c} can escape Token.position", construct=f"{c} from {origin.what}")
        else:
            rr.ok(tok.loc(), "Token.position: empty escape set")
    return rr


def r6_6(ctx: Ctx) -> RuleResult:
    """A document is decoded once, by the entry point it is given to.  Code that runs *during* evaluation or
    application works on JSON values: a value that is a string is a JSON string, not JSON text.  So the decoder
    (`load_data`) must not be reachable from the evaluation of selectors and filter expressions nor from the
    application of a patch operation - there it turns the string `[1` into a JSONDecodeError and the string `1`
    into the number 1."""
    rr = RuleResult("R6.6", "values met during evaluation are not decoded as JSON text again", floor=3)
    cg = ctx.callgraph
    loaders = [f for q, f in ctx.repo.functions.items() if q.endswith("._data.load_data") or q == "jsonpath._data.load_data"]
    if not loaders:
        raise AnalysisError("R6.6: jsonpath._data.load_data not found")
    families = (
        ("jsonpath.filter.FilterExpression", ("evaluate", "evaluate_async"), "the evaluation of a filter expression"),
        ("jsonpath.selectors.JSONPathSelector", ("resolve", "resolve_async"), "the evaluation of a selector"),
        ("jsonpath.patch.Op", ("apply",), "the application of a patch operation"),
    )
    for base_name, methods, what in families:
        base = ctx.repo.require_class(base_name)
        roots = []
        for cls in ctx.repo.subclasses(base, strict=False):
            for m in methods:
                f = cls.methods.get(m)
                if f is not None:
                    roots.append(f)
        if not roots:
            raise AnalysisError(f"R6.6: no {methods} methods below {base_name}")
        paths = cg.reachable(roots)
        hits = [paths[f.qualname] for f in loaders if f.qualname in paths]
        if not hits:
            rr.ok(base.module.relpath, f"{what}: load_data is not reachable from {len(roots)} methods")
            continue
        path = min(hits, key=lambda pth: (len(pth), pth))
        root = ctx.repo.functions[path[0]]
        short_path = " -> ".join(q.split(".", 1)[1] if q.startswith("jsonpath.") else q for q in path)
        f = rr.bad(None, None, f"{what} reaches the document decoder ({short_path}): a JSON value that is a string is decoded as "
                   "JSON text a second time, so a string like `[1` raises JSONDecodeError and a string like `1` is taken for a number",
                   construct=f"{base.name}.{'/'.join(methods)}: load_data reachable", file=root.module.relpath, qualname=base.qualname)
        f.line = root.node.lineno
    return rr


def r6_7(ctx: Ctx) -> RuleResult:
    """Termination in the library's own regular expressions (time in the engine on a *caller-supplied* pattern is
    outside the claim; the lexer's rules and the pointer patterns are the library's): no unbounded repetition whose
    body can match one piece of text in two ways - alternatives that can begin with the same character or be empty,
    a repetition of a repetition.  That ambiguity is what makes a text that finally fails to match (an unterminated
    string with n escapes) take 2^n steps."""
    from sa import regexast
    from sa.consteval import NotConst
    from sa.consteval import RegexConst

    rr = RuleResult("R6.7", "the library's own patterns have no ambiguous unbounded repetition", floor=8)
    lex = ctx.lexer
    todo = [(lex.compile_fn, f"lexer rule {name}", pat, lex.master.flags) for name, pat in lex.rules]
    for mod in ctx.repo.modules.values():
        for name, e in mod.assigns.items():
            try:
                v = ctx.folder.eval_in(e, mod)
            except (NotConst, AnalysisError):
                continue
            if isinstance(v, RegexConst):
                todo.append((None, f"{mod.name}.{name}", v.pattern, v.flags))
    for cls in ctx.repo.classes.values():
        for name in cls.assigns:
            try:
                v = ctx.folder.class_attr(cls, name)
            except (NotConst, AnalysisError):
                continue
            if isinstance(v, RegexConst):
                todo.append((None, f"{cls.qualname}.{name}", v.pattern, v.flags))
    for fn, label, pat, flags in todo:
        try:
            tree = regexast.parse(pat, flags)
        except AnalysisError:
            continue  # (an invalid pattern is R6.1's business)
        problems = regexast.ambiguous_repeats(tree)
        if not problems:
            rr.ok(fn.loc() if fn is not None else label, f"{label}: every repetition has one way to go at each step")
            continue
        if fn is not None:
            rr.bad(fn, fn.node, f"{label} `{pat[:80]}`: {problems[0]} - a text that does not match in the end is tried in exponentially many ways",
                   construct=f"{label}: {problems[0]}")
        else:
            rr.bad(None, None, f"{label} `{pat[:80]}`: {problems[0]} - a text that does not match in the end is tried in exponentially many ways",
                   construct=f"{label}: {problems[0]}", file=label.rsplit(".", 1)[0].replace(".", "/") + ".py", qualname=label)
    return rr


RULES = [r6_1, r6_3, r6_4, r6_5, r6_6, r6_7]
