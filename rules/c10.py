"""C10 - a compiled query's string form recompiles to an equivalent query.

R10.1 everything evaluation reads is printed (field coverage)
R10.2 parser and printer agree on precedence; every operator below `!` is
      parenthesised when it is the operand of `!`
R10.3 regular-expression flag tables are inverse; the lexer's flag class agrees
R10.4 printed keywords lex back to the node/operator that printed them
R10.5 string contents survive (= R3.2, R1.6)
"""

from __future__ import annotations

import ast
from typing import Dict
from typing import List
from typing import Optional
from typing import Set
from typing import Tuple

from sa import regexast
from sa.consteval import NotConst
from sa.kinds import path_of
from sa.loader import AnalysisError
from sa.loader import ClassInfo
from sa.loader import FuncInfo
from sa.loader import short
from sa.report import RuleResult

from . import Ctx
from .c01 import r1_6
from .c03 import r3_2
from .common import callee_name
from .common import calls
from .common import resolved
from .common import isinstance_classes
from .common import path_conditions

EVAL_METHODS = (
    "resolve", "resolve_async", "evaluate", "evaluate_async", "findall", "finditer",
    "findall_async", "finditer_async", "match", "query", "to",
)
IGNORED_FIELDS = {"env", "token", "volatile"}


def _self_reads(ctx: Ctx, cls: ClassInfo, fn: FuncInfo, seen: Optional[Set[str]] = None) -> Set[str]:
    """Fields of self read by fn, following self.<helper>() calls."""
    seen = seen if seen is not None else set()
    if fn.qualname in seen:
        return set()
    seen.add(fn.qualname)
    out: Set[str] = set()
    for n in ast.walk(fn.node):
        if isinstance(n, ast.Attribute) and isinstance(n.value, ast.Name) and n.value.id == "self" and isinstance(n.ctx, ast.Load):
            m = ctx.repo.find_method(cls, n.attr)
            if m is not None:
                out |= _self_reads(ctx, cls, m, seen)
            else:
                out.add(n.attr)
    return out


def return_slices(ctx: Ctx, cls: ClassInfo, fn: FuncInfo, depth: int = 0) -> List[Set[str]]:
    """For every `return` of fn: the fields of self whose value flows into the
    returned text (through locals, list building and self.<helper>() calls) or
    decides which text is returned.  Sub-attributes are kept (`slice.step`)."""
    assigns: Dict[str, List[ast.AST]] = {}
    for n in ast.walk(fn.node):
        if isinstance(n, ast.Assign):
            # the value, and the tests that decide whether this assignment runs (control dependence)
            deps: List[ast.AST] = [n.value] + [t for t, _b in path_conditions(fn.node, n)]
            for t in n.targets:
                for x in ast.walk(t):
                    if isinstance(x, ast.Name):
                        assigns.setdefault(x.id, []).extend(deps)
        elif isinstance(n, ast.AnnAssign) and n.value is not None and isinstance(n.target, ast.Name):
            assigns.setdefault(n.target.id, []).append(n.value)
        elif isinstance(n, ast.AugAssign) and isinstance(n.target, ast.Name):
            assigns.setdefault(n.target.id, []).append(n.value)
        elif isinstance(n, (ast.For, ast.comprehension)):
            for x in ast.walk(n.target):
                if isinstance(x, ast.Name):
                    assigns.setdefault(x.id, []).append(n.iter)
        elif isinstance(n, ast.Call) and isinstance(n.func, ast.Attribute) and n.func.attr in ("append", "extend", "insert") and isinstance(n.func.value, ast.Name):
            extra: List[ast.AST] = list(n.args)
            for t, _b in path_conditions(fn.node, n):
                extra.append(t)
            # enclosing loops drive what is appended
            from sa.flow import parent_map

            parents = parent_map(fn.node)
            cur: Optional[ast.AST] = n
            while cur is not None:
                cur = parents.get(id(cur))
                if isinstance(cur, ast.For):
                    extra.append(cur.iter)
            assigns.setdefault(n.func.value.id, []).extend(extra)
    out: List[Set[str]] = []
    for r in [x for x in ast.walk(fn.node) if isinstance(x, ast.Return) and x.value is not None]:
        fields: Set[str] = set()
        seen: Set[str] = set()
        work: List[ast.AST] = [r.value] + [t for t, _b in path_conditions(fn.node, r)]
        while work:
            e = work.pop()
            for x in ast.walk(e):
                if isinstance(x, ast.Attribute):
                    p = path_of(x)
                    if p and p.startswith("self.") and isinstance(x.ctx, ast.Load):
                        parts = p.split(".")
                        m = ctx.repo.find_method(cls, parts[1])
                        if m is not None and depth < 2 and m is not fn:
                            for sl in return_slices(ctx, cls, m, depth + 1):
                                fields |= sl
                        else:
                            fields.add(parts[1])
                            fields.add(".".join(parts[1:]))
                elif isinstance(x, ast.Name) and x.id not in seen and x.id in assigns:
                    seen.add(x.id)
                    work.extend(assigns[x.id])
        out.append(fields)
    return out


def printed_fields(ctx: Ctx, cls: ClassInfo, fn: FuncInfo) -> Set[str]:
    """Fields that reach the text on *every* return path."""
    slices = return_slices(ctx, cls, fn)
    if not slices:
        return set()
    common = set(slices[0])
    for s_ in slices[1:]:
        common &= s_
    return common


# components of built-in values that a printer may read one by one
COMPONENTS = {"slice": ("start", "stop", "step")}


def _init_fields(ctx: Ctx, cls: ClassInfo) -> Dict[str, ast.expr]:
    out: Dict[str, ast.expr] = {}
    for q in reversed(ctx.repo.mro(cls)):
        info = ctx.repo.classes.get(q)
        if info is None or "__init__" not in info.methods:
            continue
        for n in ast.walk(info.methods["__init__"].node):
            targets: List[ast.expr] = []
            value = None
            if isinstance(n, ast.Assign):
                targets, value = n.targets, n.value
            elif isinstance(n, ast.AnnAssign) and n.value is not None:
                targets, value = [n.target], n.value
            for t in targets:
                elts = t.elts if isinstance(t, ast.Tuple) else [t]
                for e in elts:
                    if isinstance(e, ast.Attribute) and path_of(e.value) == "self":
                        out[e.attr] = value  # type: ignore[assignment]
    return out


def _derived(field: str, fields: Dict[str, ast.expr], printed: Set[str]) -> bool:
    """A field whose initialiser mentions only printed fields (or the parameters
    stored in them) carries no information of its own."""
    rhs = fields.get(field)
    if rhs is None:
        return False
    # parameters that are stored verbatim in printed fields
    param_of: Dict[str, str] = {}
    for f, v in fields.items():
        if isinstance(v, ast.Name):
            param_of[v.id] = f
        elif isinstance(v, ast.Call) and callee_name(v) in ("tuple", "list") and v.args and isinstance(v.args[0], ast.Name):
            param_of[v.args[0].id] = f
    names = [n for n in ast.walk(rhs) if isinstance(n, (ast.Name, ast.Attribute))]
    mentioned = False
    for n in names:
        if isinstance(n, ast.Attribute) and path_of(n.value) == "self":
            if n.attr in printed or n.attr in IGNORED_FIELDS:
                mentioned = True
                continue
            return False
        if isinstance(n, ast.Name):
            if n.id == "self":
                continue
            if n.id in param_of:
                if param_of[n.id] in printed or param_of[n.id] == field:
                    mentioned = mentioned or param_of[n.id] != field
                    if param_of[n.id] == field:
                        return False
                    continue
                return False
    return mentioned


def _parent_of(root: ast.AST, node: ast.AST) -> Optional[ast.AST]:
    for n in ast.walk(root):
        for c in ast.iter_child_nodes(n):
            if c is node:
                return n
    return None


def printable_classes(ctx: Ctx) -> List[ClassInfo]:
    out: List[ClassInfo] = []
    for base in ("JSONPathSelector", "FilterExpression"):
        b = ctx.repo.require_class(base)
        out.extend(c for c in ctx.repo.subclasses(b, strict=True))
    for name in ("jsonpath.path.JSONPath", "jsonpath.path.CompoundJSONPath", "jsonpath.pointer.RelativeJSONPointer"):
        out.append(ctx.repo.require_class(name))
    # wrappers created only while evaluating (never by the parser) have no text form
    ctor_sites: Dict[str, Set[str]] = {}
    for fn in ctx.repo.functions.values():
        for c in calls(fn.node):
            n = callee_name(c)
            if n:
                ctor_sites.setdefault(n, set()).add(ctx.callgraph.owner(fn).name)
    keep = []
    for c in out:
        sites = ctor_sites.get(c.name, set())
        if sites and sites <= {"cache_tree", "_cache_tree"}:
            continue
        keep.append(c)
    return keep


def r10_1(ctx: Ctx) -> RuleResult:
    rr = RuleResult("R10.1", "every field that evaluation reads is printed", floor=14)
    constructed = {callee_name(c) for fn_ in ctx.repo.functions.values() for c in calls(fn_.node)}
    for cls in printable_classes(ctx):
        evals = [m for name in EVAL_METHODS for m in [cls.methods.get(name)] if m is not None]
        if not evals:
            # evaluation inherited from an intermediate base of the package (a template method with a hook the class fills in)
            evals = [m for name in EVAL_METHODS for m in [ctx.repo.find_method(cls, name)]
                     if m is not None and m.cls is not None and m.cls.name not in ("FilterExpression", "JSONPathSelector", "Path")
                     and m.cls is not cls and "__str__" not in m.cls.methods and not any(isinstance(x, ast.Raise) and "NotImplementedError" in ast.unparse(x) for x in ast.walk(m.node))]
        if not evals:
            continue
        s = ctx.repo.find_method(cls, "__str__")
        if s is None and cls.name not in constructed and ctx.repo.subclasses(cls, strict=True):
            continue  # an intermediate base that is never instantiated: its subclasses are checked with what they inherit
        if s is None:
            rr.bad(None, None, f"{cls.name} is evaluated but has no __str__", construct=f"{cls.name}.__str__",
                   file=cls.module.relpath, qualname=cls.qualname)
            continue
        read: Set[str] = set()
        for m in evals:
            read |= _self_reads(ctx, cls, m)
        printed_all = printed_fields(ctx, cls, s)
        printed = {f for f in printed_all if "." not in f}
        fields = _init_fields(ctx, cls)
        missing = []
        for f in sorted(read - printed - IGNORED_FIELDS):
            if f not in fields:
                continue  # class constant or property, not instance state
            if _derived(f, fields, printed):
                continue
            missing.append(f)
        # a built-in value printed component by component must show every component
        for f in sorted(read & printed):
            t = ctx.callgraph.types.field_type(cls, f)
            comps = None
            if t is not None:
                for n_ in t.names:
                    comps = COMPONENTS.get(n_, comps)
            if comps:
                whole = any(
                    isinstance(x, ast.Attribute) and path_of(x) == f"self.{f}" and not isinstance(
                        _parent_of(s.node, x), ast.Attribute)
                    for x in ast.walk(s.node)
                )
                if not whole:
                    lacking = [c for c in comps if f"{f}.{c}" not in printed_all]
                    if lacking:
                        missing.append(f"{f}.{lacking[0]}")
        if missing:
            rr.bad(s, s.node, f"{cls.name}: evaluation depends on field(s) {missing} that the string form never "
                   "mentions, so the printed query recompiles to a different query",
                   construct=f"{cls.name}.__str__ omits {missing}")
        else:
            rr.ok(s.loc(), f"{cls.name}: evaluation reads {sorted(read - IGNORED_FIELDS)}, all printed or derived")
    return rr


def r10_2(ctx: Ctx) -> RuleResult:
    rr = RuleResult("R10.2", "printer and parser agree on precedence; operands of `!` keep their parentheses", floor=4)
    parser = ctx.repo.require_class("Parser")
    fmod = ctx.repo.modules["jsonpath.filter"]
    # (a) duplicated constants
    n_const = 0
    for name, expr in fmod.assigns.items():
        if not name.startswith("PRECEDENCE_"):
            continue
        n_const += 1
        try:
            mine = ctx.folder.global_value(fmod, name)
            theirs = ctx.folder.class_attr(parser, name)
        except NotConst as err:
            raise AnalysisError(f"R10.2: {name} cannot be folded: {err}") from err
        if mine == theirs:
            rr.ok(fmod.relpath, f"filter.{name} == Parser.{name} == {mine}")
        else:
            rr.bad(None, None, f"filter.{name} is {mine} but Parser.{name} is {theirs}", construct=name,
                   file=fmod.relpath, qualname=f"jsonpath.filter.{name}")
    if n_const < 3:
        raise AnalysisError("R10.2: precedence constants of the printer not found in filter.py")
    # (b) every binary operator below PREFIX is parenthesised under a tighter parent: partial
    #     evaluation of the printer with `expression` an InfixExpression whose operator is known
    from sa.peval import Text
    from sa.peval import UNKNOWN
    from sa.peval import explore

    canon = ctx.repo.require_func("BooleanExpression._canonical_string")
    ops = ctx.folder.class_attr(parser, "BINARY_OPERATORS")
    prec = ctx.folder.class_attr(parser, "PRECEDENCES")
    prefix = ctx.folder.class_attr(parser, "PRECEDENCE_PREFIX")
    params = [a.arg for a in canon.node.args.args]
    exprp, parentp = params[1], params[2]

    def oracle_for(cls_name: str):  # type: ignore[no-untyped-def]
        def oracle(t: ast.expr, env: dict) -> Optional[bool]:  # type: ignore[type-arg]
            ic = isinstance_classes(t)
            if ic is not None and ic[0] == exprp:
                return any(ctx.repo.is_subclass(cls_name, c) for c in ic[1])
            return None
        return oracle

    for tok, op in sorted(ops.items()):
        level = prec.get(tok)
        if level is None or level >= prefix:
            continue

        def value_oracle(e: ast.expr, env: dict, op=op):  # type: ignore[no-untyped-def,type-arg]
            if path_of(e) == f"{exprp}.operator":
                return op
            return None

        from sa.consteval import Instance

        outs = explore(ctx.folder, canon, {parentp: prefix, "self": Instance(canon.cls)}, oracle_for("InfixExpression"), None, value_oracle)
        rets = [(n, v) for k, n, v in outs if k == "return"]
        if not rets:
            raise AnalysisError(f"R10.2: _canonical_string returns nothing for an infix `{op}`")
        bare = [(n, v) for n, v in rets if not (isinstance(v, (str, Text)) and (Text((v,)) if isinstance(v, str) else v).startswith("(")
                                                 and (Text((v,)) if isinstance(v, str) else v).endswith(")"))]
        if not bare:
            rr.ok(canon.loc(rets[0][0]), f"`{op}` (precedence {level}) is parenthesised under a tighter parent")
        else:
            n, v = bare[0]
            shown = v.literal() if isinstance(v, Text) else ("an unknown text" if v is UNKNOWN else repr(v))
            rr.bad(canon, canon.node, f"`{op}` (precedence {level} < {prefix}) is printed without parentheses when "
                   f"it is the operand of `!` (line {getattr(n, 'lineno', '?')} returns {shown}): `!(@.a {op} 1)` is printed as "
                   f"`!@['a'] {op} 1`, which parses as `(!@['a']) {op} 1`", construct=f"no parenthesisation for {op}")
    # (c) the prefix branch passes PRECEDENCE_PREFIX down
    passed: List[object] = []

    def on_call(c: ast.Call, args: List[object], env: dict):  # type: ignore[no-untyped-def,type-arg]
        if callee_name(c) == "_canonical_string" and len(args) >= 2:
            passed.append(args[1])
        return None

    explore(ctx.folder, canon, {}, oracle_for("PrefixExpression"), on_call)
    if passed and all(p == prefix for p in passed):
        rr.ok(canon.loc(), "the operand of `!` is printed with parent precedence PRECEDENCE_PREFIX")
    else:
        rr.bad(canon, canon.node, f"the operand of `!` must be printed with the prefix precedence as parent (passed: {passed})",
               construct="prefix branch precedence")
    return rr


def r10_3(ctx: Ctx) -> RuleResult:
    rr = RuleResult("R10.3", "regex flag tables of parser and printer are inverse; lexer flag class agrees", floor=2)
    parser = ctx.repo.require_class("Parser")
    lit = ctx.repo.require_class("RegexLiteral")
    pm = ctx.folder.class_attr(parser, "RE_FLAG_MAP")
    lm = ctx.folder.class_attr(lit, "RE_FLAG_MAP")
    where = f"{lit.module.relpath}:{lit.node.lineno}"
    if {v: k for k, v in pm.items()} == dict(lm):
        rr.ok(where, f"RegexLiteral.RE_FLAG_MAP is the inverse of Parser.RE_FLAG_MAP ({sorted(pm)})")
    else:
        rr.bad(None, None, f"flag tables are not inverse: parser {pm}, printer {lm}", construct="RE_FLAG_MAP inverse",
               file=lit.module.relpath, qualname=lit.qualname + ".RE_FLAG_MAP")
    shapes = ctx.lexer.value_shapes("RE_FLAGS") or []
    letters = set("".join(shapes))
    if letters == set(pm):
        rr.ok(ctx.lexer.cls.module.relpath, f"the lexer's flag class {sorted(letters)} equals the parser's flag letters")
    else:
        rr.bad(None, None, f"lexer accepts flag letters {sorted(letters)} but the parser knows {sorted(pm)}",
               construct="flag letters", file=ctx.lexer.cls.module.relpath, qualname=ctx.lexer.cls.qualname)
    return rr


def _str_constant(ctx: Ctx, cls_name: str) -> str:
    cls = ctx.repo.require_class(cls_name)
    s = cls.methods.get("__str__")
    if s is None:
        raise AnalysisError(f"{cls_name}.__str__ not found")
    rets = [r for r in ast.walk(s.node) if isinstance(r, ast.Return)]
    if len(rets) == 1 and isinstance(rets[0].value, ast.Constant) and isinstance(rets[0].value.value, str):
        return rets[0].value.value
    raise AnalysisError(f"{cls_name}.__str__ does not return a constant")


def r10_4(ctx: Ctx) -> RuleResult:
    rr = RuleResult("R10.4", "printed keywords lex back to the node or operator that printed them", floor=16)
    parser = ctx.repo.require_class("Parser")
    tables = ctx.tokflow.tables
    tm = tables.get("token_map", {})
    ops = ctx.folder.class_attr(parser, "BINARY_OPERATORS")
    where = f"{parser.module.relpath}:{parser.node.lineno}"

    def one_kind(text: str) -> Optional[str]:
        toks = ctx.lexer.classify(text)
        if len(toks) == 1 and toks[0][2] == text and "|" not in toks[0][1]:
            return toks[0][1]
        return None

    expected = [
        (_str_constant(ctx, "jsonpath.filter.Nil"), "parse_nil"),
        (_str_constant(ctx, "jsonpath.filter.Undefined"), "parse_undefined"),
        ("true", "parse_boolean"),
        ("false", "parse_boolean"),
    ]
    for text, method in expected:
        k = one_kind(text)
        if k is not None and tm.get(k) == method:
            rr.ok(where, f"`{text}` -> token {k} -> {method}")
        else:
            rr.bad(None, None, f"the printed keyword `{text}` lexes as {k} which the parser maps to "
                   f"{tm.get(k or '')} instead of {method}", construct=f"keyword {text}",
                   file=parser.module.relpath, qualname=parser.qualname)
    for tok, op in sorted(ops.items()):
        k = one_kind(op)
        if k is not None and ops.get(k) == op:
            rr.ok(where, f"operator `{op}` -> token {k} -> `{ops[k]}`")
        else:
            rr.bad(None, None, f"the printed operator `{op}` lexes as token {k}, which the parser reads as "
                   f"`{ops.get(k or '')}`", construct=f"operator {op}", file=parser.module.relpath,
                   qualname=parser.qualname + ".BINARY_OPERATORS")
    for text, kind_name in (("!", "TOKEN_NOT"), ("?", "TOKEN_FILTER"), ("*", "TOKEN_WILD"), ("..", "TOKEN_DDOT")):
        from .c02 import token_const

        want = token_const(ctx, kind_name)
        k = one_kind(text)
        if k == want:
            rr.ok(where, f"`{text}` -> token {k}")
        else:
            rr.bad(None, None, f"`{text}` lexes as {k}, expected {want}", construct=f"punctuation {text}",
                   file=ctx.lexer.cls.module.relpath, qualname=ctx.lexer.cls.qualname)
    return rr


def r10_5(ctx: Ctx) -> RuleResult:
    rr = r3_2(ctx)
    rr.rule = "R10.5"
    for f in rr.findings:
        f.rule = "R10.5"
    return rr


def r10_6(ctx: Ctx) -> RuleResult:
    return r1_6(ctx, "R10.6")


NUMERIC_COMPONENTS = {"slice": ("start", "stop", "step")}


def r10_7(ctx: Ctx) -> RuleResult:
    """A numeric field is printed when it is present, not when it is truthy: 0 is
    a value (`$[0::-1]` is not `$[::-1]`)."""
    rr = RuleResult("R10.7", "numeric fields are tested with `is None`, never by truthiness, when printed", floor=2)
    types = ctx.callgraph.types
    for cls in printable_classes(ctx):
        s = cls.methods.get("__str__")
        if s is None:
            continue
        numeric_paths = set()
        for f in _init_fields(ctx, cls):
            t = types.field_type(cls, f)
            if t is None:
                continue
            if t.names & {"int", "float"}:
                numeric_paths.add(f"self.{f}")
            for n_ in t.names:
                for comp in NUMERIC_COMPONENTS.get(n_, ()):
                    numeric_paths.add(f"self.{f}.{comp}")
        if not numeric_paths:
            continue
        # truthiness contexts: operands of `or` / `and`, tests of if / IfExp / while, `not x`
        contexts = []
        for n in ast.walk(s.node):
            if isinstance(n, ast.BoolOp):
                contexts.extend(n.values[:-1] if isinstance(n.op, ast.Or) else n.values)
            elif isinstance(n, (ast.If, ast.IfExp, ast.While)):
                contexts.append(n.test)
            elif isinstance(n, ast.UnaryOp) and isinstance(n.op, ast.Not):
                contexts.append(n.operand)
        bad = [c for c in contexts if path_of(c) in numeric_paths]
        for c in bad:
            rr.bad(s, c, f"`{short(c)}` is a number (or None) and is tested by truthiness while being printed: the "
                   "value 0 is then printed like an omitted value, which means something else",
                   construct=f"truthiness of {short(c)}")
        if not bad:
            rr.ok(s.loc(), f"{cls.name}.__str__: {sorted(numeric_paths)} are not tested by truthiness")
    return rr


def r10_8(ctx: Ctx) -> RuleResult:
    """A logical expression printed outside the precedence-aware printer (as an
    operand of a comparison, in an argument list) carries its own parentheses."""
    rr = RuleResult("R10.8", "logical expressions print their own parentheses outside the canonical printer", floor=1)
    infix = ctx.repo.require_class("InfixExpression")
    s = infix.methods.get("__str__")
    if s is None:
        raise AnalysisError("InfixExpression.__str__ not found")
    rets = [r for r in ast.walk(s.node) if isinstance(r, ast.Return)]
    ok = False
    for r in rets:
        conds = path_conditions(s.node, r)
        under_logical = any(path_of(t) == "self.logical" and b for t, b in conds)
        v = r.value
        paren = False
        if isinstance(v, ast.JoinedStr) and v.values:
            first, last = v.values[0], v.values[-1]
            paren = (
                isinstance(first, ast.Constant) and str(first.value).startswith("(")
                and isinstance(last, ast.Constant) and str(last.value).endswith(")")
            )
        if paren and (under_logical or len(rets) == 1):
            ok = True
    if ok:
        rr.ok(s.loc(), "InfixExpression.__str__ parenthesises a logical expression")
    else:
        rr.bad(s, s.node, "a `&&` / `||` expression printed through InfixExpression.__str__ (e.g. as an operand of a "
               "comparison: `(@.a && @.b) == false`) has no parentheses of its own, so the text regroups as "
               "`@.a && (@.b == false)`", construct="InfixExpression.__str__: logical without parentheses")
    return rr


def r10_9(ctx: Ctx) -> RuleResult:
    """The parser accepts a parenthesised comparison as an operand of another comparison (`@.a == (@.b == 1)`) and
    hands back the inner node.  The printer of a comparison must therefore put parentheses around an operand that is
    itself a comparison: somewhere on the way from `self.left` / `self.right` to the text there is a test that the
    operand is an InfixExpression whose true side is parenthesised text."""
    from .common import value_leaves

    rr = RuleResult("R10.9", "a comparison printed as an operand of a comparison keeps its parentheses", floor=2)
    infix = ctx.repo.require_class("InfixExpression")
    s = infix.methods.get("__str__")
    if s is None:
        raise AnalysisError("InfixExpression.__str__ not found")
    rets = [r for r in ast.walk(s.node) if isinstance(r, ast.Return) and not any(
        path_of(t) == "self.logical" and b for t, b in path_conditions(s.node, r))]
    if not rets:
        raise AnalysisError("R10.9: InfixExpression.__str__ has no non-logical return")

    def rendering(operand: str, e: ast.AST, conds: List[Tuple[ast.expr, bool]]) -> List[Tuple[ast.AST, List[Tuple[ast.expr, bool]]]]:
        """(expression that renders the operand, tests it sits under)."""
        out = []
        if isinstance(e, ast.JoinedStr):
            for v in e.values:
                if isinstance(v, ast.FormattedValue):
                    out += rendering(operand, v.value, conds)
            return out
        if isinstance(e, ast.IfExp):
            from .common import _split_cond

            out += rendering(operand, e.body, conds + _split_cond(e.test, True))
            out += rendering(operand, e.orelse, conds + _split_cond(e.test, False))
            return out
        if any(path_of(n) == operand for n in ast.walk(e)):
            return [(e, conds)]
        return []

    for r in rets:
        v = resolved(s.node, r.value)
        for operand in ("self.left", "self.right"):
            sites = rendering(operand, v, [])  # type: ignore[arg-type]
            if not sites:
                raise AnalysisError(f"R10.9: {operand} does not reach the text returned by InfixExpression.__str__")
            guarded = False
            paren_text = "(" in ast.unparse(v)
            for e, conds in sites:
                is_infix = any((isinstance_classes(t) or ("", []))[0] == operand and "InfixExpression" in (isinstance_classes(t) or ("", []))[1] and b
                               for t, b in conds)
                if is_infix:
                    guarded = True
                # rendered by a helper method: the helper must make the distinction for its parameter
                if isinstance(e, ast.Call) and isinstance(e.func, ast.Attribute) and len(e.args) == 1 and path_of(e.args[0]) == operand:
                    h = ctx.repo.find_method(infix, e.func.attr)
                    if h is not None:
                        hp = [a.arg for a in h.node.args.args if a.arg not in ("self", "cls")]
                        for hr in [n for n in ast.walk(h.node) if isinstance(n, ast.Return) and n.value is not None]:
                            hconds = path_conditions(h.node, hr)
                            under = any((isinstance_classes(t) or ("", []))[0] == (hp[0] if hp else "") and "InfixExpression" in (
                                isinstance_classes(t) or ("", []))[1] and b for t, b in hconds)
                            txt = ast.unparse(hr.value)
                            if under and "(" in txt and ")" in txt:
                                guarded = True
                                paren_text = True
            # the guarded rendering must be parenthesised text: look at the leaves under the positive test
            if guarded and paren_text:
                rr.ok(s.loc(r), f"InfixExpression.__str__: {operand} is parenthesised when it is itself an infix expression")
            else:
                rr.bad(s, r, f"`{operand}` is interpolated into the text of a comparison as it is: a comparison that was written in "
                       "parentheses as an operand (`@.a == (@.b == 1)`) is printed without them and the text regroups left to right",
                       construct=f"InfixExpression.__str__: {operand} unparenthesised")
    return rr


def r10_10(ctx: Ctx) -> RuleResult:
    """Every number the parser can produce has a spelling the lexer accepts.  The numeric tokens allow an exponent of
    any size, and `float()` turns an out-of-range literal (`1e400`) into infinity, whose repr `inf` is not a token:
    the printer of float literals must treat non-finite values separately."""
    import re as _re

    rr = RuleResult("R10.10", "float literals that overflow to infinity have a parseable spelling", floor=1)
    lex = ctx.lexer
    overflowing = [t for t in ("1e999", "1.0e999", "-1e999") if any(
        _re.fullmatch(lex.rule_pattern(r), t) for r in ("FLOAT", "INT") if r in dict(lex.rules))]
    fl = ctx.repo.require_class("jsonpath.filter.FloatLiteral")
    st = ctx.repo.find_method(fl, "__str__")
    if st is None:
        raise AnalysisError("FloatLiteral has no __str__")
    if not overflowing:
        rr.ok(st.loc(), "the numeric tokens cannot spell a literal that overflows a float")
        return rr
    # a float literal stays a float literal: its text is lexed by the FLOAT rule again (the INT rule also takes an
    # exponent - `1e+25` - and hands back an integer literal, which prints as 26 digits: not a fixed point)
    from sa.peval import UNKNOWN as _UNK

    from .model import MObj as _MO
    from .model import Model as _Mo

    for value in (1.5, 0.1, 2.0, 1e16, 1e25, -1e22, 1e-7, 1e300):
        model = _Mo(ctx, "R10.10")
        model.whole_bodies = True
        text = _MO(model, "jsonpath.filter.FloatLiteral", {"value": value, "volatile": False}).peval_str()
        if text is _UNK or not isinstance(text, str):
            raise AnalysisError(f"R10.10: the text of the float literal {value!r} cannot be determined")
        toks = lex.tokens_of(text)
        if len(toks) == 1 and toks[0][1] == "FLOAT" and toks[0][2] == text:
            rr.ok(st.loc(), f"float literal {value!r} prints as `{text}`, a FLOAT token")
        else:
            rr.bad(st, st.node, f"the float literal {value!r} prints as `{text}`, which the lexer reads as {[t[1] for t in toks]} - not as one FLOAT token: "
                   "the recompiled query holds an integer literal and prints differently (the text is not a fixed point)",
                   construct=f"FloatLiteral: {value!r} -> `{text}` lexed as {[t[1] for t in toks]}")
            break
    # the two infinities: what is printed must be a numeric token again, and one that overflows to the same infinity
    for value in (float("inf"), float("-inf")):
        model = _Mo(ctx, "R10.10")
        model.whole_bodies = True
        text = _MO(model, "jsonpath.filter.FloatLiteral", {"value": value, "volatile": False}).peval_str()
        if text is _UNK or not isinstance(text, str):
            raise AnalysisError(f"R10.10: the text of the float literal {value!r} cannot be determined")
        toks = lex.tokens_of(text)
        numeric = len(toks) == 1 and toks[0][1] in ("FLOAT", "INT") and toks[0][2] == text
        try:
            back = float(text) if numeric else None
        except ValueError:
            back = None
        if numeric and back == value:
            rr.ok(st.loc(), f"FloatLiteral.__str__ prints {value!r} as `{text}`, a numeric token that overflows to the same infinity "
                  f"(tokens such as {overflowing[0]} overflow to infinity)")
        else:
            rr.bad(st, st.node, f"the lexer accepts `{overflowing[0]}`, which float() turns into infinity, and {st.qualname} prints {value!r} as "
                   f"`{text}`: the text of `$[?@.a == 1e999]` does not compile to the same query",
                   construct=f"FloatLiteral: {value!r} printed as `{text}`")
    return rr


# --------------------------------------------------------------------------- R10.11
from .model import MObj as _MObjBase  # noqa: E402
from .model import Model as _ModelBase  # noqa: E402


class _Model(_ModelBase):
    def __init__(self, ctx: Ctx) -> None:
        super().__init__(ctx, "R10.11")

    def new(self, cls: str, **kwargs: object) -> "_FNode":  # type: ignore[override]
        obj = _FNode(self, cls, {})
        init = self.ctx.repo.find_method(self.ctx.repo.require_class(cls), "__init__")
        if init is None:
            raise AnalysisError(f"R10.11: {cls}.__init__ not found")
        params = [a.arg for a in init.node.args.args][1:]
        if set(kwargs) - set(params):
            raise AnalysisError(f"R10.11: {cls}.__init__ no longer takes {sorted(set(kwargs) - set(params))}")
        self.call(obj, "__init__", [], kwargs)
        return obj


class _FNode(_MObjBase):
    def shape(self) -> object:
        if "$text" in self.fields:
            return self.fields["$text"]
        if self.cls == "PrefixExpression":
            return ("!", self.fields["right"].shape())  # type: ignore[union-attr]
        return (self.fields["operator"], self.fields["left"].shape(), self.fields["right"].shape())  # type: ignore[union-attr]


def _flatten(t: object) -> object:
    """`&&` / `||` chains are associative: ((a && b) && c) and (a && (b && c)) are one expression."""
    if isinstance(t, tuple) and len(t) == 3:  # noqa: PLR2004
        op, left, right = t
        left, right = _flatten(left), _flatten(right)
        if op in ("&&", "||"):
            items: List[object] = []
            for side in (left, right):
                if isinstance(side, tuple) and side and side[0] == ("chain", op):
                    items.extend(side[1:])
                else:
                    items.append(side)
            return (("chain", op), *items)
        return (op, left, right)
    if isinstance(t, tuple) and len(t) == 2:  # noqa: PLR2004
        return (t[0], _flatten(t[1]))
    return t


def _reference_parse(text: str, atoms: List[str], op_prec: Dict[str, int], prefix_prec: int, lowest: int, strict_less: bool) -> object:
    """A precedence-climbing parser with the shape of `Parser.parse_filter_selector` (the loop stops at an operator
    whose precedence is below - `strict_less` - the current one) over the folded precedence table."""
    toks: List[str] = []
    i = 0
    cands = sorted(atoms + list(op_prec) + ["(", ")", "!"], key=len, reverse=True)
    while i < len(text):
        if text[i] == " ":
            i += 1
            continue
        for c in cands:
            if text.startswith(c, i):
                toks.append(c)
                i += len(c)
                break
        else:
            raise ValueError(f"unreadable text at {text[i:]!r}")
    pos = 0

    def peek() -> Optional[str]:
        return toks[pos] if pos < len(toks) else None

    def primary() -> object:
        nonlocal pos
        t = peek()
        if t is None:
            raise ValueError("unexpected end")
        pos += 1
        if t == "!":
            return ("!", expr(prefix_prec))
        if t == "(":
            e = expr(lowest)
            if peek() != ")":
                raise ValueError("unbalanced parentheses")
            pos += 1
            return e
        if t in atoms:
            return t
        raise ValueError(f"unexpected {t!r}")

    def expr(min_prec: int) -> object:
        nonlocal pos
        left = primary()
        while True:
            t = peek()
            if t is None or t == ")" or t not in op_prec:
                return left
            p = op_prec[t]
            if (p < min_prec) if strict_less else (p <= min_prec):
                return left
            pos += 1
            right = expr(p)
            left = (t, left, right)

    tree = expr(lowest)
    if pos != len(toks):
        raise ValueError(f"trailing text {toks[pos:]}")
    return tree


def r10_11(ctx: Ctx) -> RuleResult:
    """Grouping round trip.  Every filter expression tree of depth <= 3 over one operator of each precedence level,
    `!` and path leaves is printed by abstract execution of the printers and read back by a reference parser that
    has the shape of the library's Pratt loop and its folded precedence table; the tree read back must be the tree
    printed (`&&` / `||` chains compared as chains).  Decides the parenthesisation of *every* nesting at once:
    logical under comparison, comparison under comparison, `!` under comparison, comparison under `!` ..."""
    from sa.peval import UNKNOWN
    from sa.peval import Text

    rr = RuleResult("R10.11", "printed filter expressions group as the tree they were printed from", floor=200)
    parser = ctx.repo.require_class("Parser")
    try:
        ops = ctx.folder.class_attr(parser, "BINARY_OPERATORS")
        prec = ctx.folder.class_attr(parser, "PRECEDENCES")
        lowest = ctx.folder.class_attr(parser, "PRECEDENCE_LOWEST")
        prefix = ctx.folder.class_attr(parser, "PRECEDENCE_PREFIX")
    except NotConst as err:
        raise AnalysisError(f"R10.11: parser tables cannot be folded: {err}") from err
    pfs = ctx.repo.require_func("Parser.parse_filter_selector")
    cmps = [n for n in ast.walk(pfs.node) if isinstance(n, ast.Compare) and len(n.ops) == 1 and "PRECEDENCES" in ast.unparse(n.left)
            and isinstance(n.ops[0], (ast.Lt, ast.LtE))]
    if len(cmps) != 1:
        raise AnalysisError("R10.11: the precedence test of the Pratt loop in Parser.parse_filter_selector was not found")
    strict_less = isinstance(cmps[0].ops[0], ast.Lt)
    # operator spelling -> precedence of the token it lexes to
    op_prec: Dict[str, int] = {}
    for spelling in sorted(set(ops.values())):
        toks = ctx.lexer.classify(f"@ {spelling} @")
        kinds = [k for _r, k, text in toks if text == spelling]
        if len(kinds) != 1:
            raise AnalysisError(f"R10.11: operator `{spelling}` does not lex to one token ({toks})")
        op_prec[spelling] = prec.get(kinds[0], lowest)
    # one representative per precedence level, both logical operators
    reps: List[str] = []
    for level in sorted(set(op_prec.values())):
        same = sorted(o for o, p in op_prec.items() if p == level)
        reps.extend(o for o in same if o in ("&&", "||"))
        others = [o for o in same if o not in ("&&", "||")]
        if others:
            reps.append(others[0])
    model = _Model(ctx)
    atoms = ["@['a']", "@['b']", "@['c']", "@['d']"]

    def leaf(i: int) -> _FNode:
        return _FNode(model, "SelfPath", {"$text": atoms[i % len(atoms)]})

    def trees(depth: int, counter: List[int]) -> List[_FNode]:
        if depth == 0:
            counter[0] += 1
            return [leaf(counter[0])]
        out: List[_FNode] = list(trees(0, counter))
        subs = trees(depth - 1, counter)
        for sub in subs:
            if sub.cls != "SelfPath" or depth == 1:
                out.append(model.new("PrefixExpression", operator="!", right=sub))
        small = trees(0, counter)[0]
        for op in reps:
            for sub in subs:
                if sub.cls == "SelfPath" and depth > 1:
                    continue
                out.append(model.new("InfixExpression", left=sub, operator=op, right=leaf(counter[0] + 1)))
                out.append(model.new("InfixExpression", left=leaf(counter[0] + 2), operator=op, right=sub))
            if depth == 1:
                out.append(model.new("InfixExpression", left=small, operator=op, right=leaf(counter[0] + 1)))
        return out

    all_trees = trees(3, [0])
    where = ctx.repo.require_func("BooleanExpression._canonical_string")
    seen: Set[str] = set()
    undecided = 0
    for t in all_trees:
        if t.cls == "SelfPath":
            continue
        top = model.new("BooleanExpression", expression=t)
        text = top.peval_str()
        if isinstance(text, Text) or text is UNKNOWN or not isinstance(text, str):
            undecided += 1
            continue
        want = _flatten(t.shape())
        try:
            got = _flatten(_reference_parse(text, atoms, op_prec, prefix, lowest, strict_less))
        except ValueError as err:
            got = f"<{err}>"
        if got == want:
            rr.ok(where.loc(), f"`{text}` reads back as printed")
            continue
        # one finding per kind of nesting (outer operator / inner operator / side)
        kind = _nesting_kind(t)
        if kind in seen:
            continue
        seen.add(kind)
        rr.bad(where, where.node, f"the expression {t.shape()} is printed as `{text}`, which the parser reads as {got}: the text of a "
               f"compiled query does not recompile to an equivalent query ({kind})", construct=f"grouping lost: {kind}")
    if undecided > len(all_trees) // 10:
        raise AnalysisError(f"R10.11: the printed text of {undecided} of {len(all_trees)} trees could not be determined")
    return rr


def _nesting_kind(t: _FNode) -> str:
    def cat(n: _FNode) -> str:
        if n.cls == "PrefixExpression":
            return "!"
        if n.cls == "InfixExpression":
            op = n.fields.get("operator")
            return str(op)
        return "path"

    def walk(n: _FNode) -> List[str]:
        out = []
        if n.cls == "PrefixExpression":
            r = n.fields["right"]
            out.append(f"`{cat(r)}` under `!`")  # type: ignore[arg-type]
            out += walk(r)  # type: ignore[arg-type]
        elif n.cls == "InfixExpression":
            for side in ("left", "right"):
                k = n.fields[side]
                if k.cls != "SelfPath":  # type: ignore[union-attr]
                    out.append(f"`{cat(k)}` as {side} operand of `{cat(n)}`")  # type: ignore[arg-type]
                    out += walk(k)  # type: ignore[arg-type]
        return out

    return "; ".join(walk(t)) or cat(t)


def r10_12(ctx: Ctx, rule: str = "R10.12", spellings: Optional[Dict[str, str]] = None) -> RuleResult:
    """A query embedded in a filter prints with the identifier it was written with: `$` or `^` for a root query (the
    fake root stays the fake root), `@` for a relative query, `_` for the filter context.  The four string forms are
    executed abstractly (rules/model.py) on an embedded query with and without the fake-root flag."""
    from sa.peval import UNKNOWN
    from sa.peval import Text

    from .model import MObj
    from .model import Model

    rr = RuleResult(rule, "embedded queries print with the identifier they were written with", floor=4)
    env_cls = ctx.repo.require_class("JSONPathEnvironment")
    try:
        toks = {k: ctx.folder.class_attr(env_cls, k) for k in ("root_token", "fake_root_token", "self_token", "filter_context_token")}
    except NotConst as err:
        raise AnalysisError(f"{rule}: environment tokens cannot be folded: {err}") from err
    if spellings:
        toks = dict(toks, **spellings)
    cases = [("RootPath", False, toks["root_token"]), ("RootPath", True, toks["fake_root_token"]),
             ("SelfPath", False, toks["self_token"]), ("FilterContextPath", False, toks["filter_context_token"])]
    for cname, fake, want in cases:
        model = Model(ctx, "R10.12")
        model.whole_bodies = True
        env = MObj(model, "JSONPathEnvironment", dict(spellings or {}))
        seg = MObj(model, "PropertySelector", {"$text": "['a']"})
        path = MObj(model, "JSONPath", {"env": env, "selectors": (seg,), "fake_root": fake})
        node = MObj(model, cname, {"path": path, "volatile": UNKNOWN})
        text = node.peval_str()
        fn = ctx.repo.find_method(ctx.repo.require_class("jsonpath.filter." + cname), "__str__")
        if isinstance(text, Text) or text is UNKNOWN or not isinstance(text, str):
            raise AnalysisError(f"R10.12: the string form of {cname} cannot be determined ({text!r})")
        expect = f"{want}['a']"
        if text == expect:
            rr.ok(fn.loc() if fn else "", f"{cname} ({'fake root' if fake else 'plain'}): `{text}`")
        else:
            rr.bad(fn, fn.node if fn else None, f"a {'fake-root ' if fake else ''}query embedded in a filter as {cname} prints as `{text}` instead of `{expect}`: the text "
                   "recompiles to a different query" + (" (`^` became `$`: the document is no longer wrapped)" if fake else ""),
                   construct=f"{cname}{' (fake root)' if fake else ''}: {text} instead of {expect}")
    return rr


def r10_13(ctx: Ctx) -> RuleResult:
    """String contents under quoting and escaping: = R3.11 (writer and reader of quoted text executed on covering samples)."""
    from .c03 import name_round_trip

    return name_round_trip(ctx, "R10.13")


RULES = [r10_1, r10_2, r10_3, r10_4, r10_5, r10_6, r10_7, r10_8, r10_9, r10_10, r10_11, r10_12, r10_13]
