"""C05 - JSON Patch application conforms to RFC 6902.

R5.1/R5.2 array insertion (add, move, copy alike) distinguishes index < length,
          = length, `-` and > length: on every path to an `insert`, the length of
          the array has been read and the `-` token has been told apart
R5.3      object member keys are strings
R5.4      JSON-value equality in operations goes through the repo's RFC equality
R5.5      a copied value is independent of its source (deep copy)
R5.6      the own-child check of move precedes every mutation
R5.7      handler order in JSONPatch.apply; the test-failure kind is preserved
"""

from __future__ import annotations

import ast
from typing import Dict
from typing import List
from typing import Optional
from typing import Set
from typing import Tuple

from sa.kinds import ARRAY
from sa.kinds import NODELIST
from sa.kinds import OBJECT
from sa.kinds import path_of
from sa.loader import AnalysisError
from sa.loader import ClassInfo
from sa.loader import FuncInfo
from sa.loader import short
from sa.report import RuleResult

from . import Ctx
from .common import callee_name
from .common import calls
from .common import must_flow

STANDARD_INSERTING_OPS = ("add", "move", "copy")


def op_classes(ctx: Ctx) -> List[ClassInfo]:
    base = ctx.repo.require_class("jsonpath.patch.Op")
    def abstract(c: ClassInfo) -> bool:
        # an intermediate base that shares code between operations (`class _PathValueOp(Op)`) still has an
        # abstract `apply`: it is not an operation
        fn = ctx.repo.find_method(c, "apply")
        return fn is None or any(ast.unparse(d).split(".")[-1] == "abstractmethod" for d in fn.node.decorator_list)

    out = [c for c in ctx.repo.subclasses(base, strict=True) if not abstract(c)]
    if len(out) < 8:
        raise AnalysisError(f"expected 8 patch operation classes, found {len(out)}")
    return out


def op_name(ctx: Ctx, cls: ClassInfo) -> str:
    v = ctx.folder.class_attr(cls, "name")
    if not isinstance(v, str):
        raise AnalysisError(f"{cls.name}.name is not a constant string")
    return v


def _helper_summary(ctx: Ctx, fn: FuncInfo) -> Dict[str, List[int]]:
    """Which parameters (by position) does a helper take len() of, and does it
    compare anything with the "-" token?"""
    params = [a.arg for a in fn.node.args.args + fn.node.args.kwonlyargs]
    lens: List[int] = []
    for c in calls(fn.node, "len"):
        if c.args and isinstance(c.args[0], ast.Name) and c.args[0].id in params:
            lens.append(params.index(c.args[0].id))
    dash = any(
        isinstance(n, ast.Compare) and any(
            isinstance(x, ast.Constant) and x.value == "-" for x in [n.left] + list(n.comparators)
        )
        for n in ast.walk(fn.node)
    )
    return {"len": lens, "dash": [1] if dash else []}


def _insert_events(ctx: Ctx, fn: FuncInfo):  # type: ignore[no-untyped-def]
    cg = ctx.callgraph

    def expr_events(e: ast.expr) -> List[str]:
        ev: List[str] = []
        if isinstance(e, ast.Call):
            if callee_name(e) == "len" and e.args:
                p = path_of(e.args[0])
                if p:
                    ev.append("len@" + p)
            site = cg.by_node.get(id(e))
            if site is not None and site.kind == "call":
                for callee in site.callees:
                    if callee.module.name != "jsonpath.patch" or callee.name == "apply":
                        continue
                    summ = _helper_summary(ctx, callee)
                    params = [a.arg for a in callee.node.args.args if a.arg not in ("self", "cls")]
                    for idx in summ["len"]:
                        allp = [a.arg for a in callee.node.args.args + callee.node.args.kwonlyargs]
                        pname = allp[idx]
                        arg: Optional[ast.expr] = None
                        if pname in params and params.index(pname) < len(e.args):
                            arg = e.args[params.index(pname)]
                        for k in e.keywords:
                            if k.arg == pname:
                                arg = k.value
                        if arg is not None and path_of(arg):
                            ev.append("len@" + path_of(arg))  # type: ignore[operator]
                    if summ["dash"]:
                        ev.append("dash@")
        if isinstance(e, ast.Compare):
            if any(isinstance(x, ast.Constant) and x.value == "-" for x in [e.left] + list(e.comparators)):
                ev.append("dash@")
        return ev

    return expr_events


def r5_1(ctx: Ctx) -> RuleResult:
    rr = RuleResult("R5.1", "array insertion consults the length and the `-` token (add, move, copy alike)", floor=5)
    found: Dict[str, int] = {}
    for cls in op_classes(ctx):
        fn = cls.methods.get("apply")
        if fn is None:
            continue
        name = op_name(ctx, cls)
        inserts = [
            c for c in calls(fn.node, "insert")
            if isinstance(c.func, ast.Attribute) and path_of(c.func.value) and len(c.args) == 2
        ]
        if not inserts:
            continue
        flow = must_flow(fn.node, expr_events=_insert_events(ctx, fn))
        for c in inserts:
            recv = path_of(c.func.value)  # type: ignore[union-attr]
            found[name] = found.get(name, 0) + 1
            # state *after* evaluating the arguments of the insert call
            st = _state_after_args(flow, c)
            missing = []
            if f"len@{recv}" not in st:
                missing.append(f"len({recv}) is not read on every path")
            if "dash@" not in st and name in STANDARD_INSERTING_OPS:
                missing.append("the `-` (end of array) token is not distinguished")
            if missing and name in STANDARD_INSERTING_OPS:
                rr.bad(fn, c,
                       f"`{name}` inserts into an array without telling index = length (legal), `-` "
                       f"(legal) and index > length (error) apart: {'; '.join(missing)}",
                       construct=short(c))
            elif missing:
                # documented variants are compared with `add` by R15.5
                rr.ok(fn.loc(c), f"{name}: variant, compared with add by R15.5 ({'; '.join(missing)})")
            else:
                rr.ok(fn.loc(c), f"{name}: {short(c, 60)} after len({recv}) and the `-` test")
    for n in STANDARD_INSERTING_OPS:
        if n not in found:
            raise AnalysisError(f"R5.1: no array insertion found in the `{n}` operation")
    return rr


def _state_after_args(flow, call: ast.Call):  # type: ignore[no-untyped-def]
    """Must-state in which the call itself executes (after its arguments)."""
    st = flow.at.get(id(call)) or frozenset()
    dom = flow.domain
    for a in list(call.args) + [k.value for k in call.keywords]:
        for sub in ast.walk(a):
            if isinstance(sub, ast.expr):
                st = st | frozenset(dom.expr_events(sub))
    return st


def r5_3(ctx: Ctx, rule: str = "R5.3", only: Optional[Tuple[str, ...]] = None, floor: int = 7) -> RuleResult:
    rr = RuleResult(rule, "object member keys used by patch operations are strings", floor=floor)
    po = ctx.partial
    for cls in op_classes(ctx):
        fn = cls.methods.get("apply")
        if fn is None:
            continue
        name = op_name(ctx, cls)
        if only is not None and name not in only:
            continue
        for node in ast.walk(fn.node):
            key: Optional[ast.expr] = None
            base: Optional[ast.expr] = None
            if isinstance(node, ast.Subscript) and not isinstance(node.slice, ast.Slice):
                base, key = node.value, node.slice
            elif isinstance(node, ast.Compare) and len(node.ops) == 1 and isinstance(node.ops[0], (ast.In, ast.NotIn)):
                base, key = node.comparators[0], node.left
            if base is None or key is None or path_of(base) is None:
                continue
            ks = po._kinds(fn, node, base)
            if ks is None or not (ks <= {OBJECT}):
                continue
            names = po._tynames(fn, key)
            if names is not None and names <= {"str"}:
                rr.ok(fn.loc(node), f"{name}: mapping key {short(key, 40)} is a str")
            else:
                rr.bad(fn, node,
                       f"`{name}` addresses an object member with a key of type "
                       f"{sorted(names) if names else 'unknown'}: a pointer token such as `1` is kept as "
                       "an int, so `/1` writes the key 1 instead of the member \"1\"",
                       construct=short(node))
    return rr


def r5_4(ctx: Ctx) -> RuleResult:
    rr = RuleResult("R5.4", "JSON values are compared with the RFC equality routine", floor=1)
    po = ctx.partial
    n = 0
    for cls in op_classes(ctx):
        fn = cls.methods.get("apply")
        if fn is None:
            continue
        name = op_name(ctx, cls)
        for node in ast.walk(fn.node):
            if not isinstance(node, ast.Compare):
                continue
            for i, op in enumerate(node.ops):
                if not isinstance(op, (ast.Eq, ast.NotEq)):
                    continue
                left = node.left if i == 0 else node.comparators[i - 1]
                right = node.comparators[i]
                if isinstance(left, ast.Constant) or isinstance(right, ast.Constant):
                    continue  # comparison with a literal such as "-"
                lt, rt = po._tynames(fn, left), po._tynames(fn, right)
                plain = {"str", "int", "float", "None"}
                if lt is not None and rt is not None and lt <= plain and rt <= plain:
                    continue  # neither side can be a boolean or a container
                n += 1
                rr.bad(fn, node,
                       f"`{name}` compares two JSON values with Python `==`, which identifies true with 1 "
                       "(also inside arrays and objects); use the RFC equality routine",
                       construct=short(node))
        if name == "test":
            eq_calls = [c for c in calls(fn.node) if callee_name(c) in _equality_routines(ctx)]
            if eq_calls:
                n += 1
                rr.ok(fn.loc(eq_calls[0]), f"test: values compared by {callee_name(eq_calls[0])}()")
    if n == 0:
        raise AnalysisError("R5.4: the `test` operation performs no value comparison")
    from .c02 import check_equality_kind_table
    from .c02 import check_equality_routines

    check_equality_routines(ctx, rr)
    check_equality_kind_table(ctx, rr)
    return rr


def _equality_routines(ctx: Ctx) -> Set[str]:
    from .c02 import equality_routines

    return {f.name for f in equality_routines(ctx)}


def r5_5(ctx: Ctx) -> RuleResult:
    rr = RuleResult("R5.5", "copy inserts a deep copy of the source value", floor=1)  # one per use of the source value
    cls = [c for c in op_classes(ctx) if op_name(ctx, c) == "copy"]
    if len(cls) != 1:
        raise AnalysisError("R5.5: the copy operation class was not found")
    fn = cls[0].methods.get("apply")
    if fn is None:
        raise AnalysisError("R5.5: OpCopy.apply not found")
    # the variable bound to the resolved source object
    src_vars: Set[str] = set()
    for n in ast.walk(fn.node):
        if isinstance(n, ast.Assign) and isinstance(n.value, ast.Call) and callee_name(n.value) == "resolve_parent":
            recv = path_of(n.value.func.value)  # type: ignore[union-attr]
            t = n.targets[0]
            if isinstance(t, ast.Tuple) and len(t.elts) == 2 and isinstance(t.elts[1], ast.Name) and recv and "source" in recv:
                src_vars.add(t.elts[1].id)
    if not src_vars:
        raise AnalysisError("R5.5: cannot find the variable holding the resolved source value")
    from sa.flow import parent_map

    parents = parent_map(fn.node)
    sinks = 0
    for n in ast.walk(fn.node):
        if isinstance(n, ast.Name) and n.id in src_vars and isinstance(n.ctx, ast.Load):
            par = parents.get(id(n))
            if isinstance(par, ast.Compare):
                continue  # `source_obj is UNDEFINED`
            sinks += 1
            if isinstance(par, ast.Call) and callee_name(par) == "deepcopy" and par.args and par.args[0] is n:
                rr.ok(fn.loc(n), f"copy: {short(par)}")
            else:
                rr.bad(fn, par or n, "the source value reaches the document without copy.deepcopy: the copy "
                       "would share structure with its source", construct=short(par or n))
    if sinks == 0:
        raise AnalysisError("R5.5: the source value is never used")
    return rr


def r5_6(ctx: Ctx) -> RuleResult:
    rr = RuleResult("R5.6", "move refuses a destination inside the source before changing anything", floor=2)
    cls = [c for c in op_classes(ctx) if op_name(ctx, c) == "move"]
    if len(cls) != 1:
        raise AnalysisError("R5.6: the move operation class was not found")
    fn = cls[0].methods.get("apply")
    if fn is None:
        raise AnalysisError("R5.6: OpMove.apply not found")

    def refine(test: ast.expr, branch: bool) -> List[str]:
        if isinstance(test, ast.Call) and callee_name(test) == "is_relative_to" and not branch:
            return ["own_child_refused@"]
        return []

    flow = must_flow(fn.node, refine_events=refine)
    muts: List[ast.AST] = []
    for n in ast.walk(fn.node):
        if isinstance(n, ast.Delete):
            muts.append(n)
        elif isinstance(n, (ast.Assign, ast.AugAssign)):
            targets = n.targets if isinstance(n, ast.Assign) else [n.target]
            if any(isinstance(t, ast.Subscript) for t in targets):
                muts.append(n)
        elif isinstance(n, ast.Expr) and isinstance(n.value, ast.Call) and callee_name(n.value) in (
            "insert", "append", "pop", "remove", "extend", "clear", "update", "setdefault"
        ):
            muts.append(n)
    if len(muts) < 2:
        raise AnalysisError("R5.6: fewer than two mutations found in OpMove.apply")
    for m in muts:
        st = flow.pre.get(id(m)) or frozenset()
        if "own_child_refused@" in st:
            rr.ok(fn.loc(m), f"move: `{short(m, 60)}` after the own-child check")
        else:
            rr.bad(fn, m, "the document is changed on a path on which the destination has not been "
                   "checked against the source (moving a value into its own child must fail before "
                   "anything is removed)", construct=short(m))
    return rr


def r5_7(ctx: Ctx) -> RuleResult:
    rr = RuleResult("R5.7", "JSONPatch.apply handler order; test failure stays a test failure", floor=2)
    fn = ctx.repo.require_func("JSONPatch.apply")
    esc = ctx.escapes
    tries = [n for n in ast.walk(fn.node) if isinstance(n, ast.Try)]
    if not tries:
        raise AnalysisError("R5.7: JSONPatch.apply has no try statement")
    tf = ctx.repo.require_class("JSONPatchTestFailure").qualname
    for t in tries:
        seen: List[str] = []
        preserved = False
        for h in t.handlers:
            types = esc._handler_types(fn, h)
            shadowed = [x for x in types if any(esc.catches(p, x) for p in seen)]
            if types and len(shadowed) == len(types):
                rr.bad(fn, h, f"`except {short(h.type)}` is shadowed by an earlier clause",
                       construct=f"except {short(h.type)} shadowed")
            else:
                rr.ok(fn.loc(h), f"except {short(h.type) if h.type else ''} reachable")
            if any(esc.catches(x, tf) for x in types) and not any(esc.catches(p, tf) for p in seen):
                raised = [
                    esc.exc_name(fn, r.exc) for r in ast.walk(h) if isinstance(r, ast.Raise) and r.exc is not None
                ]
                bare = any(isinstance(r, ast.Raise) and r.exc is None for r in ast.walk(h))
                if bare or (raised and all(x == tf for x in raised)):
                    preserved = True
                elif h.name:
                    # one clause for several classes that tells the test failure apart with isinstance()
                    from .common import isinstance_classes
                    from .common import path_conditions

                    def is_tf(r: ast.Raise) -> Optional[bool]:
                        for t_, b_ in path_conditions(fn.node, r):
                            ic = isinstance_classes(t_)
                            if ic is not None and ic[0] == h.name and any(
                                (ctx.repo.get_class(c) is not None and ctx.repo.get_class(c).qualname == tf) for c in ic[1]  # type: ignore[union-attr]
                            ):
                                return b_
                        return None

                    rs = [r for r in ast.walk(h) if isinstance(r, ast.Raise) and r.exc is not None]
                    keeps = [r for r in rs if esc.exc_name(fn, r.exc) == tf and is_tf(r) is True]
                    others = [r for r in rs if esc.exc_name(fn, r.exc) != tf]
                    if keeps and all(is_tf(r) is False for r in others):
                        preserved = True
            seen.extend(types)
        if preserved:
            rr.ok(fn.loc(t), "a failed test is re-raised as JSONPatchTestFailure")
        else:
            rr.bad(fn, t, "a JSONPatchTestFailure raised by an operation is not re-raised as the dedicated "
                   "test-failure kind (it is caught by a broader clause first, or translated)",
                   construct="JSONPatchTestFailure preserved")
    return rr


def r5_8(ctx: Ctx) -> RuleResult:
    """`move` is remove-then-add: the destination is located in the document as
    it is *after* the source has been removed."""
    from sa.flow import Flow
    from sa.must import MayDomain

    rr = RuleResult("R5.8", "move locates its destination after removing the source", floor=1)
    cls = [c for c in op_classes(ctx) if op_name(ctx, c) == "move"]
    if len(cls) != 1:
        raise AnalysisError("R5.8: the move operation class was not found")
    fn = cls[0].methods.get("apply")
    if fn is None:
        raise AnalysisError("R5.8: OpMove.apply not found")
    src_parent = dest_call = None
    for n in ast.walk(fn.node):
        if isinstance(n, ast.Assign) and isinstance(n.value, ast.Call) and callee_name(n.value) == "resolve_parent":
            recv = path_of(n.value.func.value) or ""  # type: ignore[union-attr]
            if "source" in recv and isinstance(n.targets[0], ast.Tuple):
                src_parent = path_of(n.targets[0].elts[0])
    if src_parent is None:
        raise AnalysisError("R5.8: cannot find the variable holding the source's parent")

    def expr_events(e: ast.expr) -> List[str]:
        if isinstance(e, ast.Call) and callee_name(e) in ("resolve_parent", "resolve") and "dest" in (path_of(e.func.value) or ""):  # type: ignore[union-attr]
            return ["dest_located@"]
        return []

    flow = Flow(fn.node, MayDomain(expr_events=expr_events))
    dels = [
        n for n in ast.walk(fn.node)
        if isinstance(n, ast.Delete) and any(isinstance(t, ast.Subscript) and path_of(t.value) == src_parent for t in n.targets)
    ] + [
        n for n in ast.walk(fn.node)
        if isinstance(n, ast.Expr) and isinstance(n.value, ast.Call) and callee_name(n.value) in ("pop", "remove")
        and path_of(n.value.func.value) == src_parent  # type: ignore[union-attr]
    ]
    if not dels:
        raise AnalysisError("R5.8: no removal of the source found in OpMove.apply")
    for d in dels:
        st = flow.pre.get(id(d)) or frozenset()
        if "dest_located@" in st:
            rr.bad(fn, d, "the source is removed *after* the destination has been located: RFC 6902 defines move as "
                   "remove followed by add, so a destination path that runs through a later sibling of the removed "
                   "array element addresses the wrong container", construct=short(d))
        else:
            rr.ok(fn.loc(d), f"move: `{short(d, 60)}` precedes the destination lookup")
    return rr


def r5_9(ctx: Ctx) -> RuleResult:
    """move refuses exactly the destinations inside the source: the test it relies on compares token sequences (= R14.5)."""
    from .c14 import r14_5

    return r14_5(ctx, "R5.9")


def r5_10(ctx: Ctx) -> RuleResult:
    """RFC 6902: an operation that cannot be applied is an error *of the patch*.  Building and applying raise only
    the patch error family: the escape sets of the patch entry points (= R6.1 restricted to them) - a pointer type
    error that is not translated (`add /a/b` below an array) is not a patch error."""
    from .c06 import r6_1

    return r6_1(ctx, "R5.10", only="patch", floor=5)


def r5_11(ctx: Ctx) -> RuleResult:
    """The document a patch produces is the RFC's every time it is applied: a value of the patch that reaches the
    document (an insert, a replacement, the new root) is a deep copy, or a later operation - or the caller - changes
    the patch itself and the next application gives another document (= R15.4)."""
    from .c15 import r15_4

    return r15_4(ctx, "R5.11")


PATCH_DOC = {"foo": ["bar", "baz"], "a": {"b": 1, "c": [1, {"d": 2}]}, "": {"": 5}, "0": "zero", "arr": [[1, 2], [3]], "t": True, "n": None,
             "s": "str", "num": 1, "a/b": {"~": 1}, "ab": {"c": 1}, "nn": {"x": None}, "chars": ["a", "b"], "e": []}


def _patch_samples() -> List[List[Dict[str, object]]]:
    def op(name: str, path: str, **kw: object) -> Dict[str, object]:
        d: Dict[str, object] = {"op": name, "path": path}
        for k, v in kw.items():
            d["from" if k == "from_" else k] = v
        return d

    one: List[Dict[str, object]] = []
    # add: a new and an existing member, every position of an array incl. its length and `-`, beyond the length, not
    # canonical, not an index, nested, the root, a missing / scalar parent, members that look like indices, escapes
    for path, value in (("/new", 1), ("/new", {"k": [1]}), ("/a/b", [0]), ("/foo/0", "x"), ("/foo/1", "x"), ("/foo/2", "x"), ("/foo/-", "x"), ("/foo/3", "x"),
                        ("/foo/01", "x"), ("/foo/x", "x"), ("/foo/1e0", "x"), ("/a/c/1/e", None), ("", {"whole": ["new"]}), ("", 7), ("/missing/x", 1), ("/s/x", 1),
                        ("/t/0", 1), ("/n/-", 1), ("/0", "again"), ("/1", "one"), ("/arr/0/-", 9), ("/arr/1/1", 9), ("/arr/1/2", 9), ("/a~1b/~0", 2), ("/a~1b/new~1", 2),
                        ("/", 6), ("//", 6), ("//x", 6), ("/foo/-/x", 1)):
        one.append(op("add", path, value=value))
    for path in ("/foo/0", "/foo/1", "/foo/2", "/foo/-", "/foo/01", "/a/b", "/a/missing", "/0", "/1", "/arr/0/1", "/arr/1/0", "/t/x", "/", "//", "/a~1b", "/a~1b/~0", "/a/c/1/d",
                 "/s/0", "/missing/x"):
        one.append(op("remove", path))
    for path, value in (("/a/b", 2), ("/a/b", {"deep": [1]}), ("/foo/1", None), ("/foo/2", 1), ("/foo/-", 1), ("/missing", 1), ("", {"r": 1}), ("", [1]), ("/a/c/1/d", [3]), ("/0", 0),
                        ("/1", 0), ("/", 0), ("/t", False), ("/s/0", "x")):
        one.append(op("replace", path, value=value))
    for src, dst in (("/foo/0", "/a/x"), ("/a/c", "/foo/-"), ("/a", "/a/b/x"), ("/a", "/a/b"), ("/a", "/a"), ("/foo/0", "/foo/0"), ("/foo/0", "/foo/1"), ("/foo/1", "/foo/0"),
                     ("/foo/0", "/foo/2"), ("/foo/0", "/foo/-"), ("/missing", "/x"), ("/a/b", "/foo/5"), ("/a/b", "/s/x"), ("/a/c/1", "/arr/0/0"), ("/a/c/1/d", "/a/c/0"),
                     ("/0", "/1"), ("/", "/x"), ("/a~1b", "/a/moved"), ("/foo", ""), ("/arr/0", "/arr/1/-"), ("/foo/2", "/x"), ("/a/c", "/a/c/0"),
                     # a text prefix that is not a token prefix is no child
                     ("/a", "/ab/moved"), ("/a", "/a~1b/moved"), ("/ab", "/a/in"), ("/a/c", "/a/c2"), ("/ab/c", "/ab/c/x")):
        one.append(op("move", dst, from_=src))
    for src, dst in (("/a", "/copy"), ("/a/c", "/foo/0"), ("/a/c", "/foo/-"), ("/a/c", "/foo/3"), ("/missing", "/x"), ("/a", "/a/b/y"), ("/a", "/a/new"), ("/foo", "/foo/1"),
                     ("/foo/0", "/foo/2"), ("/a/c/1", ""), ("", "/self"), ("/t", "/n"), ("/arr", "/arr/0/0"), ("/foo/2", "/x"), ("/a/c", "/s/x")):
        one.append(op("copy", dst, from_=src))
    for path, value in (("/a/b", 1), ("/a/b", 1.0), ("/a/b", True), ("/a/b", "1"), ("/t", 1), ("/t", True), ("/n", None), ("/n", 0), ("/n", False), ("/s", "str"), ("/s", "st"),
                        ("/a/c", [1, {"d": 2}]), ("/a/c", [1, {"d": 2.0}]), ("/a/c", [True, {"d": 2}]), ("/a/c", [1, {"d": 2, "e": 1}]), ("/a/c", [{"d": 2}, 1]),
                        ("/missing", 1), ("/foo", ["bar", "baz"]), ("/foo", ["baz", "bar"]), ("/foo/2", "x"), ("", PATCH_DOC), ("/", {"": 5}), ("//", 5), ("//", 5.5),
                        ("/a", {"c": [1, {"d": 2}], "b": 1}), ("/num", True), ("/0", "zero"), ("/arr/0", [1, 2]), ("/arr/0", [1, 2, 3]), ("/s/0", "s"),
                        # an absent member is not a null member; an array is not the string of its items
                        ("/nn", {"x": None}), ("/nn", {"y": None}), ("/nn", {}), ("/nn", {"x": None, "y": None}), ("/nn/x", None), ("/nn/x", False),
                        ("/chars", "ab"), ("/chars", ["a", "b"]), ("/e", ""), ("/e", []), ("/s", ["s", "t", "r"]), ("/e", {}), ("/nn", [])):
        one.append(op("test", path, value=value))
    out = [[o] for o in one]
    # sequences: a new root that later operations extend; a copy that is changed afterwards; a patch value that is
    # extended by a later operation; a move followed by a test; an error after a change
    out += [
        [op("add", "", value={"x": []}), op("add", "/x/-", value=1), op("add", "/x/0", value=[0])],
        [op("copy", "/z", from_="/a"), op("add", "/z/b", value=2), op("add", "/z/c/-", value=3), op("test", "/a/b", value=1), op("test", "/a/c", value=[1, {"d": 2}])],
        [op("add", "/v", value=[1]), op("add", "/v/-", value=2), op("add", "/w", value={"k": {}}), op("add", "/w/k/n", value=1)],
        [op("move", "/x", from_="/foo/0"), op("test", "/x", value="bar"), op("test", "/foo", value=["baz"])],
        [op("remove", "/foo/0"), op("remove", "/foo/0"), op("remove", "/foo/0")],
        [op("replace", "", value=[1, 2]), op("add", "/1", value="m"), op("remove", "/0")],
        [op("add", "/foo/-", value="c"), op("move", "/foo/0", from_="/foo/2"), op("copy", "/foo/-", from_="/foo")],
    ]
    return out


def r5_12(ctx: Ctx) -> RuleResult:
    """The property itself on covering samples: `JSONPatch(ops).apply(doc)` - the loader, the builders, the pointer
    parser and resolver, the six operations, the translation of errors - is executed abstractly (rules/model.py:
    exceptions as they run, lists and objects changed in place) on a document and on operations that cover every
    clause of RFC 6902 section 4, and the outcome is compared with the RFC written down on its own (rules/rfc6902.py):
    the same document (as JSON values), or a patch error exactly where the RFC says error - the test-failure kind
    for a failed test.  Also: the caller's operation list is unchanged afterwards, what the document received from
    the patch shares no array or object with it, and a copied value shares none with its source."""
    import copy as _copy

    from sa.peval import UNKNOWN

    from . import rfc6902
    from .model import RAISES
    from .model import Model
    from .model import _ConstructorRaises

    samples = _patch_samples()
    rr = RuleResult("R5.12", "applying a patch gives the document RFC 6902 defines, or a patch error where it says error (covering samples)", floor=len(samples))
    cls = ctx.repo.require_class("jsonpath.patch.JSONPatch")
    afn = ctx.repo.find_method(cls, "apply")
    if afn is None:
        raise AnalysisError("R5.12: JSONPatch.apply not found")

    def site(ops: List[Dict[str, object]]) -> FuncInfo:
        name = str(ops[-1]["op"]) if len(ops) == 1 else ""
        for c in op_classes(ctx):
            if op_name(ctx, c) == name and c.methods.get("apply") is not None:
                return c.methods["apply"]
        return afn  # type: ignore[return-value]

    for ops in samples:
        shown = str(ops if len(ops) > 1 else ops[0])[:150]
        try:
            want: object = rfc6902.apply_patch(PATCH_DOC, ops)
            refused = None
        except rfc6902.Refused as err:
            want, refused = None, err
        model = Model(ctx, "R5.12")
        model.whole_bodies = model.auto_construct = model.exact_exceptions = model.heap = True
        given = _copy.deepcopy(ops)
        doc = _copy.deepcopy(PATCH_DOC)
        fn = site(ops)
        try:
            patch = model.new("jsonpath.patch.JSONPatch", given)
        except _ConstructorRaises:
            rr.bad(fn, fn.node, f"a patch cannot be built from {shown}: {model.last_raised}", construct=f"JSONPatch({shown[:80]}) raises")
            continue
        got = model.call(patch, "apply", [doc])
        if got is UNKNOWN:
            raise AnalysisError(f"R5.12: the result of applying {shown} cannot be determined")
        if got is RAISES:
            c = model.last_raised
            if not c:
                raise AnalysisError(f"R5.12: the class of the exception raised for {shown} cannot be determined")
            if refused is None:
                rr.bad(fn, fn.node, f"applying {shown} raises {c.split('.')[-1]}; RFC 6902 defines the result {want!r:.100}", construct=f"apply {shown[:90]} raises")
            elif not ctx.repo.is_subclass(c, "JSONPatchError"):
                rr.bad(fn, fn.node, f"applying {shown} fails with {c}, which is not a patch error", construct=f"apply {shown[:90]} raises {c}")
            elif refused.kind != "test-or-error" and (refused.kind == "test") != ctx.repo.is_subclass(c, "JSONPatchTestFailure"):
                rr.bad(fn, fn.node, f"applying {shown} fails with {c.split('.')[-1]}: " + ("a failed test must be reported as the test-failure kind of patch error"
                       if refused.kind == "test" else "only a failed test is a test failure, this is another error"), construct=f"apply {shown[:90]} raises {c.split('.')[-1]}")
            else:
                rr.ok(fn.loc(), f"{shown}: {c.split('.')[-1]}")
            continue
        if refused is not None:
            rr.bad(fn, fn.node, f"applying {shown} returns {got!r:.100}; RFC 6902 says this patch is an error ({refused})", construct=f"apply {shown[:90]} returns a document")
            continue
        problems = []
        if rfc6902.has_cycle(got):
            rr.bad(fn, fn.node, f"applying {shown} returns a value that contains itself (no JSON document does): a value was put into the document "
                   "without being copied", construct=f"apply {shown[:100]} -> cyclic value")
            continue
        if not rfc6902.jeq(got, want):
            problems.append(f"the result is {got!r:.160}; RFC 6902 defines {want!r:.160}")
        if not rfc6902.jeq(given, ops):
            problems.append("the caller's list of operations was changed by applying it")
        if rfc6902.shares_structure(given, got):
            problems.append("the result shares an array or object with the patch: a later change of the document changes the patch")
        for o in ops:
            if o["op"] == "copy" and not problems:
                try:
                    src_v, dst_v = rfc6902._get(got, rfc6902.tokens(str(o["from"]))), rfc6902._get(got, rfc6902.tokens(str(o["path"])))
                except rfc6902.Refused:
                    continue
                if len(ops) == 1 and rfc6902.shares_structure(src_v, dst_v) and not rfc6902.tokens(str(o["path"]))[:len(rfc6902.tokens(str(o["from"])))] == rfc6902.tokens(str(o["from"])):
                    problems.append("the copied value shares an array or object with its source")
        if problems:
            rr.bad(fn, fn.node, f"applying {shown}: " + "; ".join(problems), construct=f"apply {shown[:100]}")
        else:
            rr.ok(fn.loc(), f"{shown} -> as RFC 6902 defines")
    return rr


RULES = [r5_1, r5_3, r5_4, r5_5, r5_6, r5_7, r5_8, r5_9, r5_10, r5_11, r5_12]
