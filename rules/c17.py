"""C17 - renaming the environment's identifier tokens never changes meaning.

R17.1 string forms spell identifiers with the environment's tokens
R17.2 the lexer takes every identifier spelling from the environment, escaped,
      longest first, ahead of the generic name and keyword rules
R17.3 parser and evaluator never compare against a default spelling
"""

from __future__ import annotations

import ast
import re
from typing import Dict
from typing import List
from typing import Optional
from typing import Set
from typing import Tuple

from sa.consteval import NotConst
from sa.kinds import path_of
from sa.loader import AnalysisError
from sa.loader import FuncInfo
from sa.loader import short
from sa.report import RuleResult
from sa.tokens import LexerModel

from . import Ctx
from .common import callee_name
from .common import calls


def env_tokens(ctx: Ctx) -> Dict[str, str]:
    env = ctx.repo.require_class("JSONPathEnvironment")
    out = {}
    for name in env.assigns:
        if name.endswith("_token"):
            try:
                v = ctx.folder.class_attr(env, name)
            except NotConst as err:
                raise AnalysisError(f"JSONPathEnvironment.{name} cannot be folded: {err}") from err
            if isinstance(v, str):
                out[name] = v
    if len(out) < 8:
        raise AnalysisError(f"expected eight *_token attributes on JSONPathEnvironment, found {sorted(out)}")
    return out


PRINT_MODULES = ("jsonpath.path", "jsonpath.selectors", "jsonpath.filter")


def r17_1(ctx: Ctx) -> RuleResult:
    rr = RuleResult("R17.1", "string forms spell identifiers with the environment's tokens", floor=10)
    defaults = set(env_tokens(ctx).values())
    for fn in ctx.repo.functions.values():
        if fn.module.name not in PRINT_MODULES or fn.name not in ("__str__", "_canonical_string"):
            continue
        if fn.cls is not None and fn.cls.name == "FilterContext":
            continue  # debugging aid, not a query form
        bad_here = False
        for n in ast.walk(fn.node):
            if isinstance(n, ast.Constant) and isinstance(n.value, str) and n.value.strip() in defaults and n.value.strip():
                bad_here = True
                rr.bad(fn, n, f"the string form hard-codes the default spelling {n.value!r} of a configurable "
                       "identifier: under an environment with other tokens the printed query does not recompile",
                       construct=f"literal {n.value!r}")
            if isinstance(n, ast.Subscript) and isinstance(n.slice, ast.Slice):
                lo = n.slice.lower
                str_names = {
                    a.targets[0].id for a in ast.walk(fn.node)
                    if isinstance(a, ast.Assign) and isinstance(a.targets[0], ast.Name)
                    and isinstance(a.value, ast.Call) and callee_name(a.value) == "str"
                }
                base_is_text = (isinstance(n.value, ast.Call) and callee_name(n.value) == "str") or (
                    isinstance(n.value, ast.Name) and n.value.id in str_names
                )
                if isinstance(lo, ast.Constant) and isinstance(lo.value, int) and lo.value >= 1 and base_is_text:
                    bad_here = True
                    rr.bad(fn, n, "the root identifier is stripped with `[1:]`, which assumes a one-character "
                           "root token", construct=short(n))
        if not bad_here:
            rr.ok(fn.loc(), f"{fn.qualname}: no default identifier spelling")
    return rr


# an assignment of multi-character, regex-special and prefix-related spellings
ALT_TOKENS = {
    "root_token": "$$",
    "fake_root_token": "$^",
    "self_token": "$",
    "key_token": "#k",
    "union_token": "||.",
    "intersection_token": "&+",
    "filter_context_token": "_ctx",
    "keys_selector_token": "~",
}


def _check_table(ctx: Ctx, rr: RuleResult, model: LexerModel, spellings: Dict[str, str], label: str) -> None:
    fn = model.compile_fn
    rules = model.rules
    names = [r for r, _ in rules]
    pats = dict(rules)
    env_rule_names = []
    # which rule carries which spelling: pattern == re.escape(spelling)
    seen_attrs: Set[str] = set()
    for attr, sp in spellings.items():
        hits = [r for r, p in rules if p == re.escape(sp)]
        if not hits:
            rr.bad(fn, fn.node, f"[{label}] the environment attribute `{attr}` ({sp!r}) has no lexer rule whose "
                   "pattern is its escaped spelling", construct=f"{attr} missing or unescaped")
            continue
        seen_attrs.add(attr)
        env_rule_names.append((hits[0], sp))
    if len(seen_attrs) == len(spellings):
        rr.ok(fn.loc(), f"[{label}] all {len(spellings)} identifier tokens are rules with re.escape'd patterns")
    idx = {r: names.index(r) for r, _ in env_rule_names}
    ordered = sorted(env_rule_names, key=lambda t: idx[t[0]])
    lens = [len(sp) for _, sp in ordered]
    if lens == sorted(lens, reverse=True):
        rr.ok(fn.loc(), f"[{label}] identifier rules are ordered longest first {[sp for _, sp in ordered]}")
    else:
        rr.bad(fn, fn.node, f"[{label}] identifier rules are not ordered by decreasing length: "
               f"{[sp for _, sp in ordered]} - a token that is a prefix of another would shadow it",
               construct="identifier rules longest first")
    from .c02 import token_const

    later = [token_const(ctx, n) for n in ("TOKEN_BARE_PROPERTY", "TOKEN_TRUE", "TOKEN_FALSE", "TOKEN_NIL", "TOKEN_IN", "TOKEN_NOT")]
    last_env = max(idx.values()) if idx else -1
    behind = [k for k in later if k in names and names.index(k) < last_env]
    if behind:
        rr.bad(fn, fn.node, f"[{label}] the rules {behind} precede identifier rules, so a custom identifier "
               "that looks like a name or keyword is never recognised", construct="identifier rules before names")
    else:
        rr.ok(fn.loc(), f"[{label}] identifier rules precede the generic name and keyword rules")


def r17_2(ctx: Ctx) -> RuleResult:
    rr = RuleResult("R17.2", "lexer rule table takes all identifier spellings from the environment", floor=6)
    defaults = env_tokens(ctx)
    _check_table(ctx, rr, ctx.lexer, defaults, "default tokens")
    alt = dict(defaults)
    alt.update(ALT_TOKENS)
    model = LexerModel(ctx.repo, ctx.folder, env_overrides=alt)
    _check_table(ctx, rr, model, alt, "custom tokens")
    # identifier spellings are told apart exactly as written: the combined pattern must not fold letter case (two
    # spellings that differ only in case would both match either text, and the first in rule order would win)
    import re as _re

    for label_m, lm in (("default tokens", ctx.lexer), ("custom tokens", model)):
        if lm.master.flags & _re.IGNORECASE:
            rr.bad(lm.compile_fn, lm.compile_fn.node, f"[{label_m}] the rule table is compiled with re.IGNORECASE: identifier spellings that differ only in "
                   "letter case (root `$R`, fake root `$r`) are no longer distinct, and an upper-case spelling also matches the start of the lower-case keywords",
                   construct="rules compiled with IGNORECASE")
        else:
            rr.ok(lm.compile_fn.loc(), f"[{label_m}] the combined pattern is case-sensitive")
    # the table is built from env attributes, one per *_token
    fn = ctx.lexer.compile_fn
    used = {
        n.attr for n in ast.walk(fn.node)
        if isinstance(n, ast.Attribute) and n.attr.endswith("_token") and path_of(n.value) == "self.env"
    }
    # (a helper that is handed `self.env` reads them through its parameter)
    for c in ast.walk(fn.node):
        if not isinstance(c, ast.Call):
            continue
        site = ctx.callgraph.by_node.get(id(c))
        for callee in (site.callees if site is not None else []):
            params = [a.arg for a in callee.node.args.args]
            if callee.cls is not None and params and params[0] in ("self", "cls"):
                params = params[1:]
            for i, a in enumerate(c.args):
                if path_of(a) == "self.env" and i < len(params):
                    used |= {
                        n.attr for n in ast.walk(callee.node)
                        if isinstance(n, ast.Attribute) and n.attr.endswith("_token") and path_of(n.value) == params[i]
                    }
    if used == set(defaults):
        rr.ok(fn.loc(), f"compile_rules reads exactly the environment's token attributes {sorted(used)}")
    else:
        rr.bad(fn, fn.node, f"compile_rules reads {sorted(used)} but the environment defines {sorted(defaults)}",
               construct="env token attributes")
    return rr


LOGIC_MODULES = ("jsonpath.parse", "jsonpath.env", "jsonpath.path", "jsonpath.selectors", "jsonpath.stream")


def r17_3(ctx: Ctx) -> RuleResult:
    rr = RuleResult("R17.3", "no default identifier spelling in parser or evaluator logic", floor=4)
    defaults = set(env_tokens(ctx).values())
    n_cmp = 0
    for fn in ctx.repo.functions.values():
        if fn.module.name not in LOGIC_MODULES or fn.name in ("__str__", "__repr__"):
            continue
        for n in ast.walk(fn.node):
            if not isinstance(n, ast.Compare):
                continue
            operands = [n.left] + list(n.comparators)
            lits = [o.value for o in operands if isinstance(o, ast.Constant) and isinstance(o.value, str)]
            for o in operands:
                if isinstance(o, (ast.Tuple, ast.List, ast.Set)):
                    lits.extend(x.value for x in o.elts if isinstance(x, ast.Constant) and isinstance(x.value, str))
            subject = " ".join(ast.unparse(o) for o in operands if not isinstance(o, ast.Constant))
            about_token = any(w in subject for w in (".value", "op", "token"))
            hit = [x for x in lits if x in defaults]
            if hit and about_token and "operator" not in subject:
                rr.bad(fn, n, f"a token value is compared with the default spelling {hit}: under an environment "
                       "with other tokens this branch is never taken", construct=short(n))
                n_cmp += 1
    # compound evaluation compares with the environment's tokens
    comp = ctx.repo.require_class("CompoundJSONPath")
    for name in ("findall", "finditer", "findall_async", "finditer_async"):
        fn = comp.methods.get(name)
        if fn is None:
            raise AnalysisError(f"CompoundJSONPath.{name} not found")
        tests = [
            n for n in ast.walk(fn.node)
            if isinstance(n, ast.Compare) and path_of(n.left) == "op"
        ]
        good = [
            t for t in tests
            if path_of(t.comparators[0]) in ("self.env.union_token", "self.env.intersection_token")
        ]
        if tests and len(good) == len(tests):
            rr.ok(fn.loc(), f"{fn.qualname}: the operator is compared with self.env.<token>")
        else:
            rr.bad(fn, fn.node, "the compound operator must be compared with the environment's union / "
                   "intersection token", construct=f"{name}: op comparison")
    return rr


def r17_4(ctx: Ctx) -> RuleResult:
    """A sub-query of a filter is printed as its own identifier followed by the text of its path *without that
    path's leading root identifier*.  What is cut off must have the length of the root identifier - the thing
    `JSONPath.__str__` put there - not of the identifier that replaces it: the two spellings may differ in length."""
    rr = RuleResult("R17.4", "filter sub-queries replace exactly the root identifier of their path's text", floor=2)
    for cname in ("SelfPath", "FilterContextPath"):
        cls = ctx.repo.require_class(f"jsonpath.filter.{cname}")
        fn = ctx.repo.find_method(cls, "__str__")
        if fn is None:
            raise AnalysisError(f"{cname}.__str__ not found")
        cuts = []
        for n in ast.walk(fn.node):
            if isinstance(n, ast.Subscript) and isinstance(n.slice, ast.Slice) and n.slice.upper is None and n.slice.lower is not None \
                    and isinstance(n.value, ast.Call) and callee_name(n.value) == "str" and n.value.args and path_of(n.value.args[0]) == "self.path":
                cuts.append(n)
        prefix_calls = [c for c in calls(fn.node, "removeprefix")]
        if not cuts and not prefix_calls:
            raise AnalysisError(f"R17.4: {cname}.__str__ does not cut the root identifier off str(self.path)")
        for n in cuts:
            lo = n.slice.lower  # type: ignore[union-attr]
            what = path_of(lo.args[0]) if isinstance(lo, ast.Call) and callee_name(lo) == "len" and lo.args else None
            if what is not None and what.endswith(".root_token") and ".env" in what:
                rr.ok(fn.loc(n), f"{cname}.__str__: cuts len({what}) characters off str(self.path)")
            else:
                rr.bad(fn, n, f"{cname}.__str__ cuts `{short(lo)}` characters off `str(self.path)`, which begins with the "
                       "environment's root identifier: with identifiers of different lengths the printed sub-query "
                       "loses or keeps characters and does not parse back", construct=f"{cname}: str(self.path)[{short(lo)}:]")
        for c in prefix_calls:
            a0 = path_of(c.args[0]) if c.args else None
            if a0 and a0.endswith(".root_token"):
                rr.ok(fn.loc(c), f"{cname}.__str__: removeprefix({a0})")
            else:
                rr.bad(fn, c, f"{cname}.__str__ removes `{short(c.args[0]) if c.args else ''}`, not the root identifier",
                       construct=short(c))
    return rr


def r17_5(ctx: Ctx) -> RuleResult:
    """The rule table of a lexer is a function of *its* environment's identifier spellings and nothing else: building
    it may not consult or fill a container shared between lexers (a class-level or module-level cache), whose key
    can identify two different assignments of the spellings."""
    rr = RuleResult("R17.5", "the lexer's rule table is built from its own environment only", floor=1)
    fn = ctx.repo.require_func("Lexer.compile_rules")
    cls = fn.cls
    shared = []
    for n in ast.walk(fn.node):
        holder = None
        if isinstance(n, ast.Attribute) and isinstance(n.value, ast.Name) and n.value.id in ("self", "cls") and cls is not None:
            found = ctx.repo.class_attr(cls, n.attr)
            if found is not None:
                holder = found[1]
        elif isinstance(n, ast.Attribute) and isinstance(n.value, ast.Call) and callee_name(n.value) == "type" and cls is not None:
            found = ctx.repo.class_attr(cls, n.attr)
            if found is not None:
                holder = found[1]
        elif isinstance(n, ast.Name) and isinstance(n.ctx, ast.Load) and n.id in fn.module.assigns:
            holder = fn.module.assigns[n.id]
        if holder is not None and (isinstance(holder, (ast.Dict, ast.List, ast.Set)) or (
            isinstance(holder, ast.Call) and callee_name(holder) in ("dict", "list", "set", "defaultdict", "OrderedDict", "WeakValueDictionary"))):
            shared.append(n)
    stores = [n for n in ast.walk(fn.node) if isinstance(n, (ast.Attribute, ast.Subscript)) and isinstance(n.ctx, (ast.Store, ast.Del))]
    for n in shared:
        rr.bad(fn, n, f"compile_rules consults `{short(n)}`, a container shared by every lexer of the class / module: two "
               "environments whose spellings collide under its key then lex with each other's identifier tokens",
               construct=f"shared container {short(n)}")
    for n in stores:
        if not any(n is x or any(y is x for y in ast.walk(n)) for x in shared):
            rr.bad(fn, n, f"compile_rules writes `{short(n)}`: the rule table must be returned, not remembered", construct=short(n))
    if not shared and not stores:
        rr.ok(fn.loc(), "compile_rules reads only its own patterns and self.env's tokens and writes nothing")
    # the same for the constructors on the way: an environment gets a lexer and a parser of its own - none of them
    # may put what it builds into (or take it from) a container shared by all instances
    mutators = {"setdefault", "update", "append", "add", "extend", "insert", "pop", "popitem", "clear", "__setitem__"}
    for qn in ("JSONPathEnvironment.__init__", "Lexer.__init__", "Parser.__init__"):
        f2 = ctx.repo.get_func(qn)
        if f2 is None:
            continue
        c2 = f2.cls

        def holder_of(n: ast.AST, f2=f2, c2=c2) -> Optional[ast.AST]:  # type: ignore[no-untyped-def]
            h = None
            if isinstance(n, ast.Attribute) and isinstance(n.value, ast.Name) and n.value.id in ("self", "cls") and c2 is not None:
                inst_assigned = any(
                    isinstance(a, (ast.Assign, ast.AnnAssign)) and any(
                        isinstance(t, ast.Attribute) and isinstance(t.value, ast.Name) and t.value.id == "self" and t.attr == n.attr
                        for t in (a.targets if isinstance(a, ast.Assign) else [a.target]))
                    for a in ast.walk(f2.node))
                if not inst_assigned:
                    found = ctx.repo.class_attr(c2, n.attr)
                    h = found[1] if found is not None else None
            elif isinstance(n, ast.Attribute) and isinstance(n.value, ast.Call) and callee_name(n.value) == "type" and c2 is not None:
                found = ctx.repo.class_attr(c2, n.attr)
                h = found[1] if found is not None else None
            elif isinstance(n, ast.Attribute) and isinstance(n.value, ast.Name) and c2 is not None and n.value.id == c2.name:
                found = ctx.repo.class_attr(c2, n.attr)
                h = found[1] if found is not None else None
            elif isinstance(n, ast.Name) and isinstance(n.ctx, ast.Load) and n.id in f2.module.assigns:
                h = f2.module.assigns[n.id]
            if h is not None and (isinstance(h, (ast.Dict, ast.List, ast.Set)) or (
                    isinstance(h, ast.Call) and callee_name(h) in ("dict", "list", "set", "defaultdict", "OrderedDict", "WeakValueDictionary"))):
                return h
            return None

        written = []
        for n in ast.walk(f2.node):
            if isinstance(n, ast.Subscript) and isinstance(n.ctx, (ast.Store, ast.Del)) and holder_of(n.value) is not None:
                written.append(n)
            elif isinstance(n, ast.Call) and isinstance(n.func, ast.Attribute) and n.func.attr in mutators and holder_of(n.func.value) is not None:
                written.append(n)
        if written:
            rr.bad(f2, written[0], f"{f2.qualname} stores into `{short(written[0])}`, a container shared by every instance of the class / module: "
                   "an environment can be given the lexer (or parser) that was built for another assignment of the identifier spellings",
                   construct=f"{f2.qualname.split('.')[-2]}.__init__: shared container {short(written[0], 40)}")
        else:
            rr.ok(f2.loc(), f"{f2.qualname} builds its parts afresh and remembers them in the instance only")
    return rr


def r17_6(ctx: Ctx) -> RuleResult:
    """The spelling of an identifier or operator token is compared as a whole.  Wherever the package compares
    something with `<env>.<name>_token`, the comparison is `==` / `!=`: a containment or prefix test
    (`op in env.union_token`, `.startswith(env.root_token)`) gives a different answer as soon as one spelling is
    part of another, which the default spellings never are."""
    rr = RuleResult("R17.6", "token spellings are compared by equality", floor=4)
    n = 0
    for fn in ctx.repo.functions.values():
        if fn.module.name.endswith(".lex"):
            continue  # the lexer builds patterns from the spellings; it does not compare them
        for node in ast.walk(fn.node):
            if isinstance(node, ast.Compare) and len(node.ops) == 1:
                sides = [node.left, node.comparators[0]]
                toks = [x for x in sides if (path_of(x) or "").endswith("_token") and ".env." in "." + (path_of(x) or "") + "."
                        or (path_of(x) or "").startswith("env.") and (path_of(x) or "").endswith("_token")]
                if not toks:
                    continue
                n += 1
                if isinstance(node.ops[0], (ast.Eq, ast.NotEq)):
                    rr.ok(fn.loc(node), f"{fn.qualname}: `{short(node)}`")
                else:
                    rr.bad(fn, node, f"`{short(node)}` tests a token spelling by {type(node.ops[0]).__name__}: with `+` and `++` (or any spelling that "
                           "contains another) the wrong operator or identifier is recognised", construct=f"{fn.name}: {short(node)}")
            elif isinstance(node, ast.Call) and isinstance(node.func, ast.Attribute) and node.func.attr in ("startswith", "endswith", "find", "index", "count") and node.args:
                a0 = path_of(node.args[0]) or ""
                recv = path_of(node.func.value) or ""
                if (a0.endswith("_token") and "env" in a0.split(".")) or (recv.endswith("_token") and "env" in recv.split(".")):
                    n += 1
                    rr.bad(fn, node, f"`{short(node)}` tests a token spelling by `{node.func.attr}`: a spelling that is part of another is "
                           "recognised in its place", construct=f"{fn.name}: {short(node)}")
    if n == 0:
        raise AnalysisError("R17.6: no comparison with an environment token found")
    return rr


def r17_7(ctx: Ctx) -> RuleResult:
    """The string forms of embedded queries under *renamed* identifiers of different lengths (`$$`, `^^^`, `%`, `_ctx`):
    each prints with its own spelling in front of the segments - whatever is cut off the inner query's text is the
    length of the root spelling that is there (= R10.12 with other spellings)."""
    from .c10 import r10_12

    return r10_12(ctx, "R17.7", {"root_token": "$$", "fake_root_token": "^^^", "self_token": "%", "filter_context_token": "_ctx"})


def r17_8(ctx: Ctx) -> RuleResult:
    """Whether a (sub-)query starts with the fake root is read off the *token* the lexer produced - the lexer tries the
    longer spelling first, so `%%` (root) and `%` (fake root) are told apart - never off the query text (= R13.6)."""
    from .c13 import r13_6

    return r13_6(ctx, "R17.8")


RULES = [r17_1, r17_2, r17_3, r17_4, r17_5, r17_6, r17_7, r17_8]
