"""C18 - the command-line tool is a faithful front end to the library.

R18.1 every option a handler reads exists under that name for its sub-command
R18.2 every declared option is used, with the right polarity
R18.3 every error family the library call can raise is caught and reported on
      stderr with exit status 1 (traceback only under --debug)
R18.4 what is written is json.dump of what the library call returned
"""

from __future__ import annotations

import ast
from typing import Dict
from typing import List
from typing import Optional
from typing import Set
from typing import Tuple

from sa.kinds import path_of
from sa.loader import AnalysisError
from sa.loader import FuncInfo
from sa.loader import short
from sa.report import RuleResult

from . import Ctx
from .common import callee_name
from .common import calls
from .common import kw
from .common import path_conditions

FAMILIES = ("JSONPathError", "JSONPointerError", "RelativeJSONPointerError", "JSONPatchError", "json.JSONDecodeError",
            "UnicodeDecodeError")


def _dest(call: ast.Call) -> Optional[str]:
    d = kw(call, "dest")
    if isinstance(d, ast.Constant):
        return str(d.value)
    action = kw(call, "action")
    if isinstance(action, ast.Constant) and action.value in ("version", "help"):
        return None
    flags = [a.value for a in call.args if isinstance(a, ast.Constant) and isinstance(a.value, str)]
    if not flags:
        return None
    longs = [f for f in flags if f.startswith("--")]
    if longs:
        return longs[0][2:].replace("-", "_")
    shorts = [f for f in flags if f.startswith("-")]
    if shorts:
        return shorts[0].lstrip("-").replace("-", "_")
    return flags[0].replace("-", "_")


def cli_model(ctx: Ctx):  # type: ignore[no-untyped-def]
    mod = ctx.repo.modules.get("jsonpath.cli")
    if mod is None:
        raise AnalysisError("jsonpath/cli.py not found")
    setup = mod.functions.get("setup_parser")
    if setup is None:
        raise AnalysisError("cli.setup_parser not found")
    global_dests: Set[str] = set()
    for c in calls(setup.node, "add_argument"):
        if path_of(c.func.value) == "parser":  # type: ignore[union-attr]
            d = _dest(c)
            if d:
                global_dests.add(d)
    for c in calls(setup.node, "add_subparsers"):
        d = kw(c, "dest")
        if isinstance(d, ast.Constant):
            global_dests.add(str(d.value))
    subs: Dict[str, Dict[str, object]] = {}
    for fn in mod.functions.values():
        handler = None
        for c in calls(fn.node, "set_defaults"):
            h = kw(c, "func")
            if isinstance(h, ast.Name) and h.id in mod.functions:
                handler = mod.functions[h.id]
        if handler is None:
            continue
        dests: Dict[str, ast.Call] = {}
        for c in calls(fn.node, "add_argument"):
            d = _dest(c)
            if d:
                dests[d] = c
        subs[fn.name] = {"fn": fn, "handler": handler, "dests": dests}
    # options a sub-parser inherits: `add_parser(..., parents=[common])` copies every option declared on `common`
    other_parsers: Dict[str, Dict[str, ast.Call]] = {}
    for c in calls(setup.node, "add_argument"):
        owner = path_of(c.func.value)  # type: ignore[union-attr]
        if owner and owner != "parser":
            d = _dest(c)
            if d:
                other_parsers.setdefault(owner, {})[d] = c
    for c in calls(setup.node):
        if callee_name(c) in subs and c.args and isinstance(c.args[0], ast.Call) and callee_name(c.args[0]) == "add_parser":
            parents = kw(c.args[0], "parents")
            if parents is None:
                continue
            if not isinstance(parents, (ast.List, ast.Tuple)) or not all(isinstance(x, ast.Name) for x in parents.elts):
                raise AnalysisError(f"cli.setup_parser: the parents of the `{callee_name(c)}` sub-parser are not a list of local parsers")
            for x in parents.elts:
                for d, decl in other_parsers.get(x.id, {}).items():  # type: ignore[attr-defined]
                    subs[callee_name(c)]["dests"].setdefault(d, decl)  # type: ignore[index,union-attr,arg-type]
    if len(subs) < 3:
        raise AnalysisError(f"expected three sub-commands, found {sorted(subs)}")
    return mod, global_dests, subs


def _arg_reads(handler: FuncInfo) -> List[ast.Attribute]:
    p = handler.node.args.args[0].arg
    return [n for n in ast.walk(handler.node) if isinstance(n, ast.Attribute) and path_of(n.value) == p]


def r18_1(ctx: Ctx) -> RuleResult:
    rr = RuleResult("R18.1", "handlers read only options that exist for their sub-command", floor=20)
    mod, gd, subs = cli_model(ctx)
    for name, s in sorted(subs.items()):
        handler: FuncInfo = s["handler"]  # type: ignore[assignment]
        dests: Dict[str, ast.Call] = s["dests"]  # type: ignore[assignment]
        for r in _arg_reads(handler):
            if r.attr in dests or r.attr in gd or r.attr == "func":
                rr.ok(handler.loc(r), f"{handler.name}: args.{r.attr} is an option of `{name}`")
            else:
                rr.bad(handler, r, f"`args.{r.attr}` is read but no option of this sub-command (or global option) "
                       f"stores under that name; declared: {sorted(dests)} + {sorted(gd)} - the command fails with "
                       "AttributeError when this line runs", construct=f"args.{r.attr}")
    return rr


def r18_2(ctx: Ctx) -> RuleResult:
    rr = RuleResult("R18.2", "every declared option is used, with the right polarity", floor=14)
    mod, gd, subs = cli_model(ctx)
    from sa.flow import parent_map

    # an option of the main parser is not declared again by a sub-command: argparse copies the sub-parser's
    # default over the value that was parsed before the sub-command name (`json --pretty path ...` would print
    # compact JSON)
    for name, s in sorted(subs.items()):
        dup = sorted(set(s["dests"]) & set(gd))  # type: ignore[arg-type,call-overload]
        fn0: FuncInfo = s["fn"]  # type: ignore[assignment]
        if dup:
            rr.bad(fn0, s["dests"][dup[0]], f"the sub-command `{name}` declares the option `{dup[0]}` again, which the main parser already "  # type: ignore[index]
                   "has: the sub-parser's default then replaces the value given before the sub-command name, so the global option is ignored",
                   construct=f"{name}: option {dup[0]} shadows the global option")
        else:
            rr.ok(fn0.loc(), f"{name}: no option of the main parser is declared again")

    # a switch means what its name says: giving it stores True (`--no-unicode-escape` sets no_unicode_escape)
    setup = mod.functions["setup_parser"]
    decls = [c for f2 in [setup] + [s2["fn"] for s2 in subs.values()] for c in calls(f2.node, "add_argument")]  # type: ignore[union-attr]
    for c in decls:
        act = kw(c, "action")
        if isinstance(act, ast.Constant) and act.value in ("store_true", "store_false"):
            d = _dest(c)
            if act.value == "store_true":
                rr.ok(mod.relpath, f"switch `{d}`: store_true")
            else:
                rr.bad(setup, c, f"the switch `{d}` is declared with action=\"store_false\": giving the option stores False, so every handler that "
                       f"reads `args.{d}` gets the opposite of what the option name says", construct=f"switch {d}: store_false")
    for name, s in sorted(subs.items()):
        handler: FuncInfo = s["handler"]  # type: ignore[assignment]
        dests: Dict[str, ast.Call] = s["dests"]  # type: ignore[assignment]
        reads = {r.attr for r in _arg_reads(handler)}
        parents = parent_map(handler.node)
        for d in sorted(dests):
            if d in reads:
                rr.ok(handler.loc(), f"{handler.name}: option `{d}` is used")
            else:
                rr.bad(handler, handler.node, f"the option `{d}` of `{name}` is declared but never read by its handler",
                       construct=f"{name}: unused option {d}")
        for r in _arg_reads(handler):
            par = parents.get(id(r))
            if r.attr.startswith("no_"):
                # must reach a positively named keyword only under `not`
                gp = parents.get(id(par)) if par is not None else None
                negated = isinstance(par, ast.UnaryOp) and isinstance(par.op, ast.Not)
                kwnode = gp if negated else par
                if isinstance(kwnode, ast.keyword):
                    positive = not (kwnode.arg or "").startswith("no_")
                    want = r.attr[len("no_"):]
                    if positive and not negated:
                        rr.bad(handler, r, f"`args.{r.attr}` is passed as `{kwnode.arg}` without negation: the "
                               "option would enable what it is documented to disable", construct=f"{kwnode.arg}=args.{r.attr}")
                    elif positive and negated and (kwnode.arg not in (want, {"type_checks": "well_typed"}.get(want))):
                        rr.bad(handler, r, f"`not args.{r.attr}` is passed as `{kwnode.arg}`, expected `{want}`",
                               construct=f"{kwnode.arg}=not args.{r.attr}")
                    else:
                        rr.ok(handler.loc(r), f"{handler.name}: {kwnode.arg}=not args.{r.attr}")
            elif isinstance(par, ast.keyword) and par.arg is not None:
                if par.arg.replace("_", "") != r.attr.replace("_", "") and r.attr not in ("file", "patch"):
                    rr.bad(handler, r, f"`args.{r.attr}` is passed as `{par.arg}`", construct=f"{par.arg}=args.{r.attr}")
                else:
                    rr.ok(handler.loc(r), f"{handler.name}: {par.arg}=args.{r.attr}")
        # a global option that any handler uses must be used by every handler (sibling agreement)
        used_global = set()
        for s2 in subs.values():
            used_global |= {r.attr for r in _arg_reads(s2["handler"]) if r.attr in gd}  # type: ignore[arg-type]
        for g in sorted(used_global - reads):
            rr.bad(handler, handler.node, f"the global option `{g}` is honoured by other sub-commands but ignored by "
                   f"`{name}`", construct=f"{name}: global option {g} ignored")
        for g in sorted(used_global & reads):
            rr.ok(handler.loc(), f"{handler.name}: global option `{g}` is used")
        # pretty selects indent; output is the dump target
        dumps = [c for c in calls(handler.node, "dump")]
        if not dumps:
            rr.bad(handler, handler.node, "the handler writes no JSON output", construct="json.dump")
            continue
        for c in dumps:
            tgt = c.args[1] if len(c.args) > 1 else kw(c, "fp")
            ind = kw(c, "indent")
            ok_t = tgt is not None and path_of(tgt) == f"{handler.node.args.args[0].arg}.output"
            # every definition of the indent value: non-None exactly under `args.pretty`
            argsn = handler.node.args.args[0].arg
            defs: List[Tuple[ast.expr, List[Tuple[ast.expr, bool]]]] = []
            if isinstance(ind, ast.Name):
                for a in ast.walk(handler.node):
                    if isinstance(a, ast.Assign) and path_of(a.targets[0]) == ind.id:
                        defs.append((a.value, path_conditions(handler.node, a)))
            elif ind is not None:
                defs.append((ind, []))
            flat: List[Tuple[ast.expr, List[Tuple[ast.expr, bool]]]] = []
            for v, conds in defs:
                if isinstance(v, ast.IfExp):
                    flat.append((v.body, conds + [(v.test, True)]))
                    flat.append((v.orelse, conds + [(v.test, False)]))
                else:
                    flat.append((v, conds))
            polar: Set[bool] = set()
            ok_i = bool(flat)
            for v, conds in flat:
                pol = [b for t, b in conds if path_of(t) == f"{argsn}.pretty"]
                is_none = isinstance(v, ast.Constant) and v.value is None
                if len(set(pol)) != 1 or is_none == pol[0]:
                    ok_i = False
                else:
                    polar.add(pol[0])
            ok_i = ok_i and polar == {True, False}
            if ok_t and ok_i:
                rr.ok(handler.loc(c), f"{handler.name}: json.dump(..., args.output, indent=INDENT if args.pretty else None)")
            else:
                rr.bad(handler, c, "the result must be dumped to args.output, indented exactly when --pretty is given",
                       construct=short(c))
    return rr


def r18_3(ctx: Ctx) -> RuleResult:
    rr = RuleResult("R18.3", "library errors are caught, reported on stderr, exit status 1", floor=9)
    mod, gd, subs = cli_model(ctx)
    esc = ctx.escapes
    for name, s in sorted(subs.items()):
        handler: FuncInfo = s["handler"]  # type: ignore[assignment]
        argsp = handler.node.args.args[0].arg
        tries = [n for n in ast.walk(handler.node) if isinstance(n, ast.Try)]
        if not tries:
            raise AnalysisError(f"R18.3: {handler.name} has no try statement")
        # library calls outside any `try`: nothing of the library's error families may come out of them
        for st in handler.node.body:
            if isinstance(st, ast.Try) or (isinstance(st, ast.Expr) and isinstance(st.value, ast.Constant)):
                continue
            for c in sorted(esc.block_escapes(handler, [st])):
                if any(ctx.repo.is_subclass(c, f) for f in FAMILIES) or c in FAMILIES:
                    rr.bad(handler, st, f"`{short(st, 60)}` is outside every `try` and can raise {c.split('.')[-1]}: the command ends "
                           "with a traceback instead of a one-line message and exit status 1",
                           construct=f"unprotected {c.split('.')[-1]} in {handler.name}")
        for t in tries:
            may = esc.block_escapes(handler, t.body)
            caught: List[str] = []
            for h in t.handlers:
                caught.extend(esc._handler_types(handler, h))
            for c in sorted(may):
                in_family = any(ctx.repo.is_subclass(c, f) for f in FAMILIES) or c in FAMILIES
                if not in_family:
                    continue
                if any(esc.catches(h, c) for h in caught):
                    rr.ok(handler.loc(t), f"{handler.name}: {c.split('.')[-1]} is caught")
                else:
                    rr.bad(handler, t, f"the library call in this `try` can raise {c.split('.')[-1]}, which no "
                           "`except` clause catches: the command ends with a traceback instead of a one-line "
                           "message and exit status 1", construct=f"uncaught {c.split('.')[-1]} in {handler.name}")
            for h in t.handlers:
                body = h.body
                shape_ok = (
                    len(body) >= 3
                    and isinstance(body[0], ast.If) and path_of(body[0].test) == f"{argsp}.debug"
                    and len(body[0].body) == 1 and isinstance(body[0].body[0], ast.Raise) and body[0].body[0].exc is None
                    and any(isinstance(x, ast.Expr) and isinstance(x.value, ast.Call) and path_of(x.value.func) == "sys.stderr.write" for x in body)
                    and isinstance(body[-1], ast.Expr) and isinstance(body[-1].value, ast.Call)
                    and path_of(body[-1].value.func) == "sys.exit"
                    and [getattr(a, "value", None) for a in body[-1].value.args] == [1]
                )
                if shape_ok:
                    rr.ok(handler.loc(h), f"{handler.name}: except {short(h.type) if h.type else ''}: re-raise under --debug, "
                          "stderr message, exit 1")
                else:
                    rr.bad(handler, h, "an error handler must re-raise only under --debug, write one message to "
                           "standard error and exit with status 1", construct=f"except {short(h.type) if h.type else ''} shape")
    return rr


def r18_4(ctx: Ctx) -> RuleResult:
    rr = RuleResult("R18.4", "the output is json.dump of the library call's result", floor=3)
    mod, gd, subs = cli_model(ctx)
    lib = {"handle_path_command": "findall", "handle_pointer_command": "resolve", "handle_patch_command": "apply"}
    for name, s in sorted(subs.items()):
        handler: FuncInfo = s["handler"]  # type: ignore[assignment]
        dumps = [c for c in calls(handler.node, "dump")]
        if len(dumps) != 1 or not dumps[0].args:
            rr.bad(handler, handler.node, "exactly one json.dump of the result expected", construct="one json.dump")
            continue
        var = path_of(dumps[0].args[0])
        srcs = [
            a.value for a in ast.walk(handler.node)
            if isinstance(a, ast.Assign) and path_of(a.targets[0]) == var
        ]
        want = lib.get(handler.name)
        ok = bool(srcs) and all(isinstance(v, ast.Call) and (want is None or callee_name(v) == want) for v in srcs)
        if ok:
            rr.ok(handler.loc(dumps[0]), f"{handler.name}: json.dump({var}) where {var} = {short(srcs[0], 60)}")
        else:
            rr.bad(handler, dumps[0], "the dumped value must be the value returned by the library call",
                   construct=short(dumps[0]))
    return rr


def r18_5(ctx: Ctx) -> RuleResult:
    """What the user writes after -q / -p reaches the library unchanged: on the path where the inline option was
    given, the expression handed to compile() / resolve() is `args.<option>` itself (white space in a pointer
    token is part of a member name)."""
    from sa.peval import simplify_test

    from .common import expand_locals

    rr = RuleResult("R18.5", "inline query / pointer text is passed to the library unchanged", floor=2)
    mod, gd, subs = cli_model(ctx)
    want = {"handle_path_command": ("compile", "query"), "handle_pointer_command": ("resolve", "pointer")}
    for name, s_ in sorted(subs.items()):
        handler: FuncInfo = s_["handler"]  # type: ignore[assignment]
        if handler.name not in want:
            continue
        callee, opt = want[handler.name]
        argsn = handler.node.args.args[0].arg
        lib = [c for c in calls(handler.node, callee) if c.args]
        if not lib:
            raise AnalysisError(f"R18.5: {handler.name} does not call {callee}(...)")
        given = f"{argsn}.{opt}"

        def atom(t: ast.expr) -> Optional[bool]:
            if isinstance(t, ast.Compare) and len(t.ops) == 1 and path_of(t.left) == given and isinstance(t.comparators[0], ast.Constant) \
                    and t.comparators[0].value is None:
                return isinstance(t.ops[0], ast.IsNot)  # the option was given
            return None

        def assume(e: ast.AST) -> ast.AST:
            class _A(ast.NodeTransformer):
                def visit_IfExp(self, node: ast.IfExp) -> ast.AST:
                    self.generic_visit(node)
                    d, _r = simplify_test(node.test, atom)
                    if d is True:
                        return node.body
                    if d is False:
                        return node.orelse
                    return node
            return _A().visit(e)

        for c in lib:
            e = assume(expand_locals(handler.node, c.args[0]))
            if path_of(e) == given:
                rr.ok(handler.loc(c), f"{handler.name}: {callee}({given}) when the option is given")
            else:
                rr.bad(handler, c, f"with the option given on the command line, `{callee}` receives `{short(e, 70)}` instead of "
                       f"`{given}` itself: the tool then answers for a different {opt} than the library would",
                       construct=f"{callee}({short(e, 70)})")
    return rr


def r18_6(ctx: Ctx) -> RuleResult:
    """An expression given in a file is the text of the file: a handler that takes it from an option of type file reads
    the whole file (`.read()`), it does not take its first line or iterate over it."""
    rr = RuleResult("R18.6", "an expression file is read as a whole", floor=2)
    mod, gd, subs = cli_model(ctx)
    n = 0
    for name, s_ in sorted(subs.items()):
        handler: FuncInfo = s_["handler"]  # type: ignore[assignment]
        dests: Dict[str, ast.Call] = s_["dests"]  # type: ignore[assignment]
        argsp = handler.node.args.args[0].arg
        files = {d for d, c in dests.items() if isinstance(kw(c, "type"), ast.Call) and callee_name(kw(c, "type")) == "FileType"}  # type: ignore[arg-type]
        for c in calls(handler.node):
            if not (isinstance(c.func, ast.Attribute) and isinstance(c.func.value, ast.Attribute) and path_of(c.func.value.value) == argsp):
                continue
            opt = c.func.value.attr
            if opt not in files or opt in ("file", "output"):
                continue  # the target document and the output are handed to json / the library as they are
            n += 1
            if c.func.attr == "read" and not c.args:
                rr.ok(handler.loc(c), f"{handler.name}: args.{opt}.read()")
            else:
                rr.bad(handler, c, f"`{short(c)}` takes only part of the file given with the option `{opt}`: an expression that is preceded by a blank "
                       "line or written over several lines is cut (an empty query then selects the whole document, exit status 0)",
                       construct=f"{handler.name}: args.{opt}.{c.func.attr}()")
        # next(args.x) / iteration over the file object
        for c in calls(handler.node, "next"):
            if c.args and isinstance(c.args[0], ast.Attribute) and path_of(c.args[0].value) == argsp and c.args[0].attr in files:
                n += 1
                rr.bad(handler, c, f"`{short(c)}` takes the first line of the file only", construct=f"{handler.name}: next(args.{c.args[0].attr})")
    if n == 0:
        raise AnalysisError("R18.6: no handler reads an expression from a file option")
    return rr


def r18_7(ctx: Ctx) -> RuleResult:
    """A file option is opened the way its content is used.  What the command itself reads as text and hands on as a
    query or pointer (`args.X.read()`) is opened in text mode - a bytes object is no query; what is handed to the
    library (or to the JSON decoder) as a document or patch is opened in binary mode, because that is how the library
    decodes a file: UTF-8 with or without a byte order mark, UTF-16, UTF-32 (a text-mode file pins one encoding and
    the same file is then accepted by the library call and refused by the command); what the result is written to is
    opened for writing text."""
    from sa.flow import parent_map

    rr = RuleResult("R18.7", "file options are opened in the mode their use needs", floor=9)
    mod, gd, subs = cli_model(ctx)
    n = 0
    for name, s in sorted(subs.items()):
        handler: FuncInfo = s["handler"]  # type: ignore[assignment]
        dests: Dict[str, ast.Call] = s["dests"]  # type: ignore[assignment]
        parents = parent_map(handler.node)
        for d, decl in sorted(dests.items()):
            t = kw(decl, "type")
            if not (isinstance(t, ast.Call) and callee_name(t) == "FileType"):
                continue
            m = kw(t, "mode") or (t.args[0] if t.args else None)
            mode = m.value if isinstance(m, ast.Constant) and isinstance(m.value, str) else ("r" if m is None else None)
            if mode is None:
                raise AnalysisError(f"R18.7: the mode of the file option `{d}` of `{name}` is not a constant")
            uses = [r for r in _arg_reads(handler) if r.attr == d]
            roles: Set[str] = set()
            for u in uses:
                par = parents.get(id(u))
                if isinstance(par, ast.Attribute) and par.attr == "read":
                    g = parents.get(id(par))
                    gg = parents.get(id(g)) if g is not None else None
                    # json.loads(args.X.read()) is the decoder's business, anything else is text the command uses itself
                    roles.add("decoded" if isinstance(gg, ast.Call) and callee_name(gg) in ("loads", "load") else "text")
                elif isinstance(par, ast.Call) and callee_name(par) in ("dump", "dumps") and par.args and par.args[0] is not u:
                    roles.add("output")
                elif isinstance(par, ast.Attribute) and par.attr in ("write", "writelines"):
                    roles.add("output")
                elif isinstance(par, (ast.Call, ast.keyword)):
                    roles.add("decoded")
            if not roles:
                continue
            n += 1
            problems = []
            if "text" in roles and ("b" in mode or "r" not in mode):
                problems.append(f"its content is read and used as text by the command, but it is opened with mode {mode!r}: the query or pointer arrives as bytes "
                                "(an uncaught TypeError, a traceback instead of a result)")
            if "decoded" in roles and "b" not in mode:
                problems.append(f"it is handed to the library / the JSON decoder as a document, but opened in text mode {mode!r}: a file in another encoding the "
                                "library accepts (UTF-8 with a byte order mark, UTF-16, UTF-32) is refused by the command")
            if "output" in roles and ("w" not in mode or "b" in mode):
                problems.append(f"the result is written to it as JSON text, but it is opened with mode {mode!r}")
            if problems:
                rr.bad(s["fn"], decl, f"`{name}`: file option `{d}`: " + "; ".join(problems), construct=f"{name}: --{d.replace('_', '-')} opened {mode!r}, used as {sorted(roles)}")  # type: ignore[arg-type]
            else:
                rr.ok(s["fn"].loc(decl), f"{name}: `{d}` opened {mode!r}, used as {sorted(roles)}")  # type: ignore[union-attr]
    if n == 0:
        raise AnalysisError("R18.7: no file option is used by a handler")
    return rr


def r18_8(ctx: Ctx) -> RuleResult:
    """Without `-f` the sub-commands read the target document from standard input, a text stream, and hand the stream
    to the library; a document that is not JSON must come back as a decoding error, which the handlers turn into the
    one-line message and exit status 1 (R18.3).  `load_data` is executed abstractly (exceptions as they run) on a
    model text stream that yields text no JSON decoder accepts - truncated literals, two values, a single-quoted
    string, an open string, nothing - and must raise the decoder's error for each; it must not hand the text back as if
    it were a string document (that fallback is for a `str` argument, which the command line never passes)."""
    from sa.peval import UNKNOWN

    from .c11 import file_model_class
    from .model import RAISES
    from .model import Model

    texts = ["nul", "tru", "1 2", "'single'", '"open', "", "   ", "nope nope", "01", "+1"]
    rr = RuleResult("R18.8", "a document on standard input that is not JSON is a decoding error", floor=len(texts))
    fn = ctx.repo.require_func("jsonpath._data.load_data")
    file_cls = file_model_class()
    for text in texts:
        model = Model(ctx, "R18.8")
        model.whole_bodies = model.exact_exceptions = True
        got = model.call_function(fn, [file_cls(model, text)])
        if got is UNKNOWN:
            raise AnalysisError(f"R18.8: what load_data does with a text stream that yields {text!r} cannot be determined")
        if got is RAISES:
            c = str(model.last_raised or "")
            if "JSONDecodeError" in c or "UnicodeDecodeError" in c:
                rr.ok(fn.loc(), f"a stream yielding {text!r}: {c.split('.')[-1]}")
            else:
                rr.bad(fn, fn.node, f"a text stream that yields {text!r} makes load_data raise {c or 'an unknown exception'}, which the command line does not report as a "
                       "decoding error", construct=f"load_data(stream {text!r}) raises {c.split('.')[-1]}")
        else:
            rr.bad(fn, fn.node, f"a text stream that yields {text!r}, which is not JSON, is loaded as the value {got!r}: `json path -q '$'` prints it and exits 0 "
                   "instead of reporting a decoding error (the same bytes given with -f FILE are refused)", construct=f"load_data(stream {text!r}) -> {got!r}")
    return rr


RULES = [r18_1, r18_2, r18_3, r18_4, r18_5, r18_6, r18_7, r18_8]
