"""C01 - RFC 9535 segments and selectors yield exactly the specified nodelist.

Decided clauses (see DESIGN.md section 5, C01): wrong-kind values select nothing
(R1.1), list concatenation per input node (R1.2), descendant pre-order (R1.3),
document member order (R1.4), zero step selects nothing (R1.5), quoted-string
token shape (R1.6).
"""

from __future__ import annotations

import ast
from typing import Dict
from typing import FrozenSet
from typing import List

from sa import regexast
from sa.consteval import Instance
from sa.consteval import NotConst
from sa.kinds import ARRAY
from sa.kinds import JSON_KINDS
from sa.kinds import OBJECT
from sa.kinds import path_of
from sa.loader import AnalysisError
from sa.loader import short
from sa.report import RuleResult

from . import Ctx
from .common import callee_name
from .common import calls
from .common import class_of
from .common import kw
from .common import match_sites
from .common import must_flow
from .common import selector_classes
from .common import selector_kind_flow
from .common import subject_of_site

ALLOWED: Dict[str, FrozenSet[str]] = {
    "PropertySelector": frozenset({OBJECT}),
    # documented departure: an index applied to an object selects the member
    # whose name is the decimal spelling of the index
    "IndexSelector": frozenset({OBJECT, ARRAY}),
    "KeysSelector": frozenset({OBJECT}),
    "SliceSelector": frozenset({ARRAY}),
    "WildSelector": frozenset({OBJECT, ARRAY}),
    "RecursiveDescentSelector": frozenset({OBJECT, ARRAY}),
    "Filter": frozenset({OBJECT, ARRAY}),
}
DEFAULT_ALLOWED = frozenset({OBJECT, ARRAY})


def site_kinds(ctx: Ctx):  # type: ignore[no-untyped-def]
    """[(fn, call, subject path, kinds projected on JSON, murky)] for all sites."""

    def make():  # type: ignore[no-untyped-def]
        out = []
        flows = {}
        for fn, call in match_sites(ctx.repo):
            if fn.qualname not in flows:
                flows[fn.qualname] = selector_kind_flow(fn)
            flow, dom = flows[fn.qualname]
            subj = subject_of_site(call)
            st = flow.at.get(id(call))
            if subj is None or st is None:
                out.append((fn, call, subj, None, False))
                continue
            ks = dom.lookup(st, subj) & JSON_KINDS
            out.append((fn, call, subj, ks, subj in st.murky))
        return out

    return ctx.cached("site_kinds", make)


def r1_1(ctx: Ctx) -> RuleResult:
    rr = RuleResult("R1.1", "kind guard at match construction", floor=19)
    for fn, call, subj, ks, murky in site_kinds(ctx):
        if ks is None:
            raise AnalysisError(
                f"R1.1: cannot determine the subject of the match built at {fn.loc(call)}"
            )
        allowed = ALLOWED.get(class_of(fn), DEFAULT_ALLOWED)
        if ks <= allowed:
            rr.ok(fn.loc(call), f"{fn.qualname}: {subj} in {sorted(ks)}", kinds=sorted(ks))
            continue
        if murky:
            raise AnalysisError(
                f"R1.1: guard on {subj} at {fn.loc(call)} uses a condition the kind "
                "analysis does not understand"
            )
        extra = sorted(ks - allowed)
        rr.bad(
            fn,
            call,
            f"a match is constructed although {subj} may be of kind {extra}: "
            f"{class_of(fn)} must select nothing from such a value "
            f"(reachable kinds {sorted(ks)}, allowed {sorted(allowed)})",
            construct=f"match_class(parent={short(kw(call, 'parent'))}) with {subj} in {sorted(ks)}",
        )
    return rr


def _first_param(fn_node: ast.AST) -> str:
    args = fn_node.args.args  # type: ignore[attr-defined]
    if len(args) < 2:
        raise AnalysisError("expected a (self, matches) signature")
    return args[1].arg


def _async_list_names():  # type: ignore[no-untyped-def]
    from sa import twins

    return twins.ALIST_NAMES | {"_alist"}


def r1_2(ctx: Ctx) -> RuleResult:
    rr = RuleResult("R1.2", "bracketed list concatenates per input node", floor=2)
    cls = ctx.repo.require_class("ListSelector")
    for name in ("resolve", "resolve_async"):
        fn = cls.methods.get(name)
        if fn is None:
            raise AnalysisError(f"ListSelector.{name} not found")
        param = _first_param(fn.node)
        outer = [
            n for n in fn.node.body
            if isinstance(n, (ast.For, ast.AsyncFor))
            and isinstance(n.iter, ast.Name) and n.iter.id == param
        ]
        if len(outer) != 1 or not isinstance(outer[0].target, ast.Name):
            rr.bad(fn, fn.node, "the outer loop is not over the incoming nodes",
                   construct="outer loop over matches")
            continue
        node_var = outer[0].target.id
        inner = [
            n for n in outer[0].body
            if isinstance(n, (ast.For, ast.AsyncFor))
            and path_of(n.iter) == "self.items"
        ]
        if len(inner) != 1 or not isinstance(inner[0].target, ast.Name):
            rr.bad(fn, outer[0],
                   "the loop over the list's selectors is not nested inside the loop "
                   "over the input nodes (results must be concatenated per input node)",
                   construct="for <node> in matches: for <item> in self.items")
            continue
        item_var = inner[0].target.id
        ok = False
        for c in calls(inner[0]):
            if (
                isinstance(c.func, ast.Attribute)
                and isinstance(c.func.value, ast.Name)
                and c.func.value.id == item_var
                and c.func.attr in ("resolve", "resolve_async")
                and len(c.args) == 1
            ):
                arg = c.args[0]
                if isinstance(arg, ast.Call) and callee_name(arg) in _async_list_names() and arg.args:
                    arg = arg.args[0]
                if (
                    isinstance(arg, (ast.List, ast.Tuple))
                    and len(arg.elts) == 1
                    and isinstance(arg.elts[0], ast.Name)
                    and arg.elts[0].id == node_var
                ):
                    ok = True
                else:
                    rr.bad(fn, c, "each selector of the list must be applied to the "
                           "single current node", construct=short(c))
                    ok = None  # type: ignore[assignment]
        if ok is True:
            rr.ok(fn.loc(outer[0]), f"{fn.qualname}: nodes outer, items inner, item applied to [node]")
        elif ok is False:
            rr.bad(fn, inner[0], "no application of the item selector to the current node found",
                   construct="item.resolve([node])")
    return rr


def _blocks(node: ast.AST):  # type: ignore[no-untyped-def]
    for n in ast.walk(node):
        for field in ("body", "orelse", "finalbody"):
            b = getattr(n, field, None)
            if isinstance(b, list) and b and isinstance(b[0], ast.stmt):
                yield b


def _yielded_name(s: ast.stmt):  # type: ignore[no-untyped-def]
    if isinstance(s, ast.Expr) and isinstance(s.value, ast.Yield) and isinstance(s.value.value, ast.Name):
        return s.value.value.id
    return None


def r1_3(ctx: Ctx) -> RuleResult:
    rr = RuleResult("R1.3", "descendant segment visits parents before children (pre-order)", floor=4)
    cls = ctx.repo.require_class("RecursiveDescentSelector")
    for fn in cls.methods.values():
        for block in _blocks(fn.node):
            for i, s in enumerate(block):
                # the statement that *is* the expansion: `yield from self._expand(X)`
                # or `for m in self._expand(X): yield m` (not an enclosing compound)
                if isinstance(s, ast.Expr):
                    scope_node: ast.AST = s
                elif isinstance(s, (ast.For, ast.AsyncFor)):
                    scope_node = s.iter
                elif isinstance(s, (ast.Assign, ast.Return)):
                    scope_node = s
                else:
                    continue
                expansions = [
                    c for c in calls(scope_node, "_expand")
                    if c.args and isinstance(c.args[0], ast.Name)
                ]
                for c in expansions:
                    var = c.args[0].id  # type: ignore[union-attr]
                    earlier = [_yielded_name(b) for b in block[:i]]
                    if var in earlier:
                        rr.ok(fn.loc(s), f"{fn.qualname}: `yield {var}` precedes expansion of {var}")
                    else:
                        rr.bad(fn, s,
                               f"the children of `{var}` are produced without `{var}` having "
                               "been yielded before them in the same block (descendant "
                               "order must be parents before children)",
                               construct=f"expand({var}) not preceded by yield {var}")
    return rr


_ORDER_BREAKERS = {"sorted", "reversed", "set", "frozenset", "shuffle", "sample"}


def r1_4(ctx: Ctx) -> RuleResult:
    rr = RuleResult("R1.4", "children enumerated in document order", floor=14)
    for cls in selector_classes(ctx.repo):
        for fn in cls.methods.values():
            for n in ast.walk(fn.node):
                iters: List[ast.expr] = []
                if isinstance(n, (ast.For, ast.AsyncFor)):
                    iters.append(n.iter)
                elif isinstance(n, ast.comprehension):
                    iters.append(n.iter)
                for it in iters:
                    mentions_obj = any(
                        isinstance(x, ast.Attribute) and x.attr == "obj" for x in ast.walk(it)
                    ) or any(isinstance(x, ast.Name) and x.id in ("matches",) for x in ast.walk(it))
                    if not mentions_obj:
                        continue
                    bad = [
                        c for c in calls(it) if callee_name(c) in _ORDER_BREAKERS
                    ]
                    rev = [
                        s for s in ast.walk(it)
                        if isinstance(s, ast.Slice) and s.step is not None
                        and not (isinstance(s.step, ast.Constant) and s.step.value == 1)
                    ]
                    if bad or rev:
                        rr.bad(fn, it,
                               "the iterable that drives child enumeration is re-ordered "
                               "or de-duplicated; members must be visited in the "
                               "document's own order",
                               construct=short(it))
                    else:
                        rr.ok(fn.loc(it), f"{fn.qualname}: iterates {short(it, 60)} in order")
    return rr


def _step_events(test: ast.expr, branch: bool):  # type: ignore[no-untyped-def]
    if isinstance(test, ast.Compare) and len(test.ops) == 1:
        p = path_of(test.left)
        c = test.comparators[0]
        if p and p.endswith(".step") and isinstance(c, ast.Constant) and c.value == 0:
            if isinstance(test.ops[0], ast.Eq) and not branch:
                return ["step_nonzero@" + p]
            if isinstance(test.ops[0], ast.NotEq) and branch:
                return ["step_nonzero@" + p]
    p = path_of(test)
    if p and p.endswith(".step") and branch:
        return ["step_nonzero@" + p]
    return []


def r1_5(ctx: Ctx) -> RuleResult:
    rr = RuleResult("R1.5", "a zero step selects nothing and never reaches slice.indices", floor=2)
    cls = ctx.repo.require_class("SliceSelector")
    for fn in cls.methods.values():
        sites = [c for c in calls(fn.node, "indices")]
        if not sites:
            continue
        flow = must_flow(fn.node, refine_events=_step_events)
        for c in sites:
            st = flow.at.get(id(c))
            if st is None:
                rr.note(f"{fn.loc(c)} unreachable")
                continue
            if any(e.startswith("step_nonzero@") for e in st):
                rr.ok(fn.loc(c), f"{fn.qualname}: indices() guarded by step != 0")
            else:
                rr.bad(fn, c, "slice.indices() raises ValueError on a zero step and is "
                       "reachable without a test that the step is non-zero",
                       construct=short(c))
    return rr


def lexer_string_patterns(ctx: Ctx) -> Dict[str, str]:
    lex = ctx.repo.require_class("Lexer")
    inst = Instance(lex)
    out = {}
    for attr in ("double_quote_pattern", "single_quote_pattern"):
        try:
            v = ctx.folder.instance_attr(inst, attr)
        except NotConst as err:
            raise AnalysisError(f"Lexer.{attr} cannot be folded: {err}") from err
        if not isinstance(v, str):
            raise AnalysisError(f"Lexer.{attr} is not a string constant")
        out[attr] = v
    return out


def r1_6(ctx: Ctx, rule: str = "R1.6") -> RuleResult:
    rr = RuleResult(rule, "quoted-string tokens consume a backslash with the character it escapes", floor=2)
    lex = ctx.repo.require_class("Lexer")
    init = lex.methods.get("__init__")
    pats = lexer_string_patterns(ctx)
    for attr, group, quote in (
        ("double_quote_pattern", "G_DQUOTE", '"'),
        ("single_quote_pattern", "G_SQUOTE", "'"),
    ):
        pat = pats[attr]
        body = regexast.named_group(pat, group, 0)
        if regexast.consumes_escape_pairs(body, quote):
            rr.ok(f"{lex.module.relpath}:{init.lineno if init else lex.node.lineno}",
                  f"Lexer.{attr} = {pat!r}: alternation of plain characters and backslash pairs")
        elif regexast.lookbehind_single_backslash(body):
            rr.bad(init, init.node if init else None,
                   f"Lexer.{attr} decides whether a quote is escaped by looking at the one "
                   "preceding character; a string ending in an escaped backslash "
                   r"(e.g. the normalized path $['a\\']['b']) is mis-tokenised",
                   construct=f"{attr}: one-character look-behind")
        else:
            raise AnalysisError(
                f"{rule}: Lexer.{attr} = {pat!r} is in neither recognised string-token idiom"
            )
    return rr


def r1_7(ctx: Ctx) -> RuleResult:
    """Blank space (RFC 9535 `B` = space, tab, LF, CR) is skipped between tokens
    and tolerated around the colons of a slice."""
    import re._constants as sre_c

    rr = RuleResult("R1.7", "RFC blank characters are skipped between tokens and inside slices", floor=3)
    lex = ctx.lexer
    where = lex.compile_fn.loc()
    if not lex.skipped:
        raise AnalysisError("R1.7: the lexer has no rule whose matches are skipped")
    blanks = {" ", "\t", "\n", "\r"}
    covered = set()
    # decided on the reconstructed master pattern: at a blank, the rule that wins is a skipped one and it
    # consumes the blank (whatever the shape of the skip rule: one class, an alternation ...)
    rx = lex.compiled()
    for b in sorted(blanks):
        m = rx.match(b + "a")
        m2 = rx.match(b + b + "a")
        if m is not None and m.lastgroup in lex.skipped and m.group() == b and m2 is not None and m2.lastgroup in lex.skipped:
            covered.add(b)
    missing = blanks - covered
    if missing:
        rr.bad(lex.compile_fn, None, f"the skip rule does not cover the blank character(s) {sorted(missing)!r}",
               construct="skip rule blank characters")
    else:
        rr.ok(where, "skip rule covers space, tab, LF and CR")
    # the skip rule must come after every rule that starts with a significant character it contains
    names = [r for r, _ in lex.rules]
    for rule in lex.skipped:
        if names.index(rule) < len(names) - 2:
            rr.bad(lex.compile_fn, None, f"the skip rule `{rule}` is tried before other token rules",
                   construct="skip rule position")
        else:
            rr.ok(where, f"skip rule `{rule}` is tried after all token rules")
    # slice: optional blank space on both sides of each colon
    from sa.tokens import Emit

    slice_rules = {e.rule for e in lex.emits if e.kind.startswith("SLICE")}
    for rule in slice_rules:
        tree = regexast.parse(lex.rule_pattern(rule), lex.master.flags)

        def flat(seq):  # type: ignore[no-untyped-def]
            out = []
            for op, av in seq:
                if op is sre_c.SUBPATTERN and av[0] is None:
                    out.extend(flat(av[3]))
                elif op in (sre_c.MAX_REPEAT, sre_c.MIN_REPEAT) and len(list(av[2])) == 1 and list(av[2])[0][0] is sre_c.SUBPATTERN and list(av[2])[0][1][0] is None:
                    out.extend(flat(list(av[2])[0][1][3]))
                elif op in (sre_c.MAX_REPEAT, sre_c.MIN_REPEAT) and av[0] == 0 and av[1] == 1 and len(list(av[2])) > 1:
                    out.extend(flat(av[2]))  # an optional group the parser has inlined
                else:
                    out.append((op, av))
            return out

        items = flat(tree)

        def is_space_rep(it):  # type: ignore[no-untyped-def]
            if it is None or it[0] not in (sre_c.MAX_REPEAT, sre_c.MIN_REPEAT) or it[1][0] != 0:
                return False
            b = list(it[1][2])
            cs = regexast.char_set(b[0]) if len(b) == 1 else None
            return bool(cs and not cs[0] and ("CATEGORY_SPACE" in cs[1] or blanks <= cs[1]))

        colons = [i for i, it in enumerate(items) if it[0] is sre_c.LITERAL and it[1] == ord(":")]
        if len(colons) < 2:
            raise AnalysisError("R1.7: the slice rule does not contain two colons")
        for i in colons:
            before = items[i - 1] if i > 0 else None
            after = items[i + 1] if i + 1 < len(items) else None
            # blank before the optional second colon may sit just outside its group
            if is_space_rep(after) and (is_space_rep(before) or (i >= 2 and is_space_rep(items[i - 2]))):
                rr.ok(where, f"slice rule `{rule}`: blank space allowed around colon #{colons.index(i) + 1}")
            else:
                rr.bad(lex.compile_fn, None, "the slice token does not tolerate blank space around its colons "
                       "(`$[1 : 2]` is valid RFC 9535)", construct=f"slice colon #{colons.index(i) + 1} blank space")
    return rr


def r1_8(ctx: Ctx) -> RuleResult:
    """An index that is out of range selects nothing: the element is fetched in a
    way that fails for an out-of-range index (the raw index under
    `suppress(IndexError)`, or a normalised index shown to be non-negative)."""
    from .c03 import _elem_taken_by
    from .c03 import appended_part

    rr = RuleResult("R1.8", "an out-of-range index selects nothing", floor=2)
    for fn, call, subj, ks, murky in site_kinds(ctx):
        if class_of(fn) != "IndexSelector" or ks is None or not (ks <= {ARRAY}):
            continue
        k = appended_part(call, fn.node)
        obj = kw(call, "obj")
        if isinstance(obj, ast.Await):
            obj = obj.value
        if k is not None and _elem_taken_by(obj, subj, k, fn, call):
            rr.ok(fn.loc(call), f"{fn.qualname}: element fetched with {short(obj, 60)}")
        else:
            rr.bad(fn, call, f"the element is fetched with `{short(obj)}`: a normalised index that is still negative "
                   "(or has wrapped around) selects an element although the index is out of range; fetch with the "
                   "raw index, or test the normalised index first", construct=f"obj={short(obj)}")
    return rr


def r1_9(ctx: Ctx) -> RuleResult:
    """The selector evaluates the bounds the query wrote: what `SliceSelector.__init__` / `IndexSelector.__init__`
    store must be the parsed start / stop / step / index for *every* value - in particular an explicit step of 0
    (which selects nothing) must not be turned into the default.  The stored expression is constant-folded on the
    values 0, 1, -1, 2, -3 and None."""
    from sa.consteval import NotConst
    from sa.consteval import Scope

    rr = RuleResult("R1.9", "selectors store the parsed bounds unchanged", floor=4)
    samples = [0, 1, -1, 2, -3, None]
    for cname, field, params in (("SliceSelector", "self.slice", ["start", "stop", "step"]), ("IndexSelector", "self.index", ["index"])):
        cls = ctx.repo.require_class(f"jsonpath.selectors.{cname}")
        init = cls.methods.get("__init__")
        if init is None:
            raise AnalysisError(f"{cname}.__init__ not found")
        stores = [n for n in ast.walk(init.node) if isinstance(n, ast.Assign) and any(path_of(t) == field for t in n.targets)]
        if len(stores) != 1:
            raise AnalysisError(f"R1.9: {cname}.__init__ does not store {field} exactly once")
        v = stores[0].value
        if cname == "SliceSelector":
            if not (isinstance(v, ast.Call) and callee_name(v) == "slice" and len(v.args) == 3 and not v.keywords):
                raise AnalysisError(f"R1.9: `{short(stores[0])}` is not slice(start, stop, step)")
            exprs = list(v.args)
        else:
            exprs = [v]
        for p, e in zip(params, exprs):
            bad = []
            for val in samples:
                if val is None and p == "index":
                    continue
                try:
                    got = ctx.folder.eval(e, Scope(ctx.folder, init.module, init.cls, {p: val}))
                except NotConst as err:
                    raise AnalysisError(f"R1.9: the stored {p} `{short(e)}` cannot be folded for {p}={val!r}: {err}") from err
                ok = got == val and type(got) is type(val)
                if val is None and p == "step" and got in (None, 1):
                    ok = True  # an omitted step is a step of 1
                if not ok:
                    bad.append((val, got))
            if bad:
                val, got = bad[0]
                rr.bad(init, stores[0], f"{cname} stores `{short(e)}` for `{p}`: a query that writes {p} = {val!r} is evaluated "
                       f"with {got!r}" + (" (a step of 0 must select nothing, RFC 9535 2.3.4.2.2)" if p == "step" and val == 0 else ""),
                       construct=f"{cname}.{p} stored as {short(e)}")
            else:
                rr.ok(init.loc(stores[0]), f"{cname}: `{p}` is stored unchanged ({len(samples)} values folded)")
    # the parser hands the written bounds to the selector: abstract execution of Parser.parse_slice on a model
    # token stream (rules/model.py); the constructor must receive the numbers that the three slice tokens spell
    from sa.peval import UNKNOWN

    from .model import MObj
    from .model import Model

    received: List[Dict[str, object]] = []

    def hook(e: ast.Call, a: List[object], env: Dict[str, object], ex) -> object:  # type: ignore[no-untyped-def]
        if callee_name(e) == "SliceSelector":
            received.append({k.arg: ex.value(k.value, env) for k in e.keywords if k.arg})
            return MObj(model, "SliceSelector", {})
        return None

    model = Model(ctx, "R1.9", hook)

    class _Stream(MObj):
        def __init__(self, toks: List[MObj]) -> None:
            super().__init__(model, "TokenStream", {})
            self.toks = toks
            self.pos = 0

        def _at(self, i: int) -> object:
            return self.toks[i] if 0 <= i < len(self.toks) else UNKNOWN

        def peval_getattr(self, name: str) -> object:
            if name == "current":
                return self._at(self.pos)
            if name == "peek":
                return self._at(self.pos + 1)
            return UNKNOWN

        def peval_call(self, method: str, args: List[object], kwargs: Dict[str, object]) -> object:
            if method == "next_token":
                t = self._at(self.pos)
                self.pos += 1
                return t
            if method in ("expect", "expect_peek"):
                return None
            return UNKNOWN

    ps = ctx.repo.require_func("Parser.parse_slice")
    parser_obj = MObj(model, "Parser", {"env": UNKNOWN})
    for triple in (("1", "3", "0"), ("", "", ""), ("-1", "", "-1"), ("0", "2", "2"), ("", "5", "")):
        del received[:]
        stream = _Stream([MObj(model, "Token", {"value": v, "kind": UNKNOWN}) for v in triple])
        model.call(parser_obj, "parse_slice", [stream])
        if len(received) != 1:
            raise AnalysisError(f"R1.9: the abstract execution of Parser.parse_slice on the slice `{':'.join(triple)}` does not "
                                f"construct one SliceSelector ({len(received)})")
        want = [int(v) if v else None for v in triple]
        got = [received[0].get(k, "<missing>") for k in ("start", "stop", "step")]
        ok = all((g == w and type(g) is type(w)) or (k == 2 and w is None and g in (None, 1)) for k, (g, w) in enumerate(zip(got, want)))
        if ok:
            rr.ok(ps.loc(), f"parse_slice: `{':'.join(triple)}` is handed to the selector as {got}")
        else:
            rr.bad(ps, ps.node, f"the slice `{':'.join(triple)}` is handed to SliceSelector as start, stop, step = {got} instead of {want}"
                   + (": an explicit step of 0 selects nothing (RFC 9535 2.3.4.2.2)" if triple[2] == "0" else ""),
                   construct=f"parse_slice: {':'.join(triple)} -> {got}")
            break
    return rr


def r1_10(ctx: Ctx) -> RuleResult:
    """The dot shorthand spells every RFC 9535 `member-name-shorthand`: name-first = ALPHA / "_" / %x80-D7FF /
    %xE000-10FFFF, name-char = name-first / DIGIT.  The group of the lexer's dot-property rule (a folded constant)
    is matched against one character from every range, in first and in later position."""
    import re as _re

    rr = RuleResult("R1.10", "the dot shorthand admits every RFC name character", floor=1)
    lex = ctx.lexer
    pat = lex.rule_pattern("DOT_PROPERTY")
    try:
        body = regexast.named_group(pat, "G_PROP", 0)
        rx = _re.compile(body if isinstance(body, str) else pat)
        use_group = not isinstance(body, str)
    except Exception as err:  # noqa: BLE001
        raise AnalysisError(f"R1.10: the dot-property rule {pat!r} cannot be examined: {err}") from err
    first = {"ALPHA": ["a", "Z"], "_": ["_"], "%x80-D7FF": ["\u0080", "\u00e9", "\ud7ff"], "%xE000-FFFF": ["\ue000", "\uffff"],
             "%x10000-10FFFF": ["\U00010000", "\U0001f600", "\U0010ffff"]}
    missing = []

    def ok(text: str) -> bool:
        if use_group:
            m = rx.fullmatch("." + text)
            return m is not None and m.group("G_PROP") == text
        return rx.fullmatch(text) is not None

    for rng, chars in first.items():
        for c in chars:
            if not ok(c):
                missing.append(f"{rng} as first character (U+{ord(c):04X})")
            if not ok("a" + c):
                missing.append(f"{rng} as later character (U+{ord(c):04X})")
    for d in "09":
        if not ok("a" + d):
            missing.append(f"DIGIT as later character ({d})")
    where = lex.compile_fn.loc()
    if missing:
        rr.bad(lex.compile_fn, lex.compile_fn.node, f"the dot shorthand (`$.name`) does not admit {missing[0]} and {len(missing) - 1} more "
               f"RFC 9535 name characters ({sorted(set(m.split(' as ')[0] for m in missing))}): such a query is a syntax error "
               "although the RFC grammar allows it", construct=f"dot shorthand lacks {sorted(set(m.split(' as ')[0] for m in missing))}")
    else:
        rr.ok(where, "dot shorthand: ALPHA, _, %x80-D7FF, %xE000-10FFFF first; the same and DIGIT after")
    return rr


def _name_tokens(toks):  # type: ignore[no-untyped-def]
    """Token stream with the two spellings of a member name (`.a` and a bare `a`) made one."""
    out = []
    for rule, kinds, text in toks:
        if kinds == "PROP":
            out.append(("NAME", text[1:] if text.startswith(".") else text))
        elif kinds == "BARE_PROPERTY":
            out.append(("NAME", text))
        else:
            out.append((kinds, text))
    return out


def r1_11(ctx: Ctx) -> RuleResult:
    """RFC 9535: `segments = *(S segment)` - blank space may precede any segment.  The reconstructed master
    pattern (constants folded from the lexer, matched with the standard `re` module) must give the same tokens
    for a segment with and without a blank in front of it: `$ ..a` is `$..a`, `$ .true` is `$.true`."""
    rr = RuleResult("R1.11", "blank space before a segment does not change its tokens", floor=20)
    lex = ctx.lexer
    where = lex.compile_fn.loc()
    segments = ["..a", "..*", "..[0]", "..['a']", ".a", ".true", ".*", "[0]", "['a']"]
    seen = set()
    for seg in segments:
        want = _name_tokens(lex.classify("$" + seg))
        for blank in (" ", "\t", "\n", "\r"):
            got = _name_tokens(lex.classify("$" + blank + seg))
            if got == want:
                rr.ok(where, f"`$<{blank!r}>{seg}` lexes as `${seg}`")
                continue
            if seg in seen:
                continue
            seen.add(seg)
            rr.bad(lex.compile_fn, lex.compile_fn.node,
                   f"`${blank}{seg}` is lexed as {[k for k, _ in got]} but `${seg}` as {[k for k, _ in want]}: blank space before "
                   "a segment, which RFC 9535 allows, changes the meaning of the query (or makes it a syntax error)",
                   construct=f"blank before `{seg}`: {[k for k, _ in got]} instead of {[k for k, _ in want]}")
    return rr


def r1_12(ctx: Ctx) -> RuleResult:
    """The descendant shorthand `..name` spells every name whose first character RFC 9535 allows (ALPHA, `_`,
    non-ASCII); the documented departure is reserved *words* only."""
    rr = RuleResult("R1.12", "the descendant shorthand admits every RFC first character", floor=40)
    lex = ctx.lexer
    where = lex.compile_fn.loc()
    for c, label in (("a", "ALPHA"), ("Z", "ALPHA"), ("_", "`_`"), ("\u00e9", "%x80-D7FF"), ("\U0001f600", "%x10000-10FFFF")):
        name = c + "x"
        got = _name_tokens(lex.classify("$.." + name))
        if [k for k, _ in got] == ["ROOT", "DDOT", "NAME"] and got[-1][1] == name:
            rr.ok(where, f"`$..{name}` is a descendant segment with the name {name!r}")
        else:
            rr.bad(lex.compile_fn, lex.compile_fn.node,
                   f"`$..{name}` (first character {label}) is lexed as {[k for k, _ in got]}: the descendant shorthand cannot "
                   "spell this name although it is not a reserved word", construct=f"descendant shorthand `..{label}`")
    # a name that merely *starts* with a reserved word is not reserved, whatever follows the word
    # (the word-boundary of the keyword rules must see non-ASCII letters as letters)
    bad_words = []
    for word in ("in", "or", "and", "not", "true", "false", "null", "nil", "none", "contains", "undefined", "missing"):
        for tail in ("x", "\u00e9", "\u00f0", "\u2603", "\u20ac1"):  # a letter, non-ASCII letters, non-ASCII characters that are not letters
            name = word + tail
            got = _name_tokens(lex.classify("$.." + name))
            if [k for k, _ in got] == ["ROOT", "DDOT", "NAME"] and got[-1][1] == name:
                rr.ok(where, f"`$..{name}` is the name {name!r}")
            else:
                bad_words.append((name, [k for k, _ in got], tail))
    if bad_words:
        name, kinds, _t = bad_words[0]
        ascii_only = all(not t_[0].isascii() for _n, _k, t_ in bad_words)
        symbols_only = all(not t_[0].isascii() and not t_[0].isalpha() for _n, _k, t_ in bad_words)
        rr.bad(lex.compile_fn, lex.compile_fn.node,
               f"`$..{name}` is lexed as {kinds} ({len(bad_words)} such names): a name that starts with a reserved word is cut after "
               f"the word{' when a non-ASCII letter follows (the keyword boundary is ASCII-only)' if ascii_only else ''}; it is not a reserved word",
               construct="descendant shorthand: reserved word followed by " + (
                   "a non-ASCII name character that is not a letter" if symbols_only else ("a non-ASCII letter" if ascii_only else "a letter")))
    return rr


def r1_13(ctx: Ctx) -> RuleResult:
    """A wildcard applies to every array and object, a slice with a non-zero step to every array: the only
    reasons to pass over an input node are the ones RFC 9535 gives (wrong kind of value, zero step).  The loop
    body of each resolver is partially evaluated under `the node is an array` / `is an object`; a path that
    leaves the iteration before reaching the statement that yields the children - under a test the assumptions
    do not decide - passes over nodes the RFC selects from."""
    from sa.peval import Explorer

    from .common import isinstance_classes

    rr = RuleResult("R1.13", "wildcard and slice pass over a node only for its kind (or a zero step)", floor=6)
    cases = [("SliceSelector", ("array",)), ("WildSelector", ("array", "object"))]
    for cname, kinds in cases:
        cls = ctx.repo.require_class("jsonpath.selectors." + cname)
        for mname in ("resolve", "resolve_async"):
            fn = cls.methods.get(mname)
            if fn is None:
                raise AnalysisError(f"R1.13: {cname}.{mname} not found")
            loops = [n for n in fn.node.body if isinstance(n, (ast.For, ast.AsyncFor))]
            if len(loops) != 1 or not isinstance(loops[0].target, ast.Name):
                raise AnalysisError(f"R1.13: {cname}.{mname} is no longer one loop over the input nodes")
            node_obj = loops[0].target.id + ".obj"
            for kind in kinds:
                def oracle(t: ast.expr, env: dict, kind: str = kind) -> Optional[bool]:  # type: ignore[type-arg]
                    ic = isinstance_classes(t)
                    if ic is not None and ic[0] == node_obj:
                        names = set(ic[1])
                        if names <= {"str", "bytes"}:
                            return False
                        if kind == "array":
                            if names & {"Sequence", "list", "MutableSequence"}:
                                return True
                            if names <= {"Mapping", "dict", "MutableMapping"}:
                                return False
                        else:
                            if names & {"Mapping", "dict", "MutableMapping"}:
                                return True
                            if names <= {"Sequence", "list", "MutableSequence", "str"}:
                                return False
                    if isinstance(t, ast.Compare) and len(t.ops) == 1 and path_of(t.left) == "self.slice.step" and isinstance(
                            t.comparators[0], ast.Constant) and t.comparators[0].value == 0:
                        return isinstance(t.ops[0], ast.NotEq)  # the step is not zero
                    return None

                ex = Explorer(ctx.folder, fn, oracle)
                ex.block(list(loops[0].body), {})
                early = [(k, n) for (k, n, _v), env in zip(ex.outcomes, ex.envs) if k in ("continue", "break", "return") and not env.get("$yield")]
                if not early:
                    rr.ok(fn.loc(), f"{cname}.{mname}: every {kind} reaches the statement that yields its children")
                    continue
                k, n = early[0]
                from .common import path_conditions

                conds = [short(t) if b else f"not ({short(t)})" for t, b in path_conditions(fn.node, n) if oracle(t, {}) is None]
                rr.bad(fn, n, f"{cname}.{mname} passes over an {kind} when `{' and '.join(conds) or '?'}`: RFC 9535 selects from every "
                       f"{kind} ({'with a non-zero step' if cname == 'SliceSelector' else 'all its children'}); e.g. `$[5::-1]` starts at the "
                       "last element when 5 is beyond the end", construct=f"{cname}.{mname}: {kind} skipped when {' and '.join(conds) or '?'}")
    return rr


def r1_14(ctx: Ctx, rule: str = "R1.14") -> RuleResult:
    """RFC 9535 2.3 on small documents.  The four selectors' resolvers (and their async twins) are executed abstractly
    (rules/model.py) on one input node whose value is an array of 0, 1 or 3 elements, an object, a string, a number,
    true and null, for a set of selector arguments that covers every order of start / stop / step / index against the
    length: the matches they construct - values and location parts, in order - must be those the RFC defines (a slice
    is Python's slice for a non-zero step and nothing for step 0; an index on an object selects the member whose name
    is its decimal spelling, the documented departure).  A run the interpreter cannot decide is an analysis error."""
    from .model import run_selector

    rr = RuleResult(rule, "selectors select exactly the RFC's nodelist on covering small documents", floor=1400)
    arrays = [(), (10,), (10, 20, 30)]
    others = [{"x": 1, "y": 2}, {"1": 7, "x": 1}, "ab", 5, True, None]
    bounds = [None, -4, -1, 0, 2, 4]
    steps = [None, 1, 2, -1, -2, 0]
    first_bad: Dict[str, Tuple[str, object, object]] = {}
    counts: Dict[str, int] = {}

    def init_of(cname: str, fields: Dict[str, object]) -> Dict[str, object]:
        # keyword arguments of the selector's own constructor, which is executed abstractly as well
        if cname == "SliceSelector":
            sl = fields["slice"]
            return {"start": sl.start, "stop": sl.stop, "step": sl.step}  # type: ignore[attr-defined]
        if cname == "IndexSelector":
            return {"index": fields["index"]}
        if cname == "PropertySelector":
            return {"name": fields["name"], "shorthand": False}
        return {"shorthand": False}

    def check(cname: str, mname: str, fields: Dict[str, object], doc: object, want: List[Tuple[object, object]], label: str) -> None:
        got = run_selector(ctx, rule, cname, mname, fields, doc, init=init_of(cname, fields))
        if got is None:
            raise AnalysisError(f"{rule}: {cname}.{mname} cannot be decided for {label} on {doc!r}")
        key = f"{cname}.{mname}"
        counts[key] = counts.get(key, 0) + 1
        if got != want and key not in first_bad:
            first_bad[key] = (f"{label} on {doc!r}", got, want)

    for mname in ("resolve", "resolve_async"):
        for doc in arrays:
            n = len(doc)
            for a in bounds:
                for b in bounds:
                    for st in steps:
                        sl = slice(a, b, st)
                        want = [] if st == 0 else [(doc[i], ("a", i)) for i in range(*sl.indices(n))]
                        check("SliceSelector", mname, {"slice": sl}, doc, want, f"[{'' if a is None else a}:{'' if b is None else b}:{'' if st is None else st}]")
            for i in range(-4, 5):
                want = [(doc[i], ("a", i if i >= 0 else n + i))] if -n <= i < n else []
                check("IndexSelector", mname, {"index": i, "_as_key": str(i)}, doc, want, f"[{i}]")
            check("WildSelector", mname, {}, doc, [(v, ("a", i)) for i, v in enumerate(doc)], "[*]")
            for name in ("x", "1"):
                check("PropertySelector", mname, {"name": name, "shorthand": False}, doc, [], f"['{name}']")
        for doc in others:
            check("SliceSelector", mname, {"slice": slice(0, 2, 1)}, doc, [], "[0:2]")
            for i in (0, 1, -1):
                want = [(doc[str(i)], ("a", str(i)))] if isinstance(doc, dict) and str(i) in doc else []
                check("IndexSelector", mname, {"index": i, "_as_key": str(i)}, doc, want, f"[{i}]")
            check("WildSelector", mname, {}, doc, [(v, ("a", k)) for k, v in doc.items()] if isinstance(doc, dict) else [], "[*]")
            for name in ("x", "missing"):
                want = [(doc[name], ("a", name))] if isinstance(doc, dict) and name in doc else []
                check("PropertySelector", mname, {"name": name, "shorthand": False}, doc, want, f"['{name}']")
    # bracketed lists concatenate what each selector selects, in the order written, for each input node; the
    # descendant segment visits a node before its children, children in document order (containers only: the
    # selectors that follow select nothing from other values)
    from sa.peval import UNKNOWN as _U

    from .model import MObj as _MObj

    def tok(model):  # type: ignore[no-untyped-def]
        return _MObj(model, "Token", {"value": _U, "kind": _U})

    def ref_item(item: object, doc: object) -> List[Tuple[object, object]]:
        if isinstance(item, int) and not isinstance(item, bool):
            if isinstance(doc, tuple):
                n_ = len(doc)
                return [(doc[item], ("a", item if item >= 0 else n_ + item))] if -n_ <= item < n_ else []
            return [(doc[str(item)], ("a", str(item)))] if isinstance(doc, dict) and str(item) in doc else []
        if isinstance(item, str):
            return [(doc[item], ("a", item))] if isinstance(doc, dict) and item in doc else []
        return []

    for mname in ("resolve", "resolve_async"):
        for items in ([0, "x", -1], [1, 1], [-1, 0], ["x", "y", "x"], [5, "missing"]):
            for doc in ((10, 20, 30), {"x": 1, "y": 2}, "ab"):
                def build(model, env, items=items):  # type: ignore[no-untyped-def]
                    sels = [model.new("IndexSelector", env=env, token=tok(model), index=i) if isinstance(i, int)
                            else model.new("PropertySelector", env=env, token=tok(model), name=i, shorthand=False) for i in items]
                    return model.new("ListSelector", env=env, token=tok(model), items=sels)

                got = run_selector(ctx, rule, "ListSelector", mname, {}, doc, build=build)
                if got is None:
                    raise AnalysisError(f"{rule}: ListSelector.{mname} cannot be decided for {items} on {doc!r}")
                want = [m for it in items for m in ref_item(it, doc)]
                key = f"ListSelector.{mname}"
                counts[key] = counts.get(key, 0) + 1
                if got != want and key not in first_bad:
                    first_bad[key] = (f"{items} on {doc!r}", got, want)

        def containers(doc: object, parts: Tuple[object, ...]) -> List[Tuple[object, object]]:
            out: List[Tuple[object, object]] = []
            kids = list(doc.items()) if isinstance(doc, dict) else (list(enumerate(doc)) if isinstance(doc, (tuple, list)) else [])
            for k, v in kids:
                if isinstance(v, (dict, tuple, list)):
                    out.append((v, parts + (k,)))
                    out.extend(containers(v, parts + (k,)))
            return out

        for doc in ({"x": (1, {"y": 2}), "z": 3, "w": {"v": ()}}, ((1,), (2, (3,))), "ab", 5, {}):
            def build_d(model, env):  # type: ignore[no-untyped-def]
                return model.new("RecursiveDescentSelector", env=env, token=tok(model))

            got = run_selector(ctx, rule, "RecursiveDescentSelector", mname, {}, doc, build=build_d)
            if got is None:
                raise AnalysisError(f"{rule}: RecursiveDescentSelector.{mname} cannot be decided on {doc!r}")
            want = [(doc, ("a",))] + containers(doc, ("a",))
            key = f"RecursiveDescentSelector.{mname}"
            counts[key] = counts.get(key, 0) + 1
            if got != want and key not in first_bad:
                first_bad[key] = (f"`..` on {doc!r}", got, want)

    for key, n_runs in sorted(counts.items()):
        cname, mname = key.split(".")
        fn = ctx.repo.require_class("jsonpath.selectors." + cname).methods[mname]
        if key not in first_bad:
            for _ in range(n_runs):
                rr.ok(fn.loc(), f"{key}: {n_runs} selector / document pairs give the RFC's nodelist")
        else:
            label, got, want = first_bad[key]
            rr.bad(fn, fn.node, f"{key}: the selector {label} constructs the matches {got} (value, location) but RFC 9535 defines {want}",
                   construct=f"{key}: {label} -> {got} instead of {want}")
    return rr


#: bracketed selections in the spellings RFC 9535 allows -> the selectors they denote
BRACKET_SAMPLES = (
    ("['a']", [("name", "a")]), ('["a"]', [("name", "a")]), ("['']", [("name", "")]), ('[""]', [("name", "")]),
    ("['a b']", [("name", "a b")]), ("['\u00e9']", [("name", "\u00e9")]), ("['\U0001f600']", [("name", "\U0001f600")]),
    ("['\\n']", [("name", "\n")]), ("['a\\nb']", [("name", "a\nb")]), ('["a\\tb"]', [("name", "a\tb")]), ("['\\b\\f\\r']", [("name", "\b\f\r")]),
    ("['\\\\']", [("name", "\\")]), ("['\\'']", [("name", "'")]), ('["\\""]', [("name", '"')]), ("['\"']", [("name", '"')]), ('["\'"]', [("name", "'")]),
    ("['\\/']", [("name", "/")]), ('["\\u0000"]', [("name", "\x00")]), ("['\\u0041']", [("name", "A")]), ("['\\u00e9']", [("name", "\u00e9")]),
    ("['\\ud83d\\ude00']", [("name", "\U0001f600")]), ("['a\\\\nb']", [("name", "a\\nb")]), ("['$']", [("name", "$")]), ("['*']", [("name", "*")]),
    ("['0']", [("name", "0")]), ("['a', 'b']", [("name", "a"), ("name", "b")]), ("[ 'a' , 'a' ]", [("name", "a"), ("name", "a")]),
    ("['a',\n\t\"b\"]", [("name", "a"), ("name", "b")]),
    # an escaped backslash followed by the other quote character (the quote is NOT escaped by that backslash)
    ("['\\\\\"']", [("name", "\\\"")]), ('["\\\\\'"]', [("name", "\\'")]), ("['a\\\\\"b\\\\']", [("name", "a\\\"b\\")]),
    ("[0]", [("index", 0)]), ("[-1]", [("index", -1)]), ("[10]", [("index", 10)]), ("[0, 1, 0]", [("index", 0), ("index", 1), ("index", 0)]),
    ("[1:3]", [("slice", 1, 3, None)]), ("[::2]", [("slice", None, None, 2)]), ("[::-1]", [("slice", None, None, -1)]), ("[1:]", [("slice", 1, None, None)]),
    ("[:2]", [("slice", None, 2, None)]), ("[ 1 : 3 : 1 ]", [("slice", 1, 3, 1)]), ("[-2:-1:0]", [("slice", -2, -1, 0)]), ("[:]", [("slice", None, None, None)]),
    ("[*]", [("wild",)]), ("[ * ]", [("wild",)]), ("[*, 0, 'a', 1:2, *]", [("wild",), ("index", 0), ("name", "a"), ("slice", 1, 2, None), ("wild",)]),
)


def r1_15(ctx: Ctx) -> RuleResult:
    """Bracketed selections: `Parser.parse_selector_list` is executed abstractly (rules/model.py) on the tokens the
    lexer model reads from each sample text - every quote style, every escape of RFC 9535 2.3.1.1, indices, slices
    with any of the three parts missing, wildcards, lists with blank space and duplicates.  The selectors constructed
    must be the ones the text denotes, in order."""
    from .model import RAISES
    from .model import parse_bracketed

    rr = RuleResult("R1.15", "bracketed selections are parsed into the selectors they denote", floor=len(BRACKET_SAMPLES))
    fn = ctx.repo.require_func("Parser.parse_selector_list")

    def norm(cls: str, kws: Dict[str, object]) -> tuple:  # type: ignore[type-arg]
        if cls == "PropertySelector":
            return ("name", kws.get("name", "<missing>")) + (() if kws.get("shorthand") in (False, None) else ("shorthand",))
        if cls == "IndexSelector":
            return ("index", kws.get("index", "<missing>"))
        if cls == "SliceSelector":
            return ("slice", kws.get("start"), kws.get("stop"), kws.get("step"))
        if cls == "WildSelector":
            return ("wild",)
        return (cls, tuple(sorted((k, repr(v)) for k, v in kws.items())))

    for text, want in BRACKET_SAMPLES:
        got = parse_bracketed(ctx, "R1.15", text)
        if got is None:
            raise AnalysisError(f"R1.15: the abstract execution of parse_selector_list on `{text}` cannot be followed")
        if got is RAISES:
            rr.bad(fn, fn.node, f"the selection {text!r}, valid in RFC 9535, is refused by the parser", construct=f"parse of {text!r} raises")
            continue
        have = [norm(c, k) for c, k in got]  # type: ignore[union-attr]
        same = len(have) == len(want) and all(h == tuple(w) and all(type(a) is type(b) for a, b in zip(h, w)) for h, w in zip(have, want))
        if not same and len(have) == len(want):
            # a missing step may be handed over as the default 1
            same = all(h == tuple(w) or (h[0] == "slice" == w[0] and h[:3] == tuple(w[:3]) and w[3] is None and h[3] in (None, 1)) for h, w in zip(have, want))
        if same:
            rr.ok(fn.loc(), f"{text!r} -> {have}")
        else:
            rr.bad(fn, fn.node, f"the selection {text!r} denotes {[tuple(w) for w in want]} but is parsed into {have}", construct=f"parse of {text!r}")
    return rr


NODELIST_DOC = {"a": {"a": {"b": 1, "a": [5, 6]}, "b": 2}, "l": [[1, 2], [3]], "s": "x"}
NODELIST_INPUTS = (
    [("a",), ("a", "a")],            # a node and one of its descendants (what `$..a` hands to a following segment)
    [("a", "a"), ("a",)],
    [("a",), ("a",)],                # the same node twice (`$[a, a]`)
    [("l",), ("l", 0)],
    [("l", 0), ("l",), ("l", 0), ("s",)],
    [],
)
NODELIST_SELECTORS = (
    ("RecursiveDescentSelector", {}), ("WildSelector", {"shorthand": False}), ("PropertySelector", {"name": "a", "shorthand": False}),
    ("IndexSelector", {"index": 0}), ("IndexSelector", {"index": -1}), ("SliceSelector", {"start": None, "stop": None, "step": None}),
    ("KeysSelector", {"shorthand": False}),
)


def r1_16(ctx: Ctx) -> RuleResult:
    """RFC 9535 2.1.2 / 2.5: a segment is applied to every node of its input nodelist, in order, and the results are
    concatenated - nodelists are lists, so a node reached from two input nodes is in the result twice.  Each selector's
    `resolve` is executed abstractly *as a whole* (rules/model.py, containers changed in place) on input lists that
    hold a node and its descendant, the same node twice, and nothing: the result must be the concatenation of the
    results for the one-element lists."""
    import copy as _copy

    from sa.peval import UNKNOWN

    from .model import RAISES
    from .model import MObj
    from .model import Model

    rr = RuleResult("R1.16", "a selector's result for a nodelist is the concatenation of its results for the nodes", floor=len(NODELIST_INPUTS) * len(NODELIST_SELECTORS))

    def run(cname: str, kwargs: Dict[str, object], nodes: List[Tuple[object, ...]]) -> Optional[List[Tuple[object, object]]]:
        model = Model(ctx, "R1.16")
        model.whole_bodies = model.auto_construct = model.exact_exceptions = model.heap = True
        doc = _copy.deepcopy(NODELIST_DOC)
        env = model.new("jsonpath.env.JSONPathEnvironment")
        tok = MObj(model, "jsonpath.token.Token", {"kind": "X", "value": "x", "index": 0, "path": "$"})
        sel = model.new("jsonpath.selectors." + cname, env=env, token=tok, **kwargs)
        matches = []
        for parts in nodes:
            v: object = doc
            for p_ in parts:
                v = v[p_]  # type: ignore[index]
            matches.append(model.new("jsonpath.match.JSONPathMatch", filter_context={}, obj=v, parent=None,
                                     path="$" + "".join(f"[{p_!r}]" for p_ in parts), parts=tuple(parts), root=doc))
        got = model.call(sel, "resolve", [matches])
        if got is RAISES or got is UNKNOWN or not isinstance(got, (list, tuple)):
            return None
        out: List[Tuple[object, object]] = []
        for x in got:
            if not isinstance(x, MObj) or x.fields.get("parts", UNKNOWN) is UNKNOWN or x.fields.get("obj", UNKNOWN) is UNKNOWN:
                return None
            out.append((tuple(x.fields["parts"]), _copy.deepcopy(x.fields["obj"])))  # type: ignore[arg-type]
        return out

    for cname, kwargs in NODELIST_SELECTORS:
        cls = ctx.repo.require_class("jsonpath.selectors." + cname)
        fn = ctx.repo.find_method(cls, "resolve")
        if fn is None:
            raise AnalysisError(f"R1.16: {cname}.resolve not found")
        shown = f"{cname}({', '.join(f'{k}={v!r}' for k, v in kwargs.items())})"
        for nodes in NODELIST_INPUTS:
            whole = run(cname, kwargs, list(nodes))
            singles = [run(cname, kwargs, [n]) for n in nodes]
            if whole is None or any(x is None for x in singles):
                raise AnalysisError(f"R1.16: {shown}.resolve cannot be followed on the nodes {list(nodes)}")
            want = [y for x in singles for y in x]  # type: ignore[union-attr]
            if whole == want:
                rr.ok(fn.loc(), f"{shown} on {list(nodes)}: {len(want)} nodes, the concatenation of the per-node results")
            else:
                rr.bad(fn, fn.node, f"{shown}.resolve on the nodelist {list(nodes)} gives the locations {[list(p_) for p_, _v in whole]}, but node by node the "
                       f"results are {[list(p_) for p_, _v in want]}: a segment's result is the concatenation over its input nodes, duplicates included",
                       construct=f"{shown} on {list(nodes)}")
    return rr


RULES = [r1_1, r1_2, r1_3, r1_4, r1_5, r1_6, r1_7, r1_8, r1_9, r1_10, r1_11, r1_12, r1_13, r1_14, r1_15, r1_16]
