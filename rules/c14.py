"""C14 - JSON Pointer text, tokens and navigation operations are consistent.

R14.1 = R4.1 (parse and print are inverse tables)
R14.2 = R4.2 (a token is an index only in canonical form, so printing returns
        the text that was parsed)
R14.3 equality, hashing and relativity compare a representation that does not
      depend on how the pointer was constructed
R14.4 navigation shape: join folds `/`; parent of the root is the root; a joined
      part starting with a slash replaces the pointer
"""

from __future__ import annotations

import ast
from typing import Dict
from typing import List
from typing import Optional
from typing import Set
from typing import Tuple

from sa.kinds import path_of
from sa.loader import AnalysisError
from sa.loader import FuncInfo
from sa.loader import short
from sa.report import RuleResult

from . import Ctx
from .c04 import r4_1
from .c04 import r4_2
from .common import callee_name
from .common import calls
from .common import kw
from .common import must_flow


def r14_1(ctx: Ctx) -> RuleResult:
    return r4_1(ctx, "R14.1")


def r14_2(ctx: Ctx) -> RuleResult:
    return r4_2(ctx, "R14.2")


def _classify_parts_expr(fn: FuncInfo, e: ast.expr, depth: int = 0, seen: Optional[Set[int]] = None) -> Set[str]:
    """How are the elements of a `parts` value normalised?
    {'index'} int-or-str through _index; {'str'} always str; {'match'} taken from a
    match; {'inherit'} slices/concatenations of another pointer's parts; {'?'}."""
    if depth > 12:
        return {"?"}
    seen = set() if seen is None else seen
    if isinstance(e, ast.Name):
        # follow local assignments
        out: Set[str] = set()
        found = False
        # a list filled element by element: `xs = []` ... `xs.append(E)`
        appended = [
            c.args[0] for c in calls(fn.node, "append")
            if isinstance(c.func, ast.Attribute) and path_of(c.func.value) == e.id and len(c.args) == 1
        ]
        if appended:
            for a_ in appended:
                out |= _classify_elem(fn, a_, depth + 1)
            return out
        for n in ast.walk(fn.node):
            value = None
            if isinstance(n, ast.Assign) and any(isinstance(t, ast.Name) and t.id == e.id for t in n.targets):
                value = n.value
            elif isinstance(n, ast.Assign) and len(n.targets) == 1 and isinstance(n.targets[0], ast.Tuple) and any(
                isinstance(t, ast.Starred) and isinstance(t.value, ast.Name) and t.value.id == e.id for t in n.targets[0].elts
            ):
                value = n.value  # `*head, _ = X`: a slice of X
            elif isinstance(n, ast.AnnAssign) and isinstance(n.target, ast.Name) and n.target.id == e.id:
                value = n.value
            if value is not None:
                found = True
                if id(value) in seen:
                    continue  # self-referential re-assignment (`x = f(x)`)
                out |= _classify_parts_expr(fn, value, depth + 1, seen | {id(value)})
        if found:
            return out
        # a parameter
        for a in fn.node.args.args + fn.node.args.kwonlyargs:
            if a.arg == e.id:
                return {"param"}
        return {"?"}
    if isinstance(e, ast.Attribute) and e.attr == "parts":
        base = path_of(e.value) or ""
        if base.split(".")[0] in ("self", "other") or base.endswith("pointer") or base.startswith("_pointer"):
            return {"inherit"}
        return {"match"}
    if isinstance(e, ast.Subscript):
        return _classify_parts_expr(fn, e.value, depth + 1, seen)
    if isinstance(e, ast.BinOp) and isinstance(e.op, ast.Add):
        return _classify_parts_expr(fn, e.left, depth + 1, seen) | _classify_parts_expr(fn, e.right, depth + 1, seen)
    if isinstance(e, ast.IfExp):
        return _classify_parts_expr(fn, e.body, depth + 1, seen) | _classify_parts_expr(fn, e.orelse, depth + 1, seen)
    if isinstance(e, ast.BoolOp):
        out2: Set[str] = set()
        for v in e.values:
            out2 |= _classify_parts_expr(fn, v, depth + 1, seen)
        return out2
    if isinstance(e, ast.Call):
        name = callee_name(e)
        if name in ("tuple", "list") and e.args:
            return _classify_parts_expr(fn, e.args[0], depth + 1, seen)
        if name == "_parse":
            return {"index"}
        if name == "_index":
            return {"index"}
        if name == "str":
            return {"str"}
        return {"?"}
    if isinstance(e, (ast.GeneratorExp, ast.ListComp)):
        elt = e.elt
        ec = _classify_elem(fn, elt, depth + 1)
        if "?" not in ec:
            return ec
        if isinstance(elt, ast.Call):
            name = callee_name(elt)
            if name == "_index":
                return {"index"}
            if name == "str":
                return {"str"}
            # str-to-str transformations of an already classified stream
            inner = _classify_parts_expr(fn, e.generators[0].iter, depth + 1, seen)
            if name in ("unquote", "decode", "replace", "encode", "_unicode_escape"):
                return inner
            return inner | {"?"}
        if isinstance(elt, ast.Name):
            return _classify_parts_expr(fn, e.generators[0].iter, depth + 1, seen)
        return {"?"}
    if isinstance(e, ast.Tuple) and not e.elts:
        return set()
    return {"?"}


_STR_TO_STR = ("unquote", "decode", "replace", "encode", "_unicode_escape")


def _classify_elem(fn: FuncInfo, e: ast.expr, depth: int = 0) -> Set[str]:
    """How one element of a `parts` value is normalised (same classes as _classify_parts_expr)."""
    if depth > 12:
        return {"?"}
    if isinstance(e, ast.IfExp):
        return _classify_elem(fn, e.body, depth + 1) | _classify_elem(fn, e.orelse, depth + 1)
    if isinstance(e, ast.Call):
        name = callee_name(e)
        if name == "_index":
            return {"index"}
        if name == "str":
            return {"str"}
        if name in _STR_TO_STR:
            subject = e.args[0] if e.args else (e.func.value if isinstance(e.func, ast.Attribute) else None)
            return _classify_elem(fn, subject, depth + 1) if subject is not None else {"?"}
        if name == "reduce" and len(e.args) == 3 and not e.keywords and isinstance(e.args[0], ast.Lambda):  # noqa: PLR2004
            # a pipeline: `reduce(lambda token, decode: decode(token), decoders, part)` applies the functions of
            # `decoders` to the element in order; the list is a display plus (possibly conditional) appends
            lam = e.args[0]
            ps = [a.arg for a in lam.args.args]
            b = lam.body
            if (len(ps) == 2 and isinstance(b, ast.Call) and isinstance(b.func, ast.Name) and b.func.id == ps[1] and len(b.args) == 1  # noqa: PLR2004
                    and isinstance(b.args[0], ast.Name) and b.args[0].id == ps[0] and not b.keywords and isinstance(e.args[1], ast.Name)):
                lst = e.args[1].id
                stores = [n for n in ast.walk(fn.node) if isinstance(n, (ast.Assign, ast.AnnAssign))
                          and any(isinstance(t, ast.Name) and t.id == lst for t in (n.targets if isinstance(n, ast.Assign) else [n.target]))]
                others = [n for n in ast.walk(fn.node) if isinstance(n, ast.Name) and n.id == lst and isinstance(n.ctx, (ast.Store, ast.Del))]
                if len(stores) == 1 and len(others) == 1 and isinstance(stores[0].value, ast.List):
                    cur = _classify_elem(fn, e.args[2], depth + 1) if not isinstance(e.args[2], ast.Name) or any(
                        isinstance(n, ast.Assign) and any(isinstance(t, ast.Name) and t.id == e.args[2].id for t in n.targets) for n in ast.walk(fn.node)
                    ) else {"param"}

                    def apply(fname: Optional[str], cur_: Set[str]) -> Set[str]:
                        if fname == "str":
                            return {"str"}
                        if fname == "_index":
                            return {"index"}
                        if fname in _STR_TO_STR:
                            return cur_
                        return cur_ | {"?"}

                    for item in stores[0].value.elts:
                        cur = apply(item.id if isinstance(item, ast.Name) else getattr(item, "attr", None), cur)
                    # every other use of the list: appends (each keeps or sets the class) and the reduce itself
                    for n in ast.walk(fn.node):
                        if isinstance(n, ast.Name) and n.id == lst and isinstance(n.ctx, ast.Load) and n is not e.args[1]:
                            par = next((c for c in ast.walk(fn.node) if isinstance(c, ast.Call) and isinstance(c.func, ast.Attribute) and c.func.value is n), None)
                            if par is None or par.func.attr != "append" or len(par.args) != 1:  # type: ignore[union-attr]
                                return cur | {"?"}
                            item = par.args[0]
                            after = apply(item.id if isinstance(item, ast.Name) else getattr(item, "attr", None), cur)
                            if after != cur and "str" not in cur:
                                return cur | {"?"}  # a conditional step that changes the class
                            cur = cur | after if after != cur else cur
                    return cur - {"param"} if "str" in cur or "index" in cur else cur
        # a function defined inside this one: what it returns
        if isinstance(e.func, ast.Name):
            local = [n for n in ast.walk(fn.node) if isinstance(n, (ast.FunctionDef, ast.AsyncFunctionDef)) and n.name == e.func.id and n is not fn.node]
            if len(local) == 1:
                out2: Set[str] = set()
                for r in [n for n in ast.walk(local[0]) if isinstance(n, ast.Return) and n.value is not None]:
                    out2 |= _classify_elem(fn, r.value, depth + 1)
                return out2 or {"?"}
        return {"?"}
    if isinstance(e, ast.Name):
        defs = [n.value for n in ast.walk(fn.node) if isinstance(n, ast.Assign) and len(n.targets) == 1
                and isinstance(n.targets[0], ast.Name) and n.targets[0].id == e.id]
        if defs:
            out: Set[str] = set()
            for d in defs:
                out |= _classify_elem(fn, d, depth + 1)
            return out
        return {"?"}
    return {"?"}


def parts_producers(ctx: Ctx) -> List[Tuple[FuncInfo, ast.AST, Set[str]]]:
    cls = ctx.repo.require_class("jsonpath.pointer.JSONPointer")
    out: List[Tuple[FuncInfo, ast.AST, Set[str]]] = []
    for fn in ctx.repo.functions.values():
        if fn.module.name != "jsonpath.pointer":
            continue
        for c in calls(fn.node):
            name = callee_name(c)
            if name not in ("cls", "JSONPointer"):
                continue
            p = kw(c, "parts")
            if p is None:
                continue
            out.append((fn, c, _classify_parts_expr(fn, p)))
    init = cls.methods.get("__init__")
    if init is None:
        raise AnalysisError("JSONPointer.__init__ not found")
    for n in ast.walk(init.node):
        if isinstance(n, ast.Assign) and any(
            isinstance(t, ast.Attribute) and t.attr == "parts" and path_of(t.value) == "self" for t in n.targets
        ):
            out.append((init, n, _classify_parts_expr(init, n.value) - {"param"}))
    return out


def _renamed_stringifiers() -> tuple:  # type: ignore[type-arg]
    """What `_tokens` / `_encode` are called on this tree when they were renamed (sa/loader.py ANCHOR_ROLES)."""
    from sa.loader import ROLE_FILLERS

    return tuple(v[1] for k, v in ROLE_FILLERS.items() if k in (("JSONPointer", "_tokens"), ("JSONPointer", "_encode")))


def _uses_raw_parts(fn: FuncInfo) -> List[ast.AST]:
    """Comparisons / hashes of `.parts` that are not mapped through str."""
    bad: List[ast.AST] = []

    def stringified(e: ast.AST) -> bool:
        # tuple(str(p) for p in X.parts) / map(str, X.parts) / [str(p) for ...]
        for n in ast.walk(e):
            if isinstance(n, ast.Call) and callee_name(n) in ("str", "map", "_tokens", "_encode") + _renamed_stringifiers():
                return True
        return False

    for n in ast.walk(fn.node):
        operands: List[ast.expr] = []
        if isinstance(n, ast.Compare):
            operands = [n.left] + list(n.comparators)
            # len(x.parts) comparisons are representation independent
            operands = [o for o in operands if not (isinstance(o, ast.Call) and callee_name(o) == "len")]
        elif isinstance(n, ast.Call) and callee_name(n) == "hash":
            operands = list(n.args)
        for o in operands:
            mentions = [a for a in ast.walk(o) if isinstance(a, ast.Attribute) and a.attr == "parts"]
            if mentions and not stringified(o):
                bad.append(n)
                break
    return bad


def r14_3(ctx: Ctx) -> RuleResult:
    rr = RuleResult("R14.3", "pointer equality/hash/relativity are representation independent", floor=5)
    cls = ctx.repo.require_class("jsonpath.pointer.JSONPointer")
    prods = parts_producers(ctx)
    classes: Set[str] = set()
    for fn, node, kinds in prods:
        concrete = kinds - {"inherit", "param"}
        if "?" in concrete:
            # the shape of this producer is not one this rule knows: the question it answers (do two spellings of one
            # pointer compare equal, hash alike, and relate alike) is then put to R14.9, which executes those very
            # operations on pointers built both ways (and fails the run if it cannot follow them)
            rr.floor = 0
            rr.ok(fn.loc(node), f"{fn.qualname}: parts producer of an unfamiliar shape (`{short(node)}`); decided by execution in R14.9")
            rr.note("R14.3 fell back to R14.9 (equality, hash and relativity executed on pointers built from text and from parts)")
            return rr
        classes |= concrete
        rr.ok(fn.loc(node), f"{fn.qualname}: parts normalised as {sorted(kinds) or ['()']}")
    rr.note(f"element normalisers in use: {sorted(classes)}")
    users = [m for name, m in cls.methods.items() if name in ("__eq__", "__hash__", "is_relative_to")]
    if len(users) < 3:
        raise AnalysisError("R14.3: __eq__/__hash__/is_relative_to not all found on JSONPointer")
    for m in users:
        raw = _uses_raw_parts(m)
        if raw and len(classes) > 1:
            rr.bad(m, raw[0],
                   f"{m.name} compares raw `parts`, but producers normalise elements differently "
                   f"({sorted(classes)}): JSONPointer('/a/0') and JSONPointer.from_parts(['a', 0]) "
                   "denote the same tokens yet differ; compare the token strings instead",
                   construct=short(raw[0]))
        else:
            rr.ok(m.loc(), f"{m.qualname}: representation-independent comparison" if not raw
                  else f"{m.qualname}: raw parts, single normaliser {sorted(classes)}")
    return rr


def r14_4(ctx: Ctx) -> RuleResult:
    rr = RuleResult("R14.4", "join / parent / slash navigation shape", floor=3)
    cls = ctx.repo.require_class("jsonpath.pointer.JSONPointer")
    # join folds `/`
    join = cls.methods.get("join")
    if join is None:
        raise AnalysisError("JSONPointer.join not found")
    var = join.node.args.vararg.arg if join.node.args.vararg else None
    loops = [n for n in ast.walk(join.node) if isinstance(n, ast.For) and path_of(n.iter) == var]
    ok = False
    if var and len(loops) == 1 and isinstance(loops[0].target, ast.Name):
        part = loops[0].target.id
        for s in loops[0].body:
            if (
                isinstance(s, ast.Assign)
                and isinstance(s.value, ast.BinOp)
                and isinstance(s.value.op, ast.Div)
                and isinstance(s.value.left, ast.Name)
                and isinstance(s.targets[0], ast.Name)
                and s.targets[0].id == s.value.left.id
                and path_of(s.value.right) == part
            ):
                acc = s.targets[0].id
                inits = [
                    n for n in join.node.body
                    if isinstance(n, ast.Assign) and isinstance(n.targets[0], ast.Name)
                    and n.targets[0].id == acc and path_of(n.value) == "self"
                ]
                rets = [n for n in join.node.body if isinstance(n, ast.Return) and path_of(n.value) == acc]
                # every part is joined: nothing in the loop body can skip the fold step or leave the loop
                skips = [x for b in loops[0].body for x in ast.walk(b) if isinstance(x, (ast.Continue, ast.Break, ast.Return, ast.If))]
                ok = bool(inits and rets) and not skips
    if ok:
        rr.ok(join.loc(), "join(): p = self; for part in parts: p = p / part; return p")
    else:
        rr.bad(join, join.node, "join must fold the `/` operator over its arguments in order, starting from self",
               construct="join folds /")
    # parent
    parent = cls.methods.get("parent")
    if parent is None:
        raise AnalysisError("JSONPointer.parent not found")
    flow = must_flow(parent.node, refine_events=lambda t, b: (
        ["empty@self.parts"] if (isinstance(t, ast.UnaryOp) and isinstance(t.op, ast.Not) and False) else
        (["empty@self.parts"] if (path_of(t) == "self.parts" and not b) else [])
    ))
    rets = [n for n in ast.walk(parent.node) if isinstance(n, ast.Return)]
    good_root = good_slice = False
    for r in rets:
        st = flow.pre.get(id(r)) or frozenset()
        if path_of(r.value) == "self" and "empty@self.parts" in st:
            good_root = True
        elif r.value is not None and "empty@self.parts" not in st:
            # must be built from self.parts[:-1]
            # "all but the last token": self.parts[:-1], or `*head, _ = self.parts` with head used in the result
            from .common import expand_locals

            full = ast.unparse(expand_locals(parent.node, r.value))
            heads = [
                t.elts[0].value.id for n in ast.walk(parent.node)
                if isinstance(n, ast.Assign) and len(n.targets) == 1 and path_of(n.value) == "self.parts"
                for t in [n.targets[0]] if isinstance(t, ast.Tuple) and len(t.elts) == 2 and isinstance(t.elts[0], ast.Starred)
                and isinstance(t.elts[0].value, ast.Name) and isinstance(t.elts[1], ast.Name)
            ]
            if "self.parts[:-1]" in full or any(
                isinstance(x, ast.Name) and x.id in heads for x in ast.walk(r.value)
            ):
                good_slice = True
    if good_root and good_slice:
        rr.ok(parent.loc(), "parent(): self when parts is empty, else built from parts[:-1]")
    else:
        rr.bad(parent, parent.node,
               "parent() must return self for the root pointer and otherwise a pointer built from parts[:-1]",
               construct="parent shape")
    # __truediv__: leading slash replaces
    td = cls.methods.get("__truediv__")
    if td is None:
        raise AnalysisError("JSONPointer.__truediv__ not found")
    def leading_slash_subject(t: ast.expr) -> Optional[str]:
        """X for `X.startswith("/")` and `X[:1] == "/"`."""
        if isinstance(t, ast.Call) and callee_name(t) == "startswith" and isinstance(t.func, ast.Attribute) and t.args and isinstance(
            t.args[0], ast.Constant) and t.args[0].value == "/":
            return path_of(t.func.value)
        if (
            isinstance(t, ast.Compare) and len(t.ops) == 1 and isinstance(t.ops[0], ast.Eq) and isinstance(t.comparators[0], ast.Constant)
            and t.comparators[0].value == "/" and isinstance(t.left, ast.Subscript) and isinstance(t.left.slice, ast.Slice)
            and t.left.slice.lower is None and isinstance(t.left.slice.upper, ast.Constant) and t.left.slice.upper.value == 1
        ):
            return path_of(t.left.value)
        return None

    from .common import path_conditions as _pc

    good = False
    for r_ in [n for n in ast.walk(td.node) if isinstance(n, ast.Return)]:
        subjects = [leading_slash_subject(t) for t, b in _pc(td.node, r_) if b]
        subjects = [x for x in subjects if x]
        if not subjects:
            continue
        v = r_.value
        if isinstance(v, ast.Call) and callee_name(v) in ("JSONPointer", "cls"):
            a0 = v.args[0] if v.args else None
            if a0 is not None and path_of(a0) in subjects and not any(
                isinstance(x, ast.Attribute) and x.attr == "parts" for x in ast.walk(v)
            ):
                good = True
    if good:
        rr.ok(td.loc(), "__truediv__: a part starting with `/` yields a pointer built from that part alone")
    else:
        rr.bad(td, td.node, "a joined part that starts with a slash must replace the pointer",
               construct="leading slash replaces")
    return rr


def r14_5(ctx: Ctx, rule: str = "R14.5") -> RuleResult:
    """`a.is_relative_to(b)` is a statement about *token sequences*: b's tokens are a proper prefix of a's.  A
    prefix test on the printed pointers is a different relation (`/ab/c` starts with `/a`), so the decision must
    come from an equality of token sequences (a slice of one against the other, or element by element), never
    from `str.startswith` on the text."""
    rr = RuleResult(rule, "is_relative_to compares token sequences, not text", floor=1)
    cls = ctx.repo.require_class("jsonpath.pointer.JSONPointer")
    fn = cls.methods.get("is_relative_to")
    if fn is None:
        raise AnalysisError("JSONPointer.is_relative_to not found")

    def parts_derived(e: ast.AST, depth: int = 0) -> bool:
        for n in ast.walk(e):
            if isinstance(n, ast.Attribute) and n.attr == "parts":
                return True
            if isinstance(n, ast.Call) and isinstance(n.func, ast.Attribute) and depth < 2:
                m = ctx.repo.find_method(cls, n.func.attr)
                if m is not None and m is not fn and any(parts_derived(r.value, depth + 1) for r in ast.walk(m.node)
                                                          if isinstance(r, ast.Return) and r.value is not None):
                    return True
        return False

    text_prefix = [c for c in calls(fn.node, "startswith")] + [c for c in calls(fn.node, "removeprefix")]
    seq_eq = []
    for n in ast.walk(fn.node):
        if isinstance(n, ast.Compare) and len(n.ops) == 1 and isinstance(n.ops[0], (ast.Eq, ast.NotEq)):
            sides = [n.left, n.comparators[0]]
            if any(isinstance(x, ast.Call) and callee_name(x) == "len" for x in sides):
                continue
            if all(parts_derived(x) for x in sides):
                seq_eq.append(n)
            else:
                # element-wise: `f(a) == f(b) for a, b in zip(X, Y)` with X, Y derived from parts
                for g in ast.walk(fn.node):
                    if isinstance(g, (ast.comprehension, ast.For)) and isinstance(g.iter, ast.Call) and callee_name(g.iter) == "zip" and len(
                        g.iter.args) == 2 and all(parts_derived(a) for a in g.iter.args) and isinstance(g.target, ast.Tuple) and len(g.target.elts) == 2:
                        ta, tb = (path_of(x) for x in g.target.elts)
                        names = [{x.id for x in ast.walk(sd) if isinstance(x, ast.Name)} & {ta, tb} for sd in sides]
                        if names[0] and names[1] and names[0] != names[1]:
                            seq_eq.append(n)
                            break
    for c in text_prefix:
        rr.bad(fn, c, f"`{short(c)}` decides relativity by a prefix of the printed pointer: `/ab/c` starts with `/a` although "
               "it is not below it (a move from /a to /ab/c is then refused as a move into its own child)", construct=short(c))
    if seq_eq:
        rr.ok(fn.loc(seq_eq[0]), f"is_relative_to: `{short(seq_eq[0], 70)}` compares token sequences")
    elif not text_prefix:
        raise AnalysisError(f"{rule}: is_relative_to contains no comparison of token sequences")
    return rr


def r14_6(ctx: Ctx) -> RuleResult:
    """White space at the end of pointer text belongs to its last token (`/a/b ` addresses the member `b `).  Parsing
    and joining strip on the left only; wherever a method of JSONPointer splits text into reference tokens, the
    text must derive from its input without `strip()` / `rstrip()`."""
    from .common import expand_locals

    rr = RuleResult("R14.6", "pointer text keeps its trailing characters when it is split into tokens", floor=2)
    cls = ctx.repo.require_class("jsonpath.pointer.JSONPointer")
    n = 0
    for m in cls.methods.values():
        for c in calls(m.node, "split"):
            if not (isinstance(c.func, ast.Attribute) and c.args and isinstance(c.args[0], ast.Constant) and c.args[0].value == "/"):
                continue
            n += 1
            # the chain of text operations from a parameter to the split, through single-assignment locals and
            # straight-line rebinding (`s = s.lstrip()`)
            seen_ops: List[str] = []
            names = {a.arg for a in m.node.args.args + m.node.args.kwonlyargs}
            e = expand_locals(m.node, c.func.value)
            work = [e]
            for a in ast.walk(m.node):
                if isinstance(a, ast.Assign) and len(a.targets) == 1 and isinstance(a.targets[0], ast.Name) and a.targets[0].id in names | {
                        x.id for x in ast.walk(e) if isinstance(x, ast.Name)}:
                    work.append(a.value)
            for w in work:
                for x in ast.walk(w):
                    if isinstance(x, ast.Call) and isinstance(x.func, ast.Attribute) and x.func.attr in ("strip", "rstrip") and not any(
                            isinstance(a, ast.Constant) and isinstance(a.value, str) and a.value and not a.value.isspace() for a in x.args):
                        seen_ops.append(x.func.attr)
            if seen_ops:
                rr.bad(m, c, f"{m.qualname} splits text into tokens after `.{seen_ops[0]}()`: white space at the end of the last token is lost "
                       "(`p / \"b \"` addresses the member `b` instead of `b `), and the joined pointer differs from the parsed one",
                       construct=f"{m.name}: {seen_ops[0]} before split('/')")
            else:
                rr.ok(m.loc(c), f"{m.qualname}: text is split into tokens with its trailing characters")
    if n == 0:
        raise AnalysisError("R14.6: no method of JSONPointer splits text into reference tokens")
    return rr


def r14_7(ctx: Ctx) -> RuleResult:
    """Tokens that contain non-ASCII characters survive parsing, from_parts and `/`: the escape decoder is applied to
    text that was encoded so that only backslash sequences are rewritten (= R4.5)."""
    from .c04 import r4_5

    return r4_5(ctx, "R14.7")


def r14_8(ctx: Ctx) -> RuleResult:
    """Joining: `p / t` (and `p.join(t)`) with t in escaped form is p followed by the reference tokens of t - t split
    at `/` and each piece unescaped (`~1` -> `/`, then `~0` -> `~`) - and a t that starts with a slash replaces p.
    `JSONPointer.__truediv__` is executed abstractly (rules/model.py) on a base pointer and parts that cover the
    escapes (an escaped slash must not become a separator), several tokens in one part, index-like and empty tokens;
    the pointer it constructs must have exactly those tokens and their RFC 6901 spelling as text."""
    from sa.peval import UNKNOWN

    from .model import RAISES
    from .model import MObj
    from .model import Model

    def unescape(tok: str) -> str:
        return tok.replace("~1", "/").replace("~0", "~")

    def escape(tok: str) -> str:
        return tok.replace("~", "~0").replace("/", "~1")

    samples = ["b", "b~1c", "x~0y", "~01", "~10", "m/n", "m~1n/o~0p", "0", "01", "7", "", "\u00e9", "a b", "/abs/x", "/", "/q~1r"]
    bases = [("a",), (), ("x", 3)]
    rr = RuleResult("R14.8", "joining appends the reference tokens of the part, an absolute part replaces the pointer", floor=len(samples) * len(bases))
    cls = ctx.repo.require_class("jsonpath.pointer.JSONPointer")
    fn = ctx.repo.find_method(cls, "__truediv__")
    if fn is None:
        raise AnalysisError("R14.8: JSONPointer.__truediv__ not found")
    for base in bases:
        for t in samples:
            made: List[Tuple[List[object], Dict[str, object]]] = []
            model: Model

            def hook(e: ast.Call, a: List[object], env: Dict[str, object], ex) -> object:  # type: ignore[no-untyped-def]
                if isinstance(e.func, ast.Name) and e.func.id in ("JSONPointer", "cls"):
                    kws = {k.arg: ex.value(k.value, env) for k in e.keywords if k.arg}
                    made.append((list(a), kws))
                    return MObj(model, "jsonpath.pointer.JSONPointer", {"parts": kws.get("parts", UNKNOWN)})
                return None

            model = Model(ctx, "R14.8", hook)
            model.whole_bodies = True
            base_text = "".join("/" + escape(str(x)) for x in base)
            obj = MObj(model, "jsonpath.pointer.JSONPointer", {"parts": base, "_s": base_text})
            r = model.call(obj, "__truediv__", [t])
            shown = f"JSONPointer({base_text!r}) / {t!r}"
            if r is RAISES:
                rr.bad(fn, fn.node, f"{shown} raises", construct=f"{shown} raises")
                continue
            if r is UNKNOWN or len(made) != 1:
                raise AnalysisError(f"R14.8: the abstract execution of {shown} does not construct one pointer ({len(made)})")
            args, kws = made[0]
            if t.startswith("/"):
                want_tokens = [unescape(x) for x in t[1:].split("/")]
            else:
                want_tokens = [str(x) for x in base] + [unescape(x) for x in t.split("/")]
            want_text = "".join("/" + escape(x) for x in want_tokens)
            text = args[0] if args else kws.get("pointer")
            parts = kws.get("parts")
            problems = []
            if text is UNKNOWN or not isinstance(text, str):
                raise AnalysisError(f"R14.8: the text of the pointer {shown} constructs cannot be determined")
            if text != want_text:
                problems.append(f"its text is {text!r} instead of {want_text!r}")
            if parts is not None:
                if parts is UNKNOWN or not isinstance(parts, tuple) or any(not isinstance(x, (str, int)) or isinstance(x, bool) for x in parts):
                    raise AnalysisError(f"R14.8: the parts of the pointer {shown} constructs cannot be determined")
                if [str(x) for x in parts] != want_tokens:
                    problems.append(f"its tokens are {[str(x) for x in parts]} instead of {want_tokens}")
            if problems:
                rr.bad(fn, fn.node, f"{shown}: " + " and ".join(problems) + (": an escaped slash in the part has become a separator" if "~1" in t else ""),
                       construct=f"{shown} -> {[str(x) for x in parts] if isinstance(parts, tuple) else text}")
            else:
                rr.ok(fn.loc(), f"{shown} -> tokens {want_tokens}")
    return rr


def r14_9(ctx: Ctx) -> RuleResult:
    """The pointer algebra on covering pointers, by abstract execution (rules/model.py) of the constructors, `__str__`,
    `__eq__`, `__hash__`, `from_parts`, `parent`, `join`, `/` and `is_relative_to`: parsing and printing returns the
    text; two pointers are equal - and hash alike - exactly when their reference tokens are equal as strings, whether
    parsed from text or built from tokens given as str or as int; `from_parts` prints the RFC 6901 spelling, which
    parses back to an equal pointer; a joined pointer has the pointer it was joined onto as parent and is relative to
    it (and to no pointer that merely shares a text prefix); the parent of the root is the root."""
    from sa.peval import UNKNOWN

    from .model import RAISES
    from .model import ClassModel
    from .model import MObj
    from .model import Model
    from .model import _ConstructorRaises

    P = "jsonpath.pointer.JSONPointer"
    texts = ["", "/", "/a", "/a/0", "/a/1", "/a~1b", "/m~0n", "/~01", "//", "/a/ ", "/\u00e9", "/0", "/01", "/a/b/c", "/ab/c", "/a/0/", "/a/00",
             # signed / padded / exponent look-alikes of an index are names; blanks inside and at the end of a token stay
             "/-0", "/a/-0", "/+1", "/1e0", "/a/b ", "/a b/c"]
    rr = RuleResult("R14.9", "parse/print, equality by tokens, from_parts, parent/join/relativity on covering pointers", floor=len(texts) * 4)
    cls = ctx.repo.require_class(P)
    eqf = ctx.repo.find_method(cls, "__eq__")
    strf = ctx.repo.find_method(cls, "__str__")
    if eqf is None or strf is None:
        raise AnalysisError("R14.9: JSONPointer.__eq__ / __str__ not found")
    model = Model(ctx, "R14.9")
    model.whole_bodies = model.auto_construct = model.exact_exceptions = model.heap = True
    cm = ClassModel(model, P, {})

    def toks(t: str) -> List[str]:
        return [] if t == "" else [x.replace("~1", "/").replace("~0", "~") for x in t[1:].split("/")]

    def known(v: object, what: str) -> object:
        if v is UNKNOWN:
            raise AnalysisError(f"R14.9: {what} cannot be determined")
        return v

    built: Dict[str, List[Tuple[str, MObj]]] = {}
    for t in texts:
        variants: List[Tuple[str, MObj]] = []
        for ue in (False, True):
            try:
                variants.append((f"JSONPointer({t!r}, unicode_escape={ue})", model.new(P, t, unicode_escape=ue)))
            except _ConstructorRaises:
                rr.bad(strf, strf.node, f"the RFC 6901 pointer {t!r} is refused ({model.last_raised})", construct=f"JSONPointer({t!r}) raises")
        fp = model.call(cm, "from_parts", [toks(t)], {"unicode_escape": False})
        if isinstance(fp, MObj):
            variants.append((f"from_parts({toks(t)!r})", fp))
        else:
            rr.bad(strf, strf.node, f"from_parts({toks(t)!r}) " + ("raises" if fp is RAISES else "cannot be followed"), construct=f"from_parts({toks(t)!r})")
        typed = [int(x) if re_index(x) else x for x in toks(t)]
        if typed != toks(t):
            fp2 = model.call(cm, "from_parts", [typed], {"unicode_escape": False})
            if isinstance(fp2, MObj):
                variants.append((f"from_parts({typed!r})", fp2))
        built[t] = variants
        for label, ptr in variants:
            shown = known(model.call(ptr, "__str__", []), f"the text of {label}")
            if shown == t:
                rr.ok(strf.loc(), f"str({label}) == {t!r}")
            else:
                rr.bad(strf, strf.node, f"{label} prints as {shown!r}, not as {t!r}", construct=f"str({label}) == {shown!r}")
    for i, t1 in enumerate(texts):
        for t2 in texts[i:]:
            same = toks(t1) == toks(t2)
            for l1, p1 in built[t1]:
                for l2, p2 in built[t2]:
                    if p1 is p2:
                        continue
                    got = known(model.call(p1, "__eq__", [p2]), f"{l1} == {l2}")
                    if got is not same:
                        rr.bad(eqf, eqf.node, f"{l1} == {l2} is {got!r}; their reference tokens are {'the same' if same else 'different'} ({toks(t1)} / {toks(t2)})",
                               construct=f"{l1} == {l2} -> {got!r}")
                    elif same:
                        h1, h2 = known(model.call(p1, "__hash__", []), f"hash of {l1}"), known(model.call(p2, "__hash__", []), f"hash of {l2}")
                        if h1 != h2:
                            rr.bad(eqf, eqf.node, f"{l1} and {l2} are equal but hash differently", construct=f"hash({l1}) != hash({l2})")
            rr.ok(eqf.loc(), f"{t1!r} vs {t2!r}: {'equal' if same else 'different'} in every construction")
    # navigation
    for t in texts:
        base = built[t][0][1] if built[t] else None
        if base is None:
            continue
        for part in ("x", "b~1c", "~0", "0", "", "p/q", "-0", "b ", "01"):
            joined = model.call(base, "join", [part])
            slashed = model.call(base, "__truediv__", [part])
            if not isinstance(joined, MObj) or not isinstance(slashed, MObj):
                raise AnalysisError(f"R14.9: joining {part!r} onto {t!r} cannot be followed")
            if known(model.call(joined, "__eq__", [slashed]), "join == /") is not True:
                rr.bad(eqf, eqf.node, f"JSONPointer({t!r}).join({part!r}) and JSONPointer({t!r}) / {part!r} differ", construct=f"join vs / for {t!r}, {part!r}")
                continue
            want_text = t + "".join("/" + x for x in part.split("/"))
            if known(model.call(joined, "__str__", []), "text of a join") != want_text:
                rr.bad(eqf, eqf.node, f"JSONPointer({t!r}).join({part!r}) prints as {model.call(joined, '__str__', [])!r}, not as {want_text!r}", construct=f"text of join({t!r}, {part!r})")
                continue
            cur: object = joined
            for _ in range(part.count("/") + 1):
                cur = model.call(cur, "parent", []) if isinstance(cur, MObj) else UNKNOWN
            if not isinstance(cur, MObj) or known(model.call(cur, "__eq__", [base]), "parent == base") is not True:
                rr.bad(eqf, eqf.node, f"the parent of JSONPointer({t!r}).join({part!r}) is not JSONPointer({t!r})", construct=f"parent(join({t!r}, {part!r}))")
            elif known(model.call(joined, "is_relative_to", [base]), "relativity") is not True:
                rr.bad(eqf, eqf.node, f"JSONPointer({t!r}).join({part!r}) is not relative to JSONPointer({t!r})", construct=f"is_relative_to after join({t!r}, {part!r})")
            else:
                rr.ok(eqf.loc(), f"{t!r} joined with {part!r}: parent and relativity hold, / agrees")
        # several parts: each is joined in turn, and each may replace what came before
        for parts_m, want_m in ((("a", "b"), t + "/a/b"), (("a", "/b"), "/b"), (("", "a"), t + "//a"), (("/x", "y", "/z", "w"), "/z/w"), (("a~1", "~0b"), t + "/a~1/~0b")):
            jm = model.call(base, "join", list(parts_m))
            if not isinstance(jm, MObj):
                rr.bad(eqf, eqf.node, f"JSONPointer({t!r}).join{parts_m!r} " + ("raises" if jm is RAISES else "cannot be followed"), construct=f"join{parts_m!r} onto {t!r}")
            elif known(model.call(jm, "__str__", []), "text of a join of several parts") != want_m:
                rr.bad(eqf, eqf.node, f"JSONPointer({t!r}).join{parts_m!r} is {model.call(jm, '__str__', [])!r}; joining the parts one after the other gives {want_m!r}",
                       construct=f"join{parts_m!r} onto {t!r}")
            else:
                rr.ok(eqf.loc(), f"{t!r}.join{parts_m!r} -> {want_m!r}")
        absolute = model.call(base, "join", ["/z/9"])
        if not isinstance(absolute, MObj) or known(model.call(absolute, "__str__", []), "text of an absolute join") != "/z/9":
            rr.bad(eqf, eqf.node, f"JSONPointer({t!r}).join('/z/9') is not the pointer /z/9: a part that starts with a slash replaces the pointer", construct=f"absolute join onto {t!r}")
    root = built[""][0][1]
    rp = model.call(root, "parent", [])
    if not isinstance(rp, MObj) or known(model.call(rp, "__eq__", [root]), "parent of the root") is not True:
        rr.bad(eqf, eqf.node, "the parent of the root pointer is not the root pointer", construct="parent of the root")
    for t1, t2, want in (("/ab/c", "/a", False), ("/a/0", "/a", True), ("/a", "/a", False), ("/a/00", "/a/0", False), ("/a/0/", "/a/0", True), ("/a", "", True), ("/a~1b", "/a", False)):
        got = known(model.call(built[t1][0][1], "is_relative_to", [built[t2][0][1]]), f"relativity of {t1!r} to {t2!r}")
        if got is want:
            rr.ok(eqf.loc(), f"{t1!r} relative to {t2!r}: {want}")
        else:
            rr.bad(eqf, eqf.node, f"JSONPointer({t1!r}).is_relative_to(JSONPointer({t2!r})) is {got!r}; by tokens it is {want}", construct=f"is_relative_to({t1!r}, {t2!r})")
    return rr


def re_index(tok: str) -> bool:
    import re as _re

    return _re.fullmatch(r"0|[1-9][0-9]*", tok) is not None


RULES = [r14_1, r14_2, r14_3, r14_4, r14_5, r14_6, r14_7, r14_8, r14_9]
